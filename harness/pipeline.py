"""Whole compilations executed from MIR (C01, C02, C03 ...).

Phase 1 (per program text and option set, cached on disk per source key): the library entry point
clvmc::compile_clvm_text_maybe_opt - dialect detection, preprocessing (with the stock macros compiled and run by the
stepping evaluator), frontend, rename, desugaring, inlining, codegen, the optimisers - is executed from the crate's MIR on
the concrete program text.  Its output must equal the native build's output for the same text (cross-check, every time).

Phase 2: the emitted CLVM is run by clvmr's run_program (from clvmr's MIR) on *symbolic* arguments of a stated shape, and
an independent reference evaluator of the source language (below; primitive operators are delegated to clvmr, the
language constructs are not) evaluates the source text on the same symbolic arguments.  z3 decides, on every path,
that whenever the reference yields a value the compiled program yields the identical value.
"""
import hashlib
import json
import os
import re
import time
import z3
from mirsym.driver import Harness, ev, slice_of, conc_bytes, sym_bytes
from mirsym.engine import (Engine, Cell, Ref, Struct, Enum, Vec, Int, mkint, mkbool, PathEnd, Unsupported, concrete)
from mirsym.models_clvm import Tree, atom_node, pair_node, nil_node, tree_to_json, tree_from_json
from harness.codec import tree_eq
from harness.convert import tls

ROOT = os.path.dirname(os.path.dirname(os.path.abspath(__file__)))


# ---------------------------------------------------------------- an independent reader for the templates
class Form:
    __slots__ = ('k', 'a', 'b')

    def __init__(self, k, a=None, b=None):
        self.k, self.a, self.b = k, a, b        # k: 'sym' (a=name bytes) | 'int' (a=n) | 'str' (a=bytes) | 'nil' | 'cons' (a, b)

    def __repr__(self):
        if self.k == 'cons':
            return '(%r . %r)' % (self.a, self.b)
        return '%s:%r' % (self.k, self.a)


NILF = Form('nil')


def f_list(items, tail=None):
    out = tail if tail is not None else NILF
    for it in reversed(items):
        out = Form('cons', it, out)
    return out


def f_items(f):
    """proper-list prefix of a form -> (items, tail)"""
    out = []
    while f.k == 'cons':
        out.append(f.a)
        f = f.b
    return out, f


def read_forms(text):
    toks = []
    i, n = 0, len(text)
    while i < n:
        c = text[i]
        if c in ' \t\r\n':
            i += 1
        elif c == ';':
            while i < n and text[i] != '\n':
                i += 1
        elif c in '()':
            toks.append(c); i += 1
        elif c == '"':
            j = i + 1
            while text[j] != '"':
                j += 1
            toks.append(('str', text[i + 1:j].encode())); i = j + 1
        else:
            j = i
            while j < n and text[j] not in ' \t\r\n();':
                j += 1
            toks.append(('word', text[i:j])); i = j
    pos = [0]

    def atom(w):
        if w == '.':
            raise ValueError('stray dot')
        try:
            if w.startswith('0x'):
                return Form('str', bytes.fromhex(w[2:] if len(w) % 2 == 0 else '0' + w[2:]))
            return Form('int', int(w))
        except ValueError:
            return Form('sym', w.encode())

    def form():
        t = toks[pos[0]]
        pos[0] += 1
        if t == '(':
            items, tail = [], None
            while toks[pos[0]] != ')':
                if toks[pos[0]] == ('word', '.'):
                    pos[0] += 1
                    tail = form()
                else:
                    items.append(form())
            pos[0] += 1
            return f_list(items, tail)
        if t == ')':
            raise ValueError('unbalanced')
        if t[0] == 'str':
            return Form('str', t[1])
        return atom(t[1])
    out = []
    while pos[0] < len(toks):
        out.append(form())
    return out


# ---------------------------------------------------------------- reference evaluator of the source language
class RefFail(Exception):
    """source evaluation does not return a value (raise, failing operator)"""


class RefOutside(Exception):
    """the template uses something the reference evaluator does not define"""


class Closure:
    def __init__(self, env, params, body):
        self.env, self.params, self.body = env, params, body


class ModValue:
    """the value of a nested (mod ...) expression: a program"""
    def __init__(self, form):
        self.form = form


class Bottom:
    """a parameter whose position does not exist in the argument value: using it fails"""


BOTTOM = Bottom()

OPS = {b'+': 16, b'-': 17, b'*': 18, b'/': 19, b'divmod': 20, b'>': 21, b'ash': 22, b'lsh': 23, b'logand': 24,
       b'logior': 25, b'logxor': 26, b'lognot': 27, b'not': 32, b'any': 33, b'all': 34, b'=': 9, b'>s': 10,
       b'sha256': 11, b'substr': 12, b'strlen': 13, b'concat': 14, b'c': 4, b'f': 5, b'r': 6, b'l': 7, b'x': 8,
       b'i': 3}


def int_bytes(n):
    if n == 0:
        return b''
    ln = (n.bit_length() + 8) // 8 if n > 0 else ((-n - 1).bit_length() + 8) // 8
    return n.to_bytes(ln, 'big', signed=True)


def atom_of_bytes(bs):
    return atom_node([mkint(b, 'u8') for b in bs])


def truthy(t):
    """CLVM truth of a value: shapes and atom lengths are concrete in the tree model"""
    return t.kind == 'pair' or len(t.atom) > 0


def datum(f):
    """quoted data -> value"""
    if f.k == 'cons':
        return pair_node(datum(f.a), datum(f.b))
    if f.k == 'nil':
        return nil_node()
    if f.k == 'int':
        return atom_of_bytes(int_bytes(f.a))
    return atom_of_bytes(f.a)       # symbols and strings: their bytes


def list_value(vals, tail=None):
    out = tail if tail is not None else nil_node()
    for v in reversed(vals):
        out = pair_node(v, out)
    return out


def arg_path(n):
    return (1 << (n + 1)) | ((1 << n) - 1)


class RefEval:
    MAX_DEPTH = 40

    def __init__(self, eng, alloc, dialect):
        self.eng, self.alloc, self.dialect = eng, alloc, dialect
        self.funs, self.consts, self.const_forms = {}, {}, {}
        self.macros = {}
        self.depth = 0

    # -- primitives: the consensus operator implementations, nothing of the compiler
    def apply_op(self, name, vals):
        for v in vals:
            if not isinstance(v, Tree):
                raise RefOutside('a function value or missing argument reaches operator %s' % name.decode())
        if name == b'c' and len(vals) == 2:
            return pair_node(vals[0], vals[1])
        if name in (b'f', b'r') and len(vals) == 1:
            if vals[0].kind != 'pair':
                raise RefFail('%s of an atom' % name.decode())
            return vals[0].a if name == b'f' else vals[0].b
        if name == b'l' and len(vals) == 1:
            return atom_of_bytes(b'\x01') if vals[0].kind == 'pair' else nil_node()
        if name == b'not' and len(vals) == 1:
            return nil_node() if truthy(vals[0]) else atom_of_bytes(b'\x01')
        if name == b'i' and len(vals) == 3:
            return vals[1] if truthy(vals[0]) else vals[2]
        if name == b'x':
            raise RefFail('raise')
        prog = list_value([atom_of_bytes(int_bytes(arg_path(i))) for i in range(len(vals))])
        prog = pair_node(atom_of_bytes(bytes([OPS[name]])), prog)
        r = self.eng.call('run_program::run_program', [self.alloc, self.dialect, prog, list_value(vals), mkint(0, 'u64')])
        if r.variant != 'Ok':
            raise RefFail('operator %s fails' % name.decode())
        return r.fields[0].fields[1]

    # -- binding
    def bind(self, pat, val, env):
        if pat.k == 'nil':
            return
        if pat.k == 'sym':
            env[pat.a] = val
            return
        if pat.k != 'cons':
            raise RefOutside('parameter pattern %r' % (pat,))
        items, tail = f_items(pat)
        if items and items[0].k == 'sym' and items[0].a == b'@' and len(items) == 3 and tail.k == 'nil':
            env[items[1].a] = val
            self.bind(items[2], val, env)
            return
        if isinstance(val, Tree) and val.kind == 'pair':
            self.bind(pat.a, val.a, env)
            self.bind(pat.b, val.b, env)
        else:
            self.bind(pat.a, BOTTOM, env)
            self.bind(pat.b, BOTTOM, env)

    # -- expressions
    def eval(self, f, env):
        if f.k == 'int':
            return atom_of_bytes(int_bytes(f.a))
        if f.k == 'str':
            return atom_of_bytes(f.a)
        if f.k == 'nil':
            return nil_node()
        if f.k == 'sym':
            if f.a in env:
                v = env[f.a]
                if v is BOTTOM:
                    raise RefFail('parameter %s has no value in this argument shape' % f.a.decode())
                return v
            if f.a in self.const_forms:
                return self.constant(f.a)
            if f.a in self.funs:
                params, body = self.funs[f.a]
                return Closure({}, params, body)          # a function named as a value: something that can be applied
            raise RefOutside('unbound identifier %s' % f.a.decode())
        items, tail = f_items(f)
        head = items[0]
        if head.k != 'sym':
            raise RefOutside('computed head %r' % (head,))
        h = head.a
        if h in (b'q', b'quote') and h not in env:
            if h == b'q':
                return datum(f.b)
            return datum(items[1])
        if h == b'if':
            c = self.eval(items[1], env)
            if not isinstance(c, Tree):
                raise RefOutside('function value as a condition')
            return self.eval(items[2] if truthy(c) else items[3], env)
        if h == b'list':
            return list_value([self.need_tree(self.eval(x, env)) for x in items[1:]])
        if h in (b'let', b'let*'):
            bindings, _ = f_items(items[1])
            new = dict(env)
            for b in bindings:
                bi, _ = f_items(b)
                v = self.eval(bi[1], new if h == b'let*' else env)
                self.bind(bi[0], v, new)
            return self.eval(items[2], new)
        if h == b'assign':
            return self.assign(items[1:], env)
        if h == b'lambda':
            return self.make_lambda(items, env)
        if h == b'mod' and h not in env:
            return ModValue(f)
        if h == b'a' and len(items) == 3:
            fv = self.eval(items[1], env)
            if isinstance(fv, Closure):
                return self.call_closure(fv, self.eval(items[2], env))
            if isinstance(fv, ModValue):
                # a nested program is a value; applying it runs that program, with its own helpers, on the arguments
                return RefEval(self.eng, self.alloc, self.dialect).run_mod(fv.form, self.need_tree(self.eval(items[2], env)))
            raise RefOutside('(a ...) on data')
        args = []
        rest = None
        k = 1
        while k < len(items):
            if items[k].k == 'sym' and items[k].a == b'&rest' and k == len(items) - 2:
                rest = self.eval(items[k + 1], env)
                break
            args.append(self.eval(items[k], env))
            k += 1
        if h in self.macros and h not in env:
            return self.eval(self.expand_macro(h, items[1:]), env)
        if h in self.funs:
            params, body = self.funs[h]
            for v in args:
                if not isinstance(v, (Tree, Closure)):
                    raise RefOutside('argument value')
            argv = list_value(args, rest) if all(isinstance(v, Tree) for v in args) else self.list_with_closures(args, rest)
            return self.call(params, body, argv, {})
        if h in env and isinstance(env[h], Closure) and False:
            pass
        if h in OPS:
            if rest is not None:
                raise RefOutside('&rest on an operator')
            return self.apply_op(h, args)
        raise RefOutside('form head %s' % h.decode())

    def expand_macro(self, name, arg_forms):
        """macros of the form (defmacro M (P ...) (qq TEMPLATE)): TEMPLATE with every (unquote P) replaced by the argument
        form, which is then evaluated where the macro was used; anything else is outside the reference"""
        params, body = self.macros[name]
        pi, ptail = f_items(params)
        if ptail.k != 'nil' or any(p.k != 'sym' for p in pi) or len(pi) != len(arg_forms):
            raise RefOutside('macro parameter list')
        sub = {p.a: a for p, a in zip(pi, arg_forms)}
        bi, _ = f_items(body)
        if len(bi) != 2 or bi[0].k != 'sym' or bi[0].a != b'qq':
            raise RefOutside('macro body that is not a quasi-quote')

        def go(f):
            if f.k != 'cons':
                return f
            it, tl = f_items(f)
            if len(it) == 2 and tl.k == 'nil' and it[0].k == 'sym' and it[0].a == b'unquote':
                if it[1].k == 'sym' and it[1].a in sub:
                    return sub[it[1].a]
                raise RefOutside('unquote of an expression')
            return Form('cons', go(f.a), go(f.b))
        return go(bi[1])

    def need_tree(self, v):
        if not isinstance(v, Tree):
            raise RefOutside('a function value stored in data')
        return v

    class _Args:
        """argument list holding at least one function value"""
        def __init__(self, vals, rest):
            self.vals, self.rest = vals, rest

    def list_with_closures(self, args, rest):
        return RefEval._Args(args, rest)

    def call(self, params, body, argv, base_env):
        self.depth += 1
        if self.depth > self.MAX_DEPTH:
            self.depth -= 1
            raise PathEnd('bound', 'reference evaluator recursion bound')
        try:
            env = dict(base_env)
            if isinstance(argv, RefEval._Args):
                self.bind_args(params, argv.vals, argv.rest, env)
            else:
                self.bind(params, argv, env)
            return self.eval(body, env)
        finally:
            self.depth -= 1

    def bind_args(self, params, vals, rest, env):
        """bind a parameter list against values some of which are function values (no destructuring of those)"""
        p = params
        for v in vals:
            if p.k == 'sym':
                raise RefOutside('rest parameter receives a function value')
            if p.k != 'cons':
                return
            if isinstance(v, Tree):
                self.bind(p.a, v, env)
            elif p.a.k == 'sym':
                env[p.a.a] = v
            else:
                raise RefOutside('destructuring a function value')
            p = p.b
        self.bind(p, rest if rest is not None else nil_node(), env)

    def assign(self, rest, env):
        pairs = []
        k = 0
        while k + 1 < len(rest):
            pairs.append((rest[k], rest[k + 1]))
            k += 2
        body = rest[k]
        bound_names = set()
        for pat, _ in pairs:
            bound_names |= pattern_names(pat)
        new = dict(env)
        done = [False] * len(pairs)
        have = set()
        for _ in range(len(pairs)):
            if all(done):
                break
            progressed = False
            for i, (pat, ex) in enumerate(pairs):
                if done[i]:
                    continue
                need = (symbols_in(ex) & bound_names) - have
                if not need:
                    self.bind(pat, self.eval(ex, new), new)
                    have |= pattern_names(pat)
                    done[i] = True
                    progressed = True
            if not progressed:
                raise RefOutside('cyclic assign')
        return self.eval(body, new)

    def make_lambda(self, items, env):
        params = items[1]
        caps = {}
        pi, ptail = f_items(params)
        if pi and pi[0].k == 'cons':
            ci, _ = f_items(pi[0])
            if ci and ci[0].k == 'sym' and ci[0].a == b'&':
                for c in ci[1:]:
                    caps[c.a] = self.eval(c, env)
                params = f_list(pi[1:], ptail)
        return Closure(caps, params, items[2])

    def call_closure(self, clo, argv):
        return self.call(clo.params, clo.body, argv, clo.env)

    def constant(self, name):
        if name not in self.consts:
            self.consts[name] = self.eval(self.const_forms[name], {})
        return self.consts[name]

    # -- programs
    def run_mod(self, form, args):
        items, _ = f_items(form)
        params = items[1]
        body = items[-1]
        self.load_helpers(form)
        env = {}
        self.bind(params, args, env)
        v = self.eval(body, env)
        if not isinstance(v, Tree):
            raise RefOutside('the program returns a function value')
        return v

    def load_helpers(self, form):
        items, _ = f_items(form)
        if items[0].k != 'sym' or items[0].a != b'mod':
            raise RefOutside('not a mod form')
        for h in items[2:-1]:
            hi, _ = f_items(h)
            kind = hi[0].a
            if kind == b'include':
                continue
            if kind in (b'defun', b'defun-inline'):
                self.funs[hi[1].a] = (hi[2], hi[3])
            elif kind == b'defconstant':
                # a list after the name is literal data (the compiler's "constant tree"), anything else is an expression
                self.const_forms[hi[1].a] = f_list([Form('sym', b'quote'), hi[2]]) if hi[2].k == 'cons' else hi[2]
            elif kind == b'defconst':
                self.const_forms[hi[1].a] = hi[2]
            elif kind == b'defmacro':
                self.macros[hi[1].a] = (hi[2], hi[3])
            else:
                raise RefOutside('helper form %s' % kind.decode())


def pattern_names(pat):
    if pat.k == 'sym':
        return {pat.a}
    if pat.k == 'cons':
        return pattern_names(pat.a) | pattern_names(pat.b)
    return set()


def symbols_in(f):
    if f.k == 'sym':
        return {f.a}
    if f.k == 'cons':
        return symbols_in(f.a) | symbols_in(f.b)
    return set()


# ---------------------------------------------------------------- phase 1: the compilation itself, from MIR
_ENGINE_KEY = None


PHASE1_VERSION = 2        # bump when compile_from_mir changes what it computes


def engine_key():
    """hash of the symbolic executor's own sources: a cached phase-1 result is reused only for the same executor"""
    global _ENGINE_KEY
    if _ENGINE_KEY is None:
        h = hashlib.sha256(b'phase1 v%d' % PHASE1_VERSION)
        d = os.path.join(ROOT, 'mirsym')
        for fn in sorted(os.listdir(d)):
            if fn.endswith('.py'):
                h.update(open(os.path.join(d, fn), 'rb').read())
        _ENGINE_KEY = h.hexdigest()[:16]
    return _ENGINE_KEY


def compile_from_mir(source, optimize, extra_env=None):
    """-> dict(end=..., compiled=tree json | None, symbols=..., stats)"""
    from mirsym import driver
    fs, key, roots = driver.funcs(True)
    eng = Engine(fs, roots, bigw=264, loop_bound=200000, query_timeout_ms=20000)
    box = {}

    def run(e):
        e.env['tls'] = tls(True)
        e.env['exact_fmt'] = True
        if extra_env:
            e.env.update(extra_env)
        alloc = Ref(Cell(Struct('Allocator', [])))
        name = slice_of(conc_bytes(list(b'*t*')))
        opts = e.call('DefaultCompilerOpts::new', [name])
        symtab = Cell(e.call('HashMap::<String, String>::new', []))
        r = e.call('clvmc::compile_clvm_text_maybe_opt',
                   [alloc, mkbool(optimize), Cell(opts, 'rc'), Ref(symtab), slice_of(conc_bytes(list(source.encode()))), name,
                    mkbool(True)])
        box['symtab'] = symtab.v
        return r
    t0 = time.time()
    outs = list(eng.explore(run, max_paths=2))
    res = dict(wall_s=round(time.time() - t0, 1), functions={k: v for k, v in eng.encoded.items()}, stmts=eng.stats.get('stmts', 0))
    if len(outs) != 1:
        res.update(end='forked', compiled=None)
        return res
    kind, pc, out, dec, span = outs[0]
    if kind != 'done':
        res.update(end=kind, msg=str(out)[:800], compiled=None)
        return res
    if out.variant == 'Ok':
        res.update(end='ok', compiled=tree_to_json(None, out.fields[0], ev))
    else:
        res.update(end='err', compiled=None)
    try:
        res['symbols'] = sorted([bytes_of_items(k).decode('latin1'), bytes_of_items(c.v.items).decode('latin1')]
                                for k, c in [(eng.deref(k_, None), c_) for k_, c_ in box['symtab'].entries])
    except Exception as e:        # symbol text that is not concrete: reported, never guessed
        res['symbols'] = None
        res['symbols_error'] = '%s: %s' % (type(e).__name__, e)
    return res


def bytes_of_items(items):
    if hasattr(items, 'items'):
        items = items.items
    out = bytearray()
    for b in items:
        if hasattr(b, 'conc'):
            c = b.conc()
        else:
            c = b.c if b.c is not None else concrete(b.e)
        if c is None:
            raise ValueError('symbolic byte in symbol table text')
        out.append(c)
    return bytes(out)


def native_compile_text(inputs):
    """the compile_text kernel; a native crash (stack overflow abort) is a result, not an exception"""
    from mirsym import driver
    try:
        return driver.NATIVE.run('compile_text', [dict(case={}, inputs=inputs)])[0]
    except RuntimeError as e:
        return dict(crash=True, message=str(e)[-300:])


def compiled_program(source, optimize):
    """disk-cached (per repository source key and engine version) phase-1 result, cross-checked against the native build"""
    from mirsym import driver, cache as mcache
    fs, key, roots = driver.funcs(True)
    top = os.path.join(ROOT, '.cache', 'compiled')
    d = os.path.join(top, '%s-%s' % (key[:12], engine_key()))
    if not os.path.isdir(d):
        os.makedirs(d, exist_ok=True)
        import shutil
        others = sorted((o for o in os.listdir(top) if os.path.join(top, o) != d),
                        key=lambda o: os.path.getmtime(os.path.join(top, o)), reverse=True)
        for other in others[3:]:                 # keep a few recent source trees / engine versions, drop the rest
            shutil.rmtree(os.path.join(top, other), ignore_errors=True)
    h = hashlib.sha256(json.dumps([source, bool(optimize)]).encode()).hexdigest()[:24]
    path = os.path.join(d, h + '.json')
    if os.path.exists(path):
        try:
            return json.load(open(path))
        except Exception:
            pass
    res = compile_from_mir(source, optimize)
    res['source'], res['optimize'] = source, bool(optimize)
    nat = native_compile_text(dict(source=source, optimize=bool(optimize), args=[]))
    if nat.get('crash') and res['end'] == 'bound':
        # the native compiler overflows its stack and the run from MIR hits the call-depth bound: the compilation diverges
        res['end'] = 'diverges'
    res['native_compiled'] = nat.get('compiled')
    res['native_err'] = nat.get('compile_err')
    res['native_symbols'] = nat.get('symbols')
    res['agrees'] = (res['compiled'] == nat.get('compiled')) if res['end'] in ('ok', 'err') else False
    res['symbols_agree'] = res.get('symbols') is not None and [list(x) for x in res['symbols']] == [list(x) for x in (nat.get('symbols') or [])]
    tmp = path + '.%d.tmp' % os.getpid()
    json.dump(res, open(tmp, 'w'))
    os.rename(tmp, path)
    return res


# ---------------------------------------------------------------- templates
def arg_tree(spec, it):
    """spec: 'B' one symbolic byte atom | 'E' nil | 'W' two-byte atom | [l, r] pair | ('list', s1, s2..) proper list"""
    if spec == 'E':
        return nil_node()
    if spec == 'B':
        return atom_node([next(it)])
    if spec == 'W':
        return atom_node([next(it), next(it)])
    if isinstance(spec, tuple):
        return list_value([arg_tree(s, it) for s in spec[1:]])
    return pair_node(arg_tree(spec[0], it), arg_tree(spec[1], it))


def arg_bytes(spec):
    if spec == 'E':
        return 0
    if spec == 'B':
        return 1
    if spec == 'W':
        return 2
    if isinstance(spec, tuple):
        return sum(arg_bytes(s) for s in spec[1:])
    return arg_bytes(spec[0]) + arg_bytes(spec[1])


def arg_json(spec, it):
    if spec == 'E':
        return []
    if spec == 'B':
        return [next(it)]
    if spec == 'W':
        return [next(it), next(it)]
    if isinstance(spec, tuple):
        items = [arg_json(s, it) for s in spec[1:]]
        out = []
        for x in reversed(items):
            out = {'p': [x, out]}
        return out
    l = arg_json(spec[0], it)
    r = arg_json(spec[1], it)
    return {'p': [l, r]}


# Each template: (name, source with {S} for the dialect include, argument specs).  The argument value is the proper
# list of the per-parameter specs.  Names are chosen so that shadowing / capture situations occur.
TEMPLATES = [
    ('arith', '(mod (X Y) {S} (+ (* X 2) (- Y 1)))', [('list', 'B', 'B')]),
    ('defun_if', '(mod (X Y) {S} (defun F (A B) (if A (+ A B) (* B 2))) (F X Y))', [('list', 'B', 'B'), ('list', 'E', 'B')]),
    ('inline_let', '(mod (X Y) {S} (defun-inline G (A) (let ((Z (+ A 1))) (+ (* Z 3) Z))) (G (- X Y)))', [('list', 'B', 'B')]),
    ('let_shadow', '(mod (X Y) {S} (defun F (X Y) (let ((X (+ Y 1)) (Y X)) (list X Y))) (F X Y))', [('list', 'B', 'B')]),
    ('letstar_shadow', '(mod (X Y) {S} (defun F (X) (let* ((X (+ X 1)) (X (* X 2))) X)) (F Y))', [('list', 'B', 'B')]),
    ('inline_capture', '(mod (X Y) {S} (defun-inline G (A B) (let ((X (+ A B))) (c X A))) (let ((A Y)) (G A X)))', [('list', 'B', 'B')]),
    ('destructure', '(mod ((A B) . C) {S} (list C B A))', [[('list', 'B', 'B'), 'B'], [('list', 'B', 'B'), 'E']]),
    ('at_capture', '(mod (X (@ P (Q R))) {S} (defun F (U (@ V (W Z))) (list U V W Z)) (F X P))', [('list', 'B', ('list', 'B', 'B'))]),
    ('rest_args', '(mod (X Y) {S} (defun F (A . REST) (c A REST)) (defun G (Q) (F Q &rest (list 1 2))) (c (G X) (F Y 5 6)))', [('list', 'B', 'B')]),
    ('rest_tail_let', '(mod (X Y) {S} (defun F (A B C) (list A B C)) (defun G (X Y) (F X &rest (let ((X (+ Y 1))) (list Y X)))) (G X Y))', [('list', 'B', 'B')]),
    ('constant', '(mod (X) {S} (defconstant K 7) (defconstant T (5 (6 7) . 8)) (defun H (A) (c (+ A K) T)) (H X))', [('list', 'B')]),
    ('recursion', '(mod (L) {S} (defun sum (L) (if L (+ (f L) (sum (r L))) 0)) (sum L))', [('list', ('list', 'B', 'B', 'B')), ('list', 'E')]),
    ('nested_inline', '(mod (X Y) {S} (defun-inline A1 (P Q) (- P Q)) (defun-inline A2 (P) (A1 P (A1 P 1))) (defun B1 (Q) (A2 (* Q 5))) (B1 (+ X Y)))', [('list', 'B', 'B')]),
    ('if_lazy', '(mod (X Y) {S} (defun F (A B) (if A (f B) (r B))) (F X Y))', [('list', 'B', ['B', 'B']), ('list', 'E', ['B', 'B'])]),
    ('cmp_ops', '(mod (X Y) {S} (list (> X Y) (= X Y) (not X) (l Y)))', [('list', 'B', 'B'), ('list', 'B', ['B', 'E'])]),
]

TEMPLATES += [
    ('constant_atom', '(mod (X) {S} (defconstant K 7) (defun H (A) (+ A K)) (H X))', [('list', 'B')]),
    ('inline_nested_capture', '(mod (P) {S} (defun-inline F ((A (@ pt (X Y)))) (list A X Y pt)) (F P))', [('list', ('list', 'B', ('list', 'B', 'B')))]),
    ('rest_const_args', '(mod (X) {S} (defun F (A B . C) (c (- A B) C)) (F 3 5 &rest X))', [('list', ('list', 'B', 'B')), ('list', 'E')]),
    ('inline_destructure3', '(mod (X) {S} (defun-inline third ((A B C)) (c C A)) (third X))', [('list', ('list', 'B', 'B', 'B')), ('list', ('list', ['B', 'B'], 'B', 'B'))]),
    ('nested_mod', '(mod (X) {S} (defun F (A) (+ A 1)) (a (mod (Y) (* Y 2)) (list (F X))))', [('list', 'B')]),
    ('macro', '(mod (X Y) {S} (defmacro twice (A) (qq (+ (unquote A) (unquote A)))) (defun F (A) (twice (* A 3))) (F (- X Y)))', [('list', 'B', 'B')]),
]

TEMPLATES += [
    # a quoted atom spelled like a parameter
    ('quoted_param_name', '(mod (Y) {S} (defun F (X) (c (q . X) X)) (F Y))', [('list', 'B')]),
    # a constant that depends on another one only through a function it calls
    ('defconst_through_function', '(mod (X) {S} (defconst A 5) (defun add-a (N) (+ N A)) (defconst B (add-a 1)) (+ X B))', [('list', 'B')]),
    # two functions with identical bodies (identical tree hashes)
    ('twin_functions', '(mod (X) {S} (defun ff (A) (+ A 1)) (defun gg (A) (+ A 1)) (c (ff X) (gg X)))', [('list', 'B')]),
]

CL22_INLINE = ('inline_uses_defun',)     # cl22 emits the inline's parameter *name* when it is passed on to a function (known finding)
DIVERGING_23 = ()     # templates whose cl23+ compilation does not terminate (none on the current tree; F17 was one until it was fixed)

# shapes reported by the independent sub-agents as suspicious on the unmodified tree (see DESIGN.md §6/§7)
TEMPLATES += [
    ('main_if_uses_args', '(mod (X Y Z) {S} (if X 1 (- Y Z)))', [('list', 'B', 'B', 'B'), ('list', 'E', 'B', 'B')]),
    ('inline_rest_missing', '(mod (X) {S} (defun-inline F (A B C) (list A B C)) (F 1 &rest X))', [('list', ('list', 'B', 'B'))]),
    ('capture_let', '(mod (P) {S} (defun F ((@ pt (X Y))) (let ((Z (+ X 1))) (list Z Y pt))) (F P))', [('list', ('list', 'B', 'B'))]),
    ('guarded_common_subexpression', '(mod (C D E) {S} (if C (c (f (r (f (r E)))) 1) (if D (c (f (r (f (r E)))) 2) 7)))', [('list', 'E', 'E', 'B'), ('list', 'B', 'E', ('list', 'B', ('list', 'B', 'B')))]),
    ('quoted_code_shape', '(mod (X) {S} (defun F (X) (if 1 (q . ((2 (1 . 5) 1))) X)) (F X))', [('list', 'B')]),
    ('const_call_in_helper', '(mod (L) {S} (defun H (A B) (+ A B)) (defun G (L) (- L (H 1 2))) (G L))', [('list', 'B')]),
]

# a second batch, written to widen the family (function values, mutual recursion, nested lets, more operators)
TEMPLATES_MORE = [
    ('lambda_two_captures', '(mod (X Y L) {S} (defun M (F L) (if L (c (a F (list (f L))) (M F (r L))) ())) (M (lambda ((& X Y) Z) (+ (- Z X) Y)) L))', [('list', 'B', 'B', ('list', 'B', 'B'))]),
    ('nested_let', '(mod (X Y) {S} (defun F (A B) (let ((P (+ A 1))) (let ((Q (- P B)) (A 7)) (list P Q A B)))) (F X Y))', [('list', 'B', 'B')]),
    ('mutual_recursion', '(mod (L) {S} (defun evens (L) (if L (c (f L) (odds (r L))) ())) (defun odds (L) (if L (evens (r L)) ())) (evens L))', [('list', ('list', 'B', 'B', 'B'))]),
    ('function_as_value', '(mod (X) {S} (defun twice (F A) (a F (list (a F (list A))))) (defun inc (N) (+ N 1)) (twice inc X))', [('list', 'B')]),
    ('string_ops', '(mod (X) {S} (defun F (S) (concat S "ab" (substr S 0 1))) (c (strlen (F X)) (F X)))', [('list', 'W'), ('list', 'B')]),
    ('literals', '(mod (X) {S} (defun F (A) (+ A -1 0x00ff -128)) (c (F X) (q . (-1 0x00 "" 0 "x"))))', [('list', 'B')]),
    ('if_chain', '(mod (X Y) {S} (defun sgn (A) (if (> A 0) 1 (if (= A 0) 0 -1))) (list (sgn X) (sgn (- X Y))))', [('list', 'B', 'B')]),
    ('all_any_not', '(mod (X Y) {S} (list (all X Y) (any X Y) (not (all X)) (any)))', [('list', 'B', 'B'), ('list', 'E', 'B')]),
    ('constant_in_inline', '(mod (X) {S} (defconstant K 3) (defun-inline G (A) (* A K)) (defun F (B) (G (+ B K))) (F X))', [('list', 'B')]),
    ('rest_param_used', '(mod (X . R) {S} (defun F (A . B) (if B (c A (f B)) A)) (F X &rest R))', [['B', ('list', 'B')], ['B', 'E']]),
    ('constant_call_in_main', '(mod (X) {S} (defun pick (N L) (if N (pick (- N 1) (r L)) (f L))) (+ X (pick 2 (q . (10 20 30 40)))))', [('list', 'B')]),
    ('inline_uses_defun', '(mod (X Y) {S} (defun H (A) (+ A 1)) (defun-inline G (P Q) (c (H P) (H Q))) (G (H X) Y))', [('list', 'B', 'B')]),
]

TEMPLATES += TEMPLATES_MORE

TEMPLATES_23 = [
    ('defconst', '(mod (X) {S} (defconstant K 7) (defconst L (+ K 1)) (defun H (A) (+ A K L)) (H X))', [('list', 'B')]),
    ('assign', '(mod (X Y) {S} (defconstant K 7) (defun H (A) (assign B (+ A K) C (* B 2) (list A B C))) (H X))', [('list', 'B', 'B')]),
    ('assign_order', '(mod (X Y) {S} (defun H (A Q) (assign C (* B 2) B (+ A Q) (D . E) (c C B) (list A B C D E))) (H X Y))', [('list', 'B', 'B')]),
    ('lambda_map', '(mod (X L) {S} (defun M (F L) (if L (c (a F (list (f L))) (M F (r L))) ())) (M (lambda ((& X) Z) (+ X Z)) L))', [('list', 'B', ('list', 'B', 'B'))]),
    ('assign_shadow', '(mod (X Y) {S} (defun H (X Y) (assign Y (+ X 1) Z (let ((X Y)) (* X 2)) (list X Y Z))) (H X Y))', [('list', 'B', 'B')]),
]

SIGILS = {'cl21': '(include *standard-cl-21*)', 'cl22': '(include *standard-cl-22*)', 'cl23': '(include *standard-cl-23*)',
          'cl23.1': '(include *standard-cl-23.1*)', 'cl24': '(include *standard-cl-24*)', 'classic': ''}


class CompileRun(Harness):
    name = 'compile_run'
    prop = 'C01'
    kernel = 'compile_text'
    with_clvmr = True
    functions = ['clvmc::compile_clvm_text_maybe_opt', 'detect_modern', 'compiler::compile_file', 'preprocess (Preprocessor::run, process_pp_form, macros)',
                 'frontend (compile_helperform, compile_bodyform, rename_*, calculate_live_helpers)', 'codegen (do_mod_codegen, codegen, generate_expr_code, process_macro_call, replace_in_inline, hoist_body_let_binding, lambda codegen)',
                 'optimize (get_optimizer, Strategy23, cse, deinline, brief, above22), classic optimize_sexp via maybe_finalize_program_via_classic_optimizer',
                 'compiler::clvm::run (stepping evaluator, for macros and constants)', 'clvmr run_program (MIR) for the emitted program and for the reference\'s primitive operators']
    assumptions = ['the program text is one of the stated templates under the stated dialect sigil and optimise flag (concrete); the arguments are symbolic: every atom leaf of the stated argument shape ranges over all byte values',
                   'the reference evaluator (harness/pipeline.py::RefEval) defines call-by-value meaning of mod/defun/defun-inline/defconstant/let/let*/assign/lambda/if/list/quote/&rest/destructuring/@ captures; primitive operators are clvmr\'s',
                   'the MIR execution of the compiler is cross-checked against the native build: the emitted CLVM must be identical for every template (otherwise no verdict)',
                   'where the reference evaluation fails (raise, f of an atom ...) nothing is required of the compiled program']
    outside = 'programs other than the templates; macros defined by the program; include files other than dialect sigils; argument atoms longer than the stated shapes'
    loop_bound = 4000
    max_paths = 20000
    OPTIONS = {'quick': [('cl21', False), ('cl23', False)], 'thorough': [('cl21', False), ('cl21', True), ('cl22', False), ('cl23', False), ('cl24', False)]}
    classes = {'cl22_inline_passes_parameter_to_function': lambda case, inp: z3.BoolVal(case['t'] in CL22_INLINE and case.get('sigil') == 'cl22')}

    QUICK_23 = ('defun_if', 'inline_let', 'rest_tail_let', 'let_shadow', 'lambda_map', 'assign_shadow', 'rest_const_args', 'const_call_in_helper')

    def templates(self, tier):
        for name, src, specs in TEMPLATES:
            for opt in self.OPTIONS[tier]:
                if name in DIVERGING_23 and opt[0] in ('cl23', 'cl23.1', 'cl24'):
                    continue          # exhibited once, under C02 builds_agree (known finding)
                if tier == 'quick' and opt[0] != 'cl21' and name not in self.QUICK_23:
                    continue          # the cl23 pipeline (CSE, de-inlining, strategy optimiser) costs minutes per program
                yield name, src, specs, opt
        for name, src, specs in TEMPLATES_23:
            for opt in self.OPTIONS[tier]:
                if opt[0] in ('cl23', 'cl23.1', 'cl24') and (tier != 'quick' or name in self.QUICK_23):
                    yield name, src, specs, opt

    def cases(self, tier):
        for name, src, specs, (sig, optimize) in self.templates(tier):
            for k in range(len(specs)):
                yield dict(t=name, sigil=sig, opt=optimize, spec=k)

    def native_checks(self, case):
        """phase-1 artefacts of this case that are compared with the native build (for the evidence count)"""
        if 'sigil' in case and 't' in case:
            return [('compile', case['t'], case['sigil'], bool(case.get('opt')))]
        return []

    def template(self, case):
        for name, src, specs in TEMPLATES + TEMPLATES_23:
            if name == case['t']:
                return src.replace('{S}', SIGILS[case['sigil']]), specs[case['spec']]
        raise KeyError(case['t'])

    def sym_inputs(self, case):
        src, spec = self.template(case)
        return dict(b=sym_bytes('a', arg_bytes(spec)))

    def conc_inputs(self, case, j):
        return dict(b=conc_bytes(j['b']))

    def inputs_json(self, case, inp, model):
        return dict(b=[ev(model, x.e) for x in inp['b']])

    def run(self, eng, case, inp):
        src, spec = self.template(case)
        cp = compiled_program(src, case['opt'])
        for k, v in cp.get('functions', {}).items():
            eng.encoded.setdefault(k, v)
        if cp['end'] not in ('ok', 'err'):
            raise Unsupported('compilation under mirsym ended as %s: %s' % (cp['end'], cp.get('msg', '')))
        if not cp['agrees']:
            raise Unsupported('mirsym compilation output differs from the native build: mirsym=%s native=%s %s'
                              % (json.dumps(cp['compiled'])[:300], json.dumps(cp['native_compiled'])[:300], cp.get('native_err')))
        if cp['compiled'] is None:
            return dict(compile_err=True)
        eng.env['tls'] = tls(True)
        alloc = Ref(Cell(Struct('Allocator', [])))
        dialect = Ref(Cell(Struct('ChiaDialect', [mkint(0x0102, 'u32')])))
        args = arg_tree(spec, iter(inp['b']))
        prog = tree_from_json(cp['compiled'])
        ref = RefEval(eng, alloc, dialect)
        form = read_forms(src)[0]
        try:
            want = ref.run_mod(form, args)
        except RefFail as e:
            return dict(ref_fail=str(e))
        except RefOutside as e:
            raise Unsupported('reference evaluator: %s' % e)
        got = eng.call('run_program::run_program', [alloc, dialect, prog, args, mkint(0, 'u64')])
        return dict(want=want, got=got)

    def obligations(self, eng, case, inp, out):
        if out.get('compile_err'):
            return [('template_compiles', z3.BoolVal(False))]
        if 'ref_fail' in out:
            return []
        g = out['got']
        if g.variant != 'Ok':
            return [('compiled_program_returns_a_value', z3.BoolVal(False))]
        return [('compiled_value_is_the_source_value', tree_eq(g.fields[0].fields[1], out['want']))]

    def output_json(self, eng, case, inp, out, model):
        if out.get('compile_err'):
            return dict(compile_err=True)
        if 'ref_fail' in out:
            return dict(ref_fail=out['ref_fail'])
        g = out['got']
        return dict(want=tree_to_json(model, out['want'], ev),
                    got=tree_to_json(model, g.fields[0].fields[1], ev) if g.variant == 'Ok' else None)

    def native_inputs_pred(self, case, j, predicted):
        src, spec = self.template(case)
        d = dict(source=src, optimize=case['opt'], args=arg_json(spec, iter(j['b'])))
        if isinstance(predicted, dict) and 'want' in predicted:
            d['expect'] = predicted['want']
        return d

    def native_inputs(self, case, j):
        return self.native_inputs_pred(case, j, None)

    def native_matches(self, case, j, native, predicted):
        if not isinstance(predicted, dict) or 'want' not in predicted:
            return True
        r = native.get('result', {})
        return (r.get('ok') if 'ok' in r else None) == predicted.get('got')

    def is_violation(self, case, j, native):
        return native.get('matches_expect') is False

    def oracle(self, case, j):
        return 'call-by-value evaluation of the source text by harness/pipeline.py::RefEval (operators by clvmr)'

    def witness_classes(self, case, inp, out):
        return [('value', z3.BoolVal('want' in out)), ('source_fails', z3.BoolVal('ref_fail' in out))]

    def required_witnesses(self, tier):
        return ['value']


class BuildsAgree(CompileRun):
    """C02: two builds of one program that differ only in optimisation / dialect level, run on the same symbolic
    arguments: when both return a value the values are identical, and each returns the source's value when there is one"""
    name = 'builds_agree'
    prop = 'C02'
    PAIRS = {'quick': [(('cl21', False), ('cl21', True)), (('cl21', False), ('cl22', False)), (('cl21', False), ('cl23', False))],
             'thorough': [(('cl21', False), ('cl21', True)), (('cl21', False), ('cl22', False)), (('cl21', False), ('cl23', False)),
                          (('cl22', False), ('cl22', True)), (('cl23', False), ('cl23', True)), (('cl23', False), ('cl24', False)),
                          (('cl23', False), ('cl23.1', False))]}
    QUICK_O = ('arith', 'defun_if', 'inline_let', 'destructure', 'at_capture', 'rest_args', 'recursion', 'nested_inline', 'if_lazy', 'constant',
               'macro', 'nested_mod', 'lambda_two_captures', 'string_ops')
    assumptions = CompileRun.assumptions + ['the two builds are compiled from the same template text with only the dialect sigil / optimise flag changed']

    def cases(self, tier):
        for name, src, specs in TEMPLATES:
            for a, b in self.PAIRS[tier]:
                if name in DIVERGING_23:
                    if (a, b) != (('cl21', False), ('cl23', False)):
                        continue           # one pair is enough to exhibit the known finding; each attempt costs minutes
                elif tier == 'quick' and 'cl23' in (a[0], b[0]) and name not in self.QUICK_23:
                    continue
                elif tier == 'quick' and b == ('cl21', True) and name not in self.QUICK_O:
                    continue           # the -O post-pass is the classic optimiser, decided in depth under C04
                for k in range(len(specs)):
                    yield dict(t=name, a=list(a), b=list(b), spec=k)

    def template2(self, case, which):
        sig, optimize = case[which]
        for name, src, specs in TEMPLATES + TEMPLATES_23:
            if name == case['t']:
                return src.replace('{S}', SIGILS[sig]), bool(optimize), specs[case['spec']]
        raise KeyError(case['t'])

    def native_checks(self, case):
        return [('compile', case['t'], case[w][0], bool(case[w][1])) for w in ('a', 'b')]

    def template(self, case):
        src, _, spec = self.template2(case, 'a')
        return src, spec

    def run(self, eng, case, inp):
        progs = []
        for which in ('a', 'b'):
            src, optimize, spec = self.template2(case, which)
            cp = compiled_program(src, optimize)
            for k, v in cp.get('functions', {}).items():
                eng.encoded.setdefault(k, v)
            if cp['end'] == 'diverges':
                progs.append(None)
                continue
            if cp['end'] not in ('ok', 'err'):
                raise Unsupported('compilation under mirsym ended as %s: %s' % (cp['end'], cp.get('msg', '')))
            if not cp['agrees']:
                raise Unsupported('mirsym compilation output differs from the native build for %s' % json.dumps(case[which]))
            progs.append(cp['compiled'])
        if progs[0] is None:
            return dict(compile_err='a')
        if progs[1] is None:
            return dict(compile_err='b')
        eng.env['tls'] = tls(True)
        alloc = Ref(Cell(Struct('Allocator', [])))
        dialect = Ref(Cell(Struct('ChiaDialect', [mkint(0x0102, 'u32')])))
        src, _, spec = self.template2(case, 'a')
        args = arg_tree(spec, iter(inp['b']))
        out = dict(res=[])
        try:
            out['want'] = RefEval(eng, alloc, dialect).run_mod(read_forms(src)[0], args)
        except RefFail as e:
            out['ref_fail'] = str(e)
        except RefOutside as e:
            raise Unsupported('reference evaluator: %s' % e)
        for p in progs:
            out['res'].append(eng.call('run_program::run_program', [alloc, dialect, tree_from_json(p), args, mkint(0, 'u64')]))
        return out

    def obligations(self, eng, case, inp, out):
        if out.get('compile_err') == 'a':
            return [('template_compiles', z3.BoolVal(False))]
        if out.get('compile_err') == 'b':
            return [('switching_optimisation_on_never_breaks_compilation', z3.BoolVal(False))]
        ra, rb = out['res']
        obs = []
        if ra.variant == 'Ok' and rb.variant == 'Ok':
            obs.append(('both_builds_return_the_same_value', tree_eq(ra.fields[0].fields[1], rb.fields[0].fields[1])))
        if 'want' in out:
            for nm, r in (('a', ra), ('b', rb)):
                if r.variant != 'Ok':
                    obs.append(('build_%s_returns_a_value' % nm, z3.BoolVal(False)))
                else:
                    obs.append(('build_%s_returns_the_source_value' % nm, tree_eq(r.fields[0].fields[1], out['want'])))
        return obs

    def output_json(self, eng, case, inp, out, model):
        if out.get('compile_err'):
            return dict(compile_err=out['compile_err'])
        d = dict(res=[tree_to_json(model, r.fields[0].fields[1], ev) if r.variant == 'Ok' else None for r in out['res']])
        if 'want' in out:
            d['want'] = tree_to_json(model, out['want'], ev)
        return d

    def native_inputs_pred(self, case, j, predicted):
        srca, opta, spec = self.template2(case, 'a')
        srcb, optb, _ = self.template2(case, 'b')
        d = dict(source=srca, optimize=opta, source_b=srcb, optimize_b=optb, args=arg_json(spec, iter(j['b'])))
        if isinstance(predicted, dict) and 'want' in predicted:
            d['expect'] = predicted['want']
        return d

    def native_matches(self, case, j, native, predicted):
        if not isinstance(predicted, dict) or 'res' not in predicted:
            return True
        got = [native.get('result', {}).get('ok'), native.get('result_b', {}).get('ok')]
        return got == predicted['res']

    classes = {'cl22_inline_passes_parameter_to_function': lambda case, inp: z3.BoolVal(case['t'] in CL22_INLINE and 'cl22' in (case['a'][0], case['b'][0]))}

    def run_native(self, items):
        return [native_compile_text(it['inputs']) for it in items]

    def is_violation(self, case, j, native):
        if native.get('crash'):
            return True
        ra, rb = native.get('result', {}), native.get('result_b', {})
        if 'ok' in ra and 'ok' in rb and ra['ok'] != rb['ok']:
            return True
        return native.get('matches_expect') is False or native.get('matches_expect_b') is False

    def oracle(self, case, j):
        return 'the other build of the same source, and call-by-value evaluation of the source text (RefEval)'


class ClassicBuilds(BuildsAgree):
    """C03: the classic compiler's build (no dialect sigil) of programs in the subset both compilers accept, against
    call-by-value evaluation of the source and against the modern cl21 build of the same text"""
    name = 'classic_builds'
    prop = 'C03'
    CLASSIC_OK = ('arith', 'defun_if', 'destructure', 'constant_atom', 'recursion', 'nested_inline', 'if_lazy', 'cmp_ops', 'macro', 'inline_destructure3',
                  'mutual_recursion', 'if_chain', 'inline_uses_defun', 'string_ops')
    PAIRS = {'quick': [(('classic', False), ('cl21', False))], 'thorough': [(('classic', False), ('cl21', False)), (('classic', False), ('cl21', True))]}
    functions = ['clvmc::compile_clvm_text_maybe_opt (classic branch)', 'stage_2::operators::run_program_for_search_paths / CompilerOperators::{op, run_program}',
                 'stage_2::compile::{do_com_prog, compile_qq, compile_macros, compile_symbols, try_expand_macro_for_atom, compile_application, ...}',
                 'stage_2::module::{compile_mod, build_tree, symbol_table_for_tree, build_macro_lookup_program, ...}', 'stage_2::optimize::optimize_sexp',
                 'stage_2::inline', 'stage_2::reader', 'clvmr run_program (MIR), which interprets the classic compiler\'s own CLVM stages and macros'] + CompileRun.functions[:1]
    outside = 'programs other than the templates; include files; argument atoms longer than the stated shapes'

    def cases(self, tier):
        for name, src, specs in TEMPLATES + TEMPLATES_CLASSIC:
            if name not in self.CLASSIC_OK:
                continue
            for a, b in self.PAIRS[tier]:
                for k in range(len(specs)):
                    yield dict(t=name, a=list(a), b=list(b), spec=k)

    def template2(self, case, which):
        sig, optimize = case[which]
        for name, src, specs in TEMPLATES + TEMPLATES_23 + TEMPLATES_CLASSIC:
            if name == case['t']:
                return src.replace('{S}', SIGILS[sig]), bool(optimize), specs[case['spec']]
        raise KeyError(case['t'])


TEMPLATES_CLASSIC = []


# ---------------------------------------------------------------- C13: symbol tables
def sha256tree_json(t, memo=None):
    if isinstance(t, dict):
        return hashlib.sha256(b'\x02' + sha256tree_json(t['p'][0]) + sha256tree_json(t['p'][1])).digest()
    return hashlib.sha256(b'\x01' + bytes(t)).digest()


def subtrees(t, out=None):
    if out is None:
        out = {}
    out.setdefault(sha256tree_json(t).hex(), t)
    if isinstance(t, dict):
        subtrees(t['p'][0], out)
        subtrees(t['p'][1], out)
    return out


def form_text(f):
    """print a parameter list the way the compiler records it"""
    if f.k == 'nil':
        return '()'
    if f.k == 'sym':
        return f.a.decode()
    if f.k == 'int':
        return str(f.a)
    if f.k == 'str':
        return '"%s"' % f.a.decode('latin1')
    items, tail = f_items(f)
    s = ' '.join(form_text(x) for x in items)
    if tail.k != 'nil':
        s += ' . ' + form_text(tail)
    return '(' + s + ')'


def spec_from_params(p, top=True):
    """an argument shape for a parameter pattern: one symbolic byte per name, a short list for a rest parameter"""
    if p.k == 'nil':
        return 'E'
    if p.k == 'sym':
        return 'B'
    items, tail = f_items(p)
    if items and items[0].k == 'sym' and items[0].a == b'@' and len(items) == 3:
        return spec_from_params(items[2], False)
    l = spec_from_params(p.a, False)
    if p.b.k == 'sym':
        r = ('list', 'B')
    else:
        r = spec_from_params(p.b, False)
    return [l, r]


def applies_parameter(params, body):
    """does the body apply one of the parameters as a function, (a PARAM ...)?  Such a function cannot be exercised on
    plain symbolic data"""
    names = pattern_names(params)

    def go(f):
        if f.k != 'cons':
            return False
        items, _ = f_items(f)
        if len(items) == 3 and items[0].k == 'sym' and items[0].a == b'a' and items[1].k == 'sym' and items[1].a in names:
            return True
        return go(f.a) or go(f.b)
    return go(body)


class SymbolsDescribe(CompileRun):
    """C13: every symbol-table entry whose key is the tree hash of code in the emitted program names the function that
    code implements: the extracted code, run on symbolic arguments in the program's own constant environment, returns
    what calling that function in the source returns; its recorded argument list is the function's; in the unoptimised
    build every non-inline function has such an entry."""
    name = 'symbols_describe'
    prop = 'C13'
    OPTIONS = {'quick': [('cl21', False)], 'thorough': [('cl21', False), ('cl21', True), ('cl22', False), ('cl23', False)]}
    assumptions = CompileRun.assumptions + ['the symbol table produced under mirsym is identical to the native build\'s (cross-checked)',
                                            'functions are extracted from the emitted program by tree hash; the constant environment is the one the emitted program builds, (a (q . MAIN) (c (q . ENV) 1))']

    def functions_of(self, src):
        form = read_forms(src)[0]
        items, _ = f_items(form)
        out = []
        for h in items[2:-1]:
            hi, _ = f_items(h)
            if hi[0].a in (b'defun', b'defun-inline'):
                out.append((hi[1].a.decode(), hi[0].a == b'defun-inline', hi[2], hi[3]))
        return form, out

    # two functions with identical code share one tree hash, hence one entry: "an entry for every function" cannot be
    # asked of them by name (the template stays in the C05 family, where it belongs)
    SKIP = ('twin_functions',)

    def cases(self, tier):
        for name, src, specs, (sig, optimize) in self.templates(tier):
            if name in self.SKIP:
                continue
            text = src.replace('{S}', SIGILS[sig])
            for fname, inline, params, body in self.functions_of(text)[1]:
                if not inline and not applies_parameter(params, body):
                    yield dict(t=name, sigil=sig, opt=optimize, fn=fname)

    def fn_info(self, case):
        for name, src, specs in TEMPLATES + TEMPLATES_23:
            if name == case['t']:
                text = src.replace('{S}', SIGILS[case['sigil']])
                form, fns = self.functions_of(text)
                for fname, inline, params, body in fns:
                    if fname == case['fn']:
                        return text, form, params, body
        raise KeyError(case)

    def sym_inputs(self, case):
        text, form, params, body = self.fn_info(case)
        return dict(b=sym_bytes('a', arg_bytes(spec_from_params(params))))

    def run(self, eng, case, inp):
        text, form, params, body = self.fn_info(case)
        cp = compiled_program(text, case['opt'])
        for k, v in cp.get('functions', {}).items():
            eng.encoded.setdefault(k, v)
        if cp['end'] != 'ok' or not cp['agrees'] or not cp.get('symbols_agree'):
            raise Unsupported('compilation under mirsym: end=%s agrees=%s symbols_agree=%s %s' % (cp['end'], cp.get('agrees'), cp.get('symbols_agree'), cp.get('symbols_error', '')))
        prog = cp['compiled']
        subs = subtrees(prog)
        syms = dict((k, v) for k, v in cp['symbols'])
        entries = [(k, v) for k, v in syms.items() if len(k) == 64 and k in subs]
        mine = [(k, v) for k, v in entries if v == case['fn']]
        out = dict(entries=entries, mine=mine, optimised=bool(case['opt']) or case['sigil'] not in ('cl21',), args_text=None)
        if not mine:
            return out
        key = mine[0][0]
        out['args_text'] = syms.get(key + '_arguments')
        out['want_args_text'] = form_text(params)
        # the program's constant environment
        try:
            left = prog['p'][1]['p'][1]['p'][0]['p'][1]['p'][0]['p'][1]
        except (KeyError, TypeError, IndexError):
            raise Unsupported('emitted program is not of the form (a (q . MAIN) (c (q . ENV) 1))')
        eng.env['tls'] = tls(True)
        alloc = Ref(Cell(Struct('Allocator', [])))
        dialect = Ref(Cell(Struct('ChiaDialect', [mkint(0x0102, 'u32')])))
        args = arg_tree(spec_from_params(params), iter(inp['b']))
        ref = RefEval(eng, alloc, dialect)
        ref.load_helpers(form)
        try:
            out['want'] = ref.call(params, body, args, {})
        except RefFail as e:
            out['ref_fail'] = str(e)
            return out
        except RefOutside as e:
            raise Unsupported('reference evaluator: %s' % e)
        env = pair_node(tree_from_json(left), args)
        out['got'] = eng.call('run_program::run_program', [alloc, dialect, tree_from_json(subs[key]), env, mkint(0, 'u64')])
        return out

    def obligations(self, eng, case, inp, out):
        obs = []
        names = set(n for n, _, _, _ in self.functions_of(self.fn_info(case)[0])[1])
        for k, v in out['entries']:
            # functions the compiler itself introduces (desugared let / assign bodies, lambdas) carry generated names of
            # the form <stem>_$_<n>: such an entry names that generated function, which is what the code implements
            synthetic = re.search(r'_\$_\d+$', v) is not None
            obs.append(('entry_names_a_function_of_the_source', z3.BoolVal(v in names or synthetic)))
        if not out['mine']:
            if not out['optimised']:
                obs.append(('unoptimised_build_has_an_entry_for_every_function', z3.BoolVal(False)))
            return obs
        obs.append(('recorded_argument_list_is_the_functions', z3.BoolVal(out['args_text'] == out['want_args_text'])))
        if 'want' in out:
            g = out['got']
            if g.variant != 'Ok':
                obs.append(('extracted_code_returns_a_value', z3.BoolVal(False)))
            else:
                obs.append(('extracted_code_computes_the_named_function', tree_eq(g.fields[0].fields[1], out['want'])))
        return obs

    def output_json(self, eng, case, inp, out, model):
        d = dict(entries=out['entries'], mine=out['mine'], args_text=out.get('args_text'))
        if 'want' in out:
            d['want'] = tree_to_json(model, out['want'], ev)
            g = out['got']
            d['got'] = tree_to_json(model, g.fields[0].fields[1], ev) if g.variant == 'Ok' else None
        return d

    def native_inputs_pred(self, case, j, predicted):
        text, form, params, body = self.fn_info(case)
        d = dict(source=text, optimize=case['opt'], fn=case['fn'], fn_args=arg_json(spec_from_params(params), iter(j['b'])),
                 fn_args_text=form_text(params))
        if isinstance(predicted, dict) and 'want' in predicted:
            d['expect'] = predicted['want']
        return d

    def native_matches(self, case, j, native, predicted):
        if not isinstance(predicted, dict) or 'want' not in predicted:
            return True
        return native.get('fn_result', {}).get('ok') == predicted.get('got')

    def is_violation(self, case, j, native):
        return native.get('fn_matches_expect') is False or native.get('fn_entry') is False or native.get('fn_args_ok') is False

    def oracle(self, case, j):
        return 'calling the named function in the source (RefEval) on the same arguments; the function\'s parameter list'

    def witness_classes(self, case, inp, out):
        return [('value', z3.BoolVal('want' in out)), ('source_fails', z3.BoolVal('ref_fail' in out))]


# ---------------------------------------------------------------- C17: the unused-argument check
UNUSED_TEMPLATES = [
    ('plain', '(mod (u v w) {S} (+ u w))', ['u', 'v', 'w']),
    ('dropped_by_function', '(mod (u v) {S} (defun F (x y) (* x 2)) (F u v))', ['u', 'v']),
    ('both_used', '(mod (u v) {S} (if u v 1))', ['u', 'v']),
    ('shadowed', '(mod (u v) {S} (let ((v 5)) (+ u v)))', ['u', 'v']),
    ('dropped_by_inline', '(mod (u v w) {S} (defun-inline G (p q) (c p ())) (G u (+ v w)))', ['u', 'v', 'w']),
    ('dead_branch', '(mod (u v) {S} (defun F (x y) (if 1 x y)) (F u v))', ['u', 'v']),
    ('used_in_condition', '(mod (u v w) {S} (if v u u))', ['u', 'v', 'w']),
    ('used_through_list', '(mod (u v w) {S} (defun H (z) (f (r z))) (H (list u v)))', ['u', 'v', 'w']),
    ('destructured', '(mod ((u v) w) {S} (+ u w))', ['u', 'v', 'w']),
    # the partial evaluator gives up (stack budget) on this one: the check then reports an error, which is not a report
    # of unused parameters
    ('evaluator_gives_up', '(mod (u v) {S} (defun rep (N X) (if N (rep (- N 1) X) X)) (rep 25 u))', ['u', 'v']),
    # a parameter spelled like an operator and used in operator position: the compiler calls the parameter, the check
    # reads the operator (known finding, see DESIGN.md)
    ('operator_named', '(mod (a b c) {S} (defun-inline G (p q) (c p ())) (G a (+ b c)))', ['a', 'b', 'c']),
]


def unused_from_mir(source):
    from mirsym import driver
    fs, key, roots = driver.funcs(True)
    eng = Engine(fs, roots, bigw=264, loop_bound=200000, query_timeout_ms=20000)
    eng.max_depth = 20000          # the partial evaluator has its own stack budget (EVAL_STACK_LIMIT); let it be the one that ends the run

    def run(e):
        e.env['tls'] = tls(True)
        e.env['exact_fmt'] = True
        name = slice_of(conc_bytes(list(b'*t*')))
        opts = e.call('DefaultCompilerOpts::new', [name])
        return e.call('clvm_tools::debug::check_unused', [Cell(opts, 'rc'), slice_of(conc_bytes(list(source.encode())))])
    t0 = time.time()
    outs = list(eng.explore(run, max_paths=2))
    res = dict(wall_s=round(time.time() - t0, 1), functions=dict(eng.encoded))
    if len(outs) != 1 or outs[0][0] != 'done':
        res.update(end=outs[0][0] if outs else 'none', msg=str(outs[0][2])[:800] if outs else '', unused=None)
        return res
    out = outs[0][2]
    if out.variant != 'Ok':
        res.update(end='ok', unused=[], errored=True)          # the check itself failed: nothing is reported unused
        return res
    text = bytes_of_items(out.fields[0].fields[1]).decode('latin1')
    res.update(end='ok', unused=sorted(l[3:] for l in text.split('\n') if l.startswith(' - ')), text=text)
    return res


def unused_report(source):
    from mirsym import driver
    fs, key, roots = driver.funcs(True)
    top = os.path.join(ROOT, '.cache', 'compiled')
    d = os.path.join(top, '%s-%s' % (key[:12], engine_key()))
    os.makedirs(d, exist_ok=True)
    path = os.path.join(d, 'unused-' + hashlib.sha256(source.encode()).hexdigest()[:24] + '.json')
    if os.path.exists(path):
        try:
            return json.load(open(path))
        except Exception:
            pass
    res = unused_from_mir(source)
    nat = driver.NATIVE.run('check_unused', [dict(case={}, inputs=dict(source=source))])[0]
    res['native_unused'] = nat.get('unused') if 'unused' in nat else ([] if 'err' in nat else None)
    res['agrees'] = res.get('unused') is not None and res['unused'] == res['native_unused'] and bool(res.get('errored')) == ('err' in nat)
    res['source'] = source
    tmp = path + '.%d.tmp' % os.getpid()
    json.dump(res, open(tmp, 'w'))
    os.rename(tmp, path)
    return res


class UnusedReallyUnused(CompileRun):
    """C17: a parameter the unused-argument check reports cannot influence the compiled program: two runs whose arguments
    differ only in that parameter (in value and in shape) both fail or both return the identical value"""
    name = 'unused_really_unused'
    prop = 'C17'
    functions = ['clvm_tools::debug::check_unused', 'frontend', 'usecheck::check_parameters_used_compileform', 'Evaluator::{new, mash_conditions, shrink_bodyform, ...}',
                 'clvmc::compile_clvm_text_maybe_opt (for the program that is run)', 'clvmr run_program (MIR)']
    assumptions = ['the program text is one of the stated templates (concrete); the check\'s report computed under mirsym must equal the native build\'s report',
                   'for every reported parameter: all other parameters share one symbolic byte each between the two runs, the reported parameter gets independent values of the shapes atom/atom, nil/atom, atom/pair']
    outside = 'programs other than the templates; parameters with upper-case names (not checked by the tool)'
    SHAPES = [('B', 'B'), ('E', 'B'), ('B', ['B', 'B'])]
    classes = {'parameter_shadows_operator': lambda case, inp: z3.BoolVal(case['t'] == 'operator_named')}

    def cases(self, tier):
        for name, src, params in UNUSED_TEMPLATES:
            for p in params:
                for k in range(len(self.SHAPES)):
                    yield dict(t=name, p=p, shape=k)

    def native_checks(self, case):
        return [('unused-report', case['t']), ('compile', 'unused:' + case['t'], 'cl21', False)]

    def tmpl(self, case):
        for name, src, params in UNUSED_TEMPLATES:
            if name == case['t']:
                return src.replace('{S}', SIGILS['cl21']), params
        raise KeyError(case['t'])

    def layout(self, case):
        """-> (mod parameter form, per-name spec for run 1, for run 2)"""
        src, params = self.tmpl(case)
        form = read_forms(src)[0]
        pform = f_items(form)[0][1]
        s1 = {n: 'B' for n in params}
        s2 = dict(s1)
        s1[case['p']], s2[case['p']] = self.SHAPES[case['shape']]
        return pform, params, s1, s2

    def sym_inputs(self, case):
        pform, params, s1, s2 = self.layout(case)
        return dict(shared=sym_bytes('s', len(params)), p1=sym_bytes('p', arg_bytes(s1[case['p']])), p2=sym_bytes('q', arg_bytes(s2[case['p']])))

    def conc_inputs(self, case, j):
        return dict(shared=conc_bytes(j['shared']), p1=conc_bytes(j['p1']), p2=conc_bytes(j['p2']))

    def inputs_json(self, case, inp, model):
        return dict(shared=[ev(model, x.e) for x in inp['shared']], p1=[ev(model, x.e) for x in inp['p1']], p2=[ev(model, x.e) for x in inp['p2']])

    def build_args(self, case, shared, pvals, spec, as_json=False):
        pform, params, s1, s2 = self.layout(case)

        def go(f):
            if f.k == 'nil':
                return [] if as_json else nil_node()
            if f.k == 'sym':
                nm = f.a.decode()
                if nm == case['p']:
                    return arg_json(spec, iter(pvals)) if as_json else arg_tree(spec, iter(pvals))
                b = shared[params.index(nm)]
                return [b] if as_json else atom_node([b])
            l, r = go(f.a), go(f.b)
            return {'p': [l, r]} if as_json else pair_node(l, r)
        return go(pform)

    def run(self, eng, case, inp):
        src, params = self.tmpl(case)
        rep = unused_report(src)
        for k, v in rep.get('functions', {}).items():
            eng.encoded.setdefault(k, v)
        if rep['end'] != 'ok' or not rep['agrees']:
            raise Unsupported('check_unused under mirsym: end=%s mirsym=%s native=%s %s' % (rep['end'], rep.get('unused'), rep.get('native_unused'), rep.get('msg', '')))
        if case['p'] not in rep['unused']:
            return dict(reported=False)
        cp = compiled_program(src, False)
        if cp['end'] != 'ok' or not cp['agrees']:
            raise Unsupported('compilation under mirsym: %s' % cp['end'])
        eng.env['tls'] = tls(True)
        alloc = Ref(Cell(Struct('Allocator', [])))
        dialect = Ref(Cell(Struct('ChiaDialect', [mkint(0x0102, 'u32')])))
        pform, params_, s1, s2 = self.layout(case)
        a1 = self.build_args(case, inp['shared'], inp['p1'], s1[case['p']])
        a2 = self.build_args(case, inp['shared'], inp['p2'], s2[case['p']])
        prog = tree_from_json(cp['compiled'])
        r1 = eng.call('run_program::run_program', [alloc, dialect, prog, a1, mkint(0, 'u64')])
        r2 = eng.call('run_program::run_program', [alloc, dialect, prog, a2, mkint(0, 'u64')])
        return dict(reported=True, r1=r1, r2=r2)

    def obligations(self, eng, case, inp, out):
        if not out['reported']:
            return []
        r1, r2 = out['r1'], out['r2']
        if (r1.variant == 'Ok') != (r2.variant == 'Ok'):
            return [('both_runs_fail_or_both_return', z3.BoolVal(False))]
        if r1.variant != 'Ok':
            return [('both_runs_fail_or_both_return', z3.BoolVal(True))]
        return [('both_runs_return_the_same_value', tree_eq(r1.fields[0].fields[1], r2.fields[0].fields[1]))]

    def output_json(self, eng, case, inp, out, model):
        if not out['reported']:
            return dict(reported=False)
        return dict(reported=True, res=[tree_to_json(model, r.fields[0].fields[1], ev) if r.variant == 'Ok' else None for r in (out['r1'], out['r2'])])

    def native_inputs_pred(self, case, j, predicted):
        src, params = self.tmpl(case)
        pform, params_, s1, s2 = self.layout(case)
        return dict(source=src, optimize=False, args=self.build_args(case, j['shared'], j['p1'], s1[case['p']], True),
                    args_b=self.build_args(case, j['shared'], j['p2'], s2[case['p']], True), param=case['p'])

    def native_inputs(self, case, j):
        return self.native_inputs_pred(case, j, None)

    def native_matches(self, case, j, native, predicted):
        if not isinstance(predicted, dict) or not predicted.get('reported'):
            return True
        got = [native.get('result', {}).get('ok'), native.get('result_args_b', {}).get('ok')]
        return got == predicted['res']

    def is_violation(self, case, j, native):
        if not native.get('param_reported_unused'):
            return False
        return native.get('result') != native.get('result_args_b')

    def oracle(self, case, j):
        return 'the same compiled program on arguments that differ only in the reported parameter'

    def witness_classes(self, case, inp, out):
        return [('reported', z3.BoolVal(out['reported'])), ('not_reported', z3.BoolVal(not out['reported']))]

    def required_witnesses(self, tier):
        return ['reported', 'not_reported']


# ---------------------------------------------------------------- C05: output independent of hash order and of earlier work
class OutputIndependent(CompileRun):
    """C05 (whole compilations): the emitted CLVM and symbol table do not depend on the order in which HashMap/HashSet
    iterate (the process's hash seeds), on the value of the fresh-name counter left by earlier compilations, or on an
    earlier failed compilation in the same process"""
    name = 'output_independent'
    prop = 'C05'
    kernel = 'compile_text'
    TEMPLATES_USED = {'quick': ('inline_let', 'rest_tail_let', 'constant', 'macro', 'quoted_param_name', 'defconst_through_function', 'twin_functions'),
                      'thorough': ('inline_let', 'rest_tail_let', 'constant', 'macro', 'quoted_param_name', 'defconst_through_function', 'twin_functions',
                                   'at_capture', 'nested_inline', 'recursion', 'let_shadow')}
    CLASSIC_TOO = ('defconst_through_function', 'twin_functions', 'constant_atom')
    POLICIES = ('insertion', 'reversed', 'rotated')
    COUNTER_ADVANCE = (0, 7)
    functions = CompileRun.functions[:7] + ['gensym::gensym / ARGNAME_CTR']
    assumptions = ['the program text is one of the stated templates (cl21; thorough also cl23), concrete',
                   'HashMap/HashSet iteration order is a symbolic choice among: insertion order, reversed, rotated by one (the same policy at every iteration site of one compilation); BTreeMap/BTreeSet iterate in key order',
                   'the fresh-name counter is advanced by a symbolic choice of 0 or 7 calls of gensym before the compilation, and a compilation of an unparsable program precedes it',
                   'the output of every explored combination must equal the native build\'s output for the same text (emitted CLVM and symbol table)']
    outside = 'iteration orders other than the three policies; other templates; threads (see guard_restores)'

    def cases(self, tier):
        sigils = ['cl21'] if tier == 'quick' else ['cl21', 'cl23']
        for t in self.TEMPLATES_USED[tier]:
            for sg in sigils + (['classic'] if t in self.CLASSIC_TOO else []):
                if sg == 'cl23' and t not in CompileRun.QUICK_23:
                    continue
                for pol in range(len(self.POLICIES)):        # one shard per policy and counter choice: every path is a
                    for adv in (False, True):                # whole compilation, so the shards are what runs in parallel
                        yield dict(t=t, sigil=sg, policy=pol, advance=adv)

    def sym_inputs(self, case):
        return dict(policy=z3.BitVec('policy', 2), advance=z3.Bool('advance'))

    def conc_inputs(self, case, j):
        return dict(policy=z3.BitVecVal(j['policy'], 2), advance=z3.BoolVal(j['advance']))

    def inputs_json(self, case, inp, model):
        return dict(policy=ev(model, inp['policy']), advance=bool(ev(model, inp['advance'])))

    def native_checks(self, case):
        return [('compile-under-policy', case['t'], case['sigil'], case.get('policy'), case.get('advance'))]

    def source(self, case):
        for name, src, specs in TEMPLATES + TEMPLATES_23 + TEMPLATES_C05:
            if name == case['t']:
                return src.replace('{S}', SIGILS[case['sigil']])
        raise KeyError(case['t'])

    def run(self, eng, case, inp):
        src = self.source(case)
        eng.assume(z3.ULT(inp['policy'], len(self.POLICIES)))
        if case.get('policy') is not None:
            eng.assume(inp['policy'] == case['policy'])
            eng.assume(inp['advance'] == z3.BoolVal(bool(case['advance'])))
        pol = eng.choose([(k, inp['policy'] == k) for k in range(len(self.POLICIES))])
        adv = self.COUNTER_ADVANCE[1] if eng.branch_bool(inp['advance']) else self.COUNTER_ADVANCE[0]

        def order(e, mp):
            n = len(mp.entries)
            idx = list(range(n))
            if pol == 1:
                idx.reverse()
            elif pol == 2 and n > 1:
                idx = idx[1:] + idx[:1]
            return idx
        eng.env['map_order'] = order
        eng.env['tls'] = tls(True)
        eng.env['exact_fmt'] = True
        alloc = Ref(Cell(Struct('Allocator', [])))
        name = slice_of(conc_bytes(list(b'*t*')))
        for _ in range(adv):
            eng.call('gensym::gensym', [Vec(conc_bytes(list(b'x')))])

        def compile_(text):
            opts = eng.call('DefaultCompilerOpts::new', [name])
            symtab = Cell(eng.call('HashMap::<String, String>::new', []))
            r = eng.call('clvmc::compile_clvm_text_maybe_opt',
                         [alloc, mkbool(False), Cell(opts, 'rc'), Ref(symtab), slice_of(conc_bytes(list(text.encode()))), name, mkbool(True)])
            return r, symtab.v
        bad, _ = compile_('(mod (X) (include *standard-cl-21*) (defun F (A) (+ A 1)) (F X')
        r, symtab = compile_(src)
        out = dict(prior_failed=bad.variant != 'Ok', ok=r.variant == 'Ok')
        if r.variant == 'Ok':
            out['compiled'] = tree_to_json(None, r.fields[0], ev)
            out['symbols'] = sorted([bytes_of_items(eng.deref(k, None)).decode('latin1'), bytes_of_items(c.v.items).decode('latin1')]
                                    for k, c in symtab.entries)
        nat = compiled_native(src)
        out['native'] = nat
        return out

    def obligations(self, eng, case, inp, out):
        nat = out['native']
        obs = [('the_preceding_compilation_failed_as_intended', z3.BoolVal(out['prior_failed']))]
        if not out['ok']:
            obs.append(('compiles_under_every_order_and_counter', z3.BoolVal(nat.get('compiled') is None)))
            return obs
        obs.append(('emitted_clvm_is_the_same_under_every_order_and_counter', z3.BoolVal(out['compiled'] == nat.get('compiled'))))
        obs.append(('symbol_table_is_the_same_under_every_order_and_counter',
                    z3.BoolVal([list(x) for x in out['symbols']] == [list(x) for x in (nat.get('symbols') or [])])))
        return obs

    def output_json(self, eng, case, inp, out, model):
        return dict(compiled=out.get('compiled'), symbols=out.get('symbols'), native_compiled=out['native'].get('compiled'))

    def native_inputs_pred(self, case, j, predicted):
        return dict(source=self.source(case), optimize=False, repeat=40)

    def native_inputs(self, case, j):
        return self.native_inputs_pred(case, j, None)

    def native_matches(self, case, j, native, predicted):
        return True

    def is_violation(self, case, j, native):
        # natively the hash order cannot be chosen, only re-drawn: the build is repeated (every HashMap gets fresh keys)
        # and a difference between repetitions confirms the dependence; without that there is no verdict
        return native.get('repeat_differs') is True

    def oracle(self, case, j):
        return 'the native build\'s output for the same text'

    def witness_classes(self, case, inp, out):
        return [('compiled', z3.BoolVal(out['ok']))]

    def required_witnesses(self, tier):
        return ['compiled']


_NATIVE_COMPILED = {}


def compiled_native(source):
    from mirsym import driver
    if source not in _NATIVE_COMPILED:
        _NATIVE_COMPILED[source] = driver.NATIVE.run('compile_text', [dict(case={}, inputs=dict(source=source, optimize=False))])[0]
    return _NATIVE_COMPILED[source]


# ---------------------------------------------------------------- C10: ill-scoped programs are rejected
# One identifier byte of the program text ('?') is symbolic over 'A'..'Z'.  `bound` lists the letters for which the
# program is well scoped (by the language's scope rules, written down here, not observed); for every other letter
# the program has the named defect and must be rejected with an error that names the identifier.
C10_TEMPLATES = [
    ('unbound_in_defun', 'strict21', '(mod (X) {S} (defun F (A B) (+ A ?)) (F X 1))', 'ABF', 'ABFXQ',
     'a defun body sees its own parameters and the program\'s functions, not the mod parameters'),
    ('unbound_in_let', 'strict21', '(mod (X Y) {S} (let ((A (+ X 1))) (* A ?)))', 'AXY', 'AXYQ',
     'a let body sees the let binding and the enclosing parameters'),
    ('unbound_in_inline', 'strict21', '(mod (X) {S} (defun-inline G (P) (+ P ?)) (defun H (A) (G A)) (H X))', 'PGH', 'PGHAXQ',
     'an inline body sees its own parameters and the program\'s functions, not its caller\'s variables'),
    ('duplicate_defun', 'cl21', '(mod (X) {S} (defun F (A) (+ A 1)) (defun ? (B) (* B 2)) (F X))', 'ABCDEGHIJKLMNOPQRSTUVWXYZ', 'FGQ',
     'two functions may not share a name'),
    ('duplicate_inline', 'cl21', '(mod (X) {S} (defun-inline F (A) (+ A 1)) (defun ? (B) (* B 2)) (F X))', 'ABCDEGHIJKLMNOPQRSTUVWXYZ', 'FGQ',
     'an inline and a function may not share a name'),
    ('inline_recursion', 'strict21', '(mod (X) {S} (defun H (A) (+ A 1)) (defun-inline F (A) (? A)) (defun-inline G (A) (F A)) (G X))', 'HA', 'FGHAX',
     'inline functions may not call themselves, directly (F) or through each other (G)'),
    ('inline_recursion_in_rest_tail', 'strict21', '(mod (X) {S} (defun H (A) (+ A 1)) (defun S (A . R) (+ A 1)) (defun-inline F (A) (S 1 &rest (? (- A 1)))) (defun-inline G (A) (F A)) (G X))', 'HSA', 'FGHSAX',
     'the same, with the recursive call sitting in an &rest tail'),
]
C10_SIGILS = {'strict21': '(include *strict-cl-21*)', 'cl21': '(include *standard-cl-21*)', 'cl23': '(include *standard-cl-23*)'}


class IllScopedRejected(Harness):
    name = 'ill_scoped_rejected'
    prop = 'C10'
    kernel = 'compile_text'
    with_clvmr = True
    loop_bound = 200000
    max_paths = 64
    bigw = {'quick': 264, 'thorough': 264}
    functions = CompileRun.functions[:6]
    ALSO_NAMES = {'inline_recursion': 'FG', 'inline_recursion_in_rest_tail': 'FG'}
    classes = {'inline_body_head_resolves_in_caller': lambda case, inp: z3.BoolVal(case['t'] in ('inline_recursion', 'inline_recursion_in_rest_tail') and case['v'] == 'X')}
    assumptions = ['the program text is one of the stated templates with ONE identifier byte symbolic over A..Z (everything else concrete); the whole compilation is executed from MIR once per class of that byte',
                   'which letters make the program well scoped is written down per template from the language\'s scope rules (harness/pipeline.py::C10_TEMPLATES), not observed from the compiler',
                   'cases are sharded by candidate letter / "any other letter"; the last class is decided for all remaining letters at once']
    outside = 'programs other than the templates; defects in more than one place; termination beyond the loop bound (a compilation that does not finish ends as `bound`, not as a pass); assign cycles (cl23 compilations cost minutes each: thorough tier only)'

    def templates(self, tier):
        out = list(C10_TEMPLATES)
        if tier == 'thorough':
            out.append(('assign_cycle', 'cl23', '(mod (X) {S} (defun K (P) (assign A (+ ? 1) B (+ A 1) (list A B))) (K X))', 'PK', 'ABP',
                        'an assign binding may not depend on itself, directly (A) or through another binding (B)'))
            out.append(('assign_duplicate', 'cl23', '(mod (X) {S} (defun K (P) (assign A (+ P 1) ? (+ P 2) (list A P))) (K X))', 'BCDEFGHIJLMNOQRSTUVWXYZ', 'ABP',
                        'an assign form may not bind a name twice (A) or re-bind through a cycle'))
        return out

    def cases(self, tier):
        for name, sig, src, bound, cands, why in self.templates(tier):
            for c in cands:
                yield dict(t=name, v=c)
            yield dict(t=name, v='other')

    def tmpl(self, case):
        for row in self.templates('thorough'):
            if row[0] == case['t']:
                return row
        raise KeyError(case['t'])

    def sym_inputs(self, case):
        return dict(v=Int(z3.BitVec('v', 8), 8, False))

    def conc_inputs(self, case, j):
        return dict(v=mkint(j['v'], 'u8'))

    def inputs_json(self, case, inp, model):
        return dict(v=ev(model, inp['v'].e))

    def run(self, eng, case, inp):
        name, sig, src, bound, cands, why = self.tmpl(case)
        v = inp['v']
        if v.c is None:
            eng.assume(z3.And(z3.UGE(v.e, 0x41), z3.ULE(v.e, 0x5a)))
            if case['v'] == 'other':
                eng.assume(z3.And(*[v.e != ord(c) for c in cands]))
            else:
                eng.assume(v.e == ord(case['v']))
        text = src.replace('{S}', C10_SIGILS[sig])
        eng.env['tls'] = tls(True)
        eng.env['exact_fmt'] = True
        alloc = Ref(Cell(Struct('Allocator', [])))
        fname = slice_of(conc_bytes(list(b'*t*')))
        opts = eng.call('DefaultCompilerOpts::new', [fname])
        symtab = Cell(eng.call('HashMap::<String, String>::new', []))
        bs = [v if ch == ord('?') else mkint(ch, 'u8') for ch in text.encode()]
        try:
            r = eng.call('clvmc::compile_clvm_text_maybe_opt', [alloc, mkbool(False), Cell(opts, 'rc'), Ref(symtab), slice_of(bs), fname, mkbool(True)])
        except PathEnd as pe:
            if pe.kind == 'bound' and 'call depth' in str(pe):
                return dict(ok=False, msg=None, diverged=True)       # the compilation recurses without end
            raise
        out = dict(ok=r.variant == 'Ok', msg=None)
        if r.variant != 'Ok':
            out['msg'] = self.message_items(eng, r.fields[0])
        return out

    @staticmethod
    def message_items(eng, err):
        """byte terms of the text of a CompileError / CompileErr / EvalErr value"""
        found = []

        def walk(x, depth=0):
            if depth > 6:
                return
            if isinstance(x, Cell):
                x = x.v
            if isinstance(x, Vec) and x.items and all(isinstance(b, Int) and b.w == 8 for b in x.items):
                found.append(x.items)
            elif isinstance(x, (Struct, Enum)):
                for f_ in x.fields:
                    walk(f_, depth + 1)
        walk(err)
        return found

    def obligations(self, eng, case, inp, out):
        name, sig, src, bound, cands, why = self.tmpl(case)
        v = inp['v'].e
        well_scoped = z3.Or(*[v == ord(c) for c in bound])
        if out.get('diverged'):
            return [('the_compilation_terminates', z3.BoolVal(False))]
        if out['ok']:
            return [('code_is_emitted_only_for_a_well_scoped_program', well_scoped)]
        # rejected: fine either way for the property's first clause; when the program has the defect the message must name it
        texts = [t for t in out['msg'] if len(t) >= 3]
        # for a cycle of inline functions any function on the cycle is "the offending identifier"
        also = [ord(c) for c in self.ALSO_NAMES.get(name, '')]
        names_it = z3.Or(*[z3.Or(b.e == v, *[b.e == a for a in also]) for t in texts for b in t]) if texts else z3.BoolVal(False)
        return [('the_error_names_the_identifier', z3.Or(well_scoped, names_it))]

    def output_json(self, eng, case, inp, out, model):
        return dict(ok=out['ok'], diverged=bool(out.get('diverged')), msg=[''.join(chr(ev(model, b.e)) for b in t) for t in (out['msg'] or []) if len(t) >= 3][-1:] if not out['ok'] else None)

    def native_inputs(self, case, j):
        name, sig, src, bound, cands, why = self.tmpl(case)
        return dict(source=src.replace('{S}', C10_SIGILS[sig]).replace('?', chr(j['v'])), optimize=False)

    def native_matches(self, case, j, native, predicted):
        return (native.get('compiled') is not None) == bool(predicted and predicted.get('ok'))

    def run_native(self, items):
        return [native_compile_text(it['inputs']) for it in items]

    def is_violation(self, case, j, native):
        name, sig, src, bound, cands, why = self.tmpl(case)
        if native.get('crash'):
            return True                # the native compiler overflowed its stack
        ok = native.get('compiled') is not None
        if ok:
            return chr(j['v']) not in bound
        msg = native.get('compile_err') or ''
        return chr(j['v']) not in bound and chr(j['v']) not in msg and not any(c in msg for c in self.ALSO_NAMES.get(name, ''))

    def oracle(self, case, j):
        name, sig, src, bound, cands, why = self.tmpl(case)
        return 'well scoped exactly for %s: %s' % (','.join(bound) if len(bound) < 10 else 'every letter except ' + ','.join(sorted(set('ABCDEFGHIJKLMNOPQRSTUVWXYZ') - set(bound))), why)

    def witness_classes(self, case, inp, out):
        return [('accepted', z3.BoolVal(out['ok'])), ('rejected', z3.BoolVal(not out['ok']))]

    def required_witnesses(self, tier):
        return ['accepted', 'rejected']


TEMPLATES_C05 = []
