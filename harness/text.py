"""C09: printed text re-reads to the identical value.
classic: disassemble (ir_for_atom, has_oversized_sign_extension, disassemble_to_ir_with_kw, write_ir, IROutputIterator,
         pybytes_repr, bigint_from_bytes.to_string, hex) -> assemble (IRReader, consume_*, interpret_atom_value, assemble_from_ir)
modern:  impl Display for SExp (printable, escape_quote, list_no_parens, bin2hex) -> parse_sexp -> convert_to_clvm_rs,
         and -> classic assemble."""
import z3
from mirsym.driver import Harness, sym_bytes, conc_bytes, ev_bytes, ev, slice_of
from mirsym.engine import (Cell, Ref, Some, NONE, Enum, Struct, Vec, Int, Big, Bool, Opaque, mkint, PathEnd, concrete)
from mirsym.models_clvm import Tree, atom_node, pair_node, nil_node, tree_to_json, tree_from_json
from mirsym.models_vec import IterV
from harness import rich
from harness.codec import tree_eq
from harness.convert import tls

POSITIONS = ('alone', 'head', 'second', 'tail')


def place(pos, x):
    """tree with atom x in the given position; the other atom is the constant 2 ('a' keyword as head, 2 otherwise)"""
    two = lambda: atom_node([mkint(2, 'u8')])
    if pos == 'alone':
        return x
    if pos == 'head':
        return pair_node(x, pair_node(two(), nil_node()))
    if pos == 'second':
        return pair_node(two(), pair_node(x, nil_node()))
    return pair_node(two(), x)


def place_json(pos, x):
    if pos == 'alone':
        return x
    if pos == 'head':
        return {'p': [x, {'p': [[2], []]}]}
    if pos == 'second':
        return {'p': [[2], {'p': [x, []]}]}
    return {'p': [[2], x]}


class ClassicText(Harness):
    name = 'classic_text'
    prop = 'C09'
    kernel = 'classic_text'
    functions = ['binutils::disassemble', 'disassemble_with_kw', 'disassemble_to_ir_with_kw', 'ir_for_atom',
                 'has_oversized_sign_extension', 'is_printable_string', 'PRINTABLE_CHARS initialiser', 'keyword_from_atom',
                 'writer::write_ir', 'write_ir_to_stream', 'IROutputIterator::next', 'Bytes::to_formal_string', 'pybytes_repr',
                 'char_to_string', 'casts::bigint_from_bytes', 'Bytes::hex', 'binutils::assemble', 'IRReader::{new,read,backup,read_expr}',
                 'reader::consume_object', 'consume_cons_body', 'consume_quoted', 'consume_atom', 'consume_whitespace',
                 'interpret_atom_value', 'is_hex', 'is_dec', 'Bytes::new_validated', 'bigint_to_bytes_clvm', 'enlist_ir',
                 'assemble_from_ir', 'keyword_to_atom', 'Stream::*']
    assumptions = ['one atom of the stated length with arbitrary content in four positions (alone, list head, second element, dotted tail) of a list whose other atom is 2',
                   'decimal print/parse of BigInt is a pair of models (digit-exact on the stated widths)',
                   'atoms that are valid multi-byte UTF-8 end as `bound` in from_utf8/chars (ASCII-only string models)']
    outside = 'atoms longer than the stated length; trees with several arbitrary atoms'
    lengths = {'quick': (0, 1, 2, 3), 'thorough': (0, 1, 2, 3, 4)}
    loop_bound = 600
    bigw = {'quick': 136, 'thorough': 136}

    def cases(self, tier):
        for n in self.lengths[tier]:
            for pos in POSITIONS:
                for v in (0, 1, 2):
                    if tier == 'quick' and n == 3 and (pos not in ('alone', 'second') or v != 2):
                        continue        # the full product at n=3 is in the thorough tier
                    yield dict(n=n, pos=pos, version=v)

    def sym_inputs(self, case):
        return dict(x=sym_bytes('x', case['n']))

    def conc_inputs(self, case, j):
        return dict(x=conc_bytes(j['x']))

    def inputs_json(self, case, inp, model):
        return dict(x=ev_bytes(model, inp['x']))

    def run(self, eng, case, inp):
        tree = place(case['pos'], atom_node(inp['x']))
        alloc = Ref(Cell(Struct('Allocator', [])))
        text = eng.call('binutils::disassemble', [alloc, tree, Some(mkint(case['version'], 'usize'))])
        back = eng.call('binutils::assemble', [alloc, Slice_of_vec(text)])
        return dict(tree=tree, text=text, back=back)

    def obligations(self, eng, case, inp, out):
        back = out['back']
        if back.variant != 'Ok':
            return [('assembler_accepts_disassembly', z3.BoolVal(False))]
        return [('assembles_to_identical_value', tree_eq(back.fields[0], out['tree']))]

    def output_json(self, eng, case, inp, out, model):
        back = out['back']
        return dict(text=ev_bytes(model, out['text'].items),
                    back=dict(ok=tree_to_json(model, back.fields[0], ev)) if back.variant == 'Ok' else dict(err=True))

    def native_inputs(self, case, j):
        return dict(tree=place_json(case['pos'], j['x']))

    def oracle(self, case, j):
        return dict(back=dict(ok=place_json(case['pos'], j['x'])))

    def native_matches(self, case, j, native, predicted):
        return native.get('text') == predicted.get('text') and native.get('back') == predicted.get('back')

    def is_violation(self, case, j, native):
        return native.get('back') != dict(ok=place_json(case['pos'], j['x']))

    def vectors(self, case, rnd):
        n = case['n']
        alphabet = [0, 1, 2, 0x22, 0x27, 0x5c, 0x28, 0x29, 0x2e, 0x3b, 0x23, 0x30, 0x78, 0x61, 0x7f, 0x80, 0xff, 0x20, 0x2d]
        return [dict(x=[rnd.choice(alphabet) for _ in range(n)]) for _ in range(8)]

    def witness_classes(self, case, inp, out):
        # which IR kind the atom was printed as (by the first character of its text when alone)
        return []


def Slice_of_vec(v):
    from mirsym.engine import Slice
    return Slice(Ref(Cell(v)), 0, len(v.items))


class ModernText(Harness):
    name = 'modern_text'
    prop = 'C09'
    kernel = 'modern_text'
    functions = ['<SExp as Display>::fmt', 'sexp::printable', 'escape_quote', 'list_no_parens', 'decode_string', 'SExp::nilp',
                 'parse_sexp', 'parse_sexp_step', 'make_atom', 'from_hex', 'normalize_int', 'convert_from_clvm_rs',
                 'convert_to_clvm_rs', 'binutils::assemble (classic reader)']
    assumptions = ['fixed integer mode', 'values: what convert_from_clvm_rs yields for the atom, and the atom as a QuotedString with either quote character (what the reader yields for string literals)',
                   'the atom sits alone, as list head, second element or dotted tail next to the atom 2']
    outside = 'atoms longer than the stated length; legacy integer mode (documented as lossy); Atom spelling (only produced for identifiers)'
    lengths = {'quick': (0, 1, 2, 3), 'thorough': (0, 1, 2, 3, 4)}
    loop_bound = 600

    def cases(self, tier):
        for n in self.lengths[tier]:
            for pos in POSITIONS:
                for sp in ('conv', 'dq', 'sq'):
                    if tier == 'quick' and n == 3 and (pos not in ('alone', 'second') or sp == 'sq'):
                        continue
                    yield dict(n=n, pos=pos, sp=sp)

    sym_inputs = ClassicText.sym_inputs
    conc_inputs = ClassicText.conc_inputs
    inputs_json = ClassicText.inputs_json

    def rich_place(self, pos, xv):
        two = lambda: rich.integer(z3.BitVecVal(2, 136))
        if pos == 'alone':
            return xv
        if pos == 'head':
            return rich.cons(xv, rich.cons(two(), rich.nil()))
        if pos == 'second':
            return rich.cons(two(), rich.cons(xv, rich.nil()))
        return rich.cons(two(), xv)

    def run(self, eng, case, inp):
        eng.env['tls'] = tls(True)
        alloc = Ref(Cell(Struct('Allocator', [])))
        x = inp['x']
        if case['sp'] == 'conv':
            xv = eng.call('compiler::clvm::convert_from_clvm_rs', [alloc, rich.loc(), atom_node(x)]).fields[0]
        else:
            xv = rich.qs(x, 0x22 if case['sp'] == 'dq' else 0x27)
        if eng.bigw != 136:
            raise PathEnd('unsupported', 'harness assumes 136-bit BigInt')
        val = rich.rc(self.rich_place(case['pos'], xv))
        want = eng.call('compiler::clvm::convert_to_clvm_rs', [alloc, val]).fields[0]
        text = eng.call('<SExp as ToString>::to_string', [Ref(val)])
        # modern reader
        it = IterV([Cell(b) for b in text.items], owned=True)
        parsed = eng.call('sexp::parse_sexp', [rich.loc(), it])
        m_back = None
        if parsed.variant == 'Ok' and len(parsed.fields[0].items) == 1:
            m_back = eng.call('compiler::clvm::convert_to_clvm_rs', [alloc, parsed.fields[0].items[0]])
        # classic assembler
        c_back = eng.call('binutils::assemble', [alloc, Slice_of_vec(text)])
        return dict(want=want, text=text, parsed=parsed, m_back=m_back, c_back=c_back)

    def obligations(self, eng, case, inp, out):
        obs = []
        mb = out['m_back']
        if mb is None or mb.variant != 'Ok':
            obs.append(('modern_reader_accepts_printed_text', z3.BoolVal(False)))
        else:
            obs.append(('modern_reader_reads_identical_value', tree_eq(mb.fields[0], out['want'])))
        cb = out['c_back']
        if cb.variant != 'Ok':
            obs.append(('classic_assembler_accepts_printed_text', z3.BoolVal(False)))
        else:
            obs.append(('classic_assembler_reads_identical_value', tree_eq(cb.fields[0], out['want'])))
        return obs

    def output_json(self, eng, case, inp, out, model):
        mb, cb = out['m_back'], out['c_back']
        return dict(text=ev_bytes(model, out['text'].items),
                    modern=dict(ok=tree_to_json(model, mb.fields[0], ev)) if (mb is not None and mb.variant == 'Ok') else dict(err=True),
                    classic=dict(ok=tree_to_json(model, cb.fields[0], ev)) if cb.variant == 'Ok' else dict(err=True))

    def native_inputs(self, case, j):
        return dict(x=j['x'])

    def oracle(self, case, j):
        t = dict(ok=place_json(case['pos'], j['x']))
        return dict(modern=t, classic=t)

    def native_matches(self, case, j, native, predicted):
        return all(native.get(k) == predicted.get(k) for k in ('text', 'modern', 'classic'))

    def is_violation(self, case, j, native):
        t = dict(ok=place_json(case['pos'], j['x']))
        return native.get('modern') != t or native.get('classic') != t

    vectors = ClassicText.vectors
