"""C20: operator tables — KW_PAIRS, KEYWORD_{FROM,TO}_ATOM_{0,1,2} initialisers, keyword_from_atom/to_atom,
prims(), prim_map(), OriginalDialect::op (repo) and ChiaDialect::op (clvmr MIR) executed from MIR."""
import re
import z3
from mirsym.driver import Harness, sym_bytes, conc_bytes, ev_bytes, ev, slice_of
from mirsym.engine import (Cell, Ref, Some, NONE, Enum, Struct, Vec, Int, Big, Bool, Opaque, FnItem, mkint, PathEnd,
                           concrete, Ok, Err, Unsupported)
from mirsym.models import items_of
from mirsym.models_clvm import atom_node, nil_node
from mirsym.models_hash import MapV

NO_UNKNOWN_OPS = 0x0002
ENABLE_KECCAK_OPS_OUTSIDE_GUARD = 0x0100


def cbytes(eng, v):
    return bytes(concrete(b.e) for b in items_of(eng, v))


def map_to_py(eng, mp):
    mp = eng.deref(mp)
    while isinstance(mp, Cell):
        mp = mp.v
    out = {}
    for k, c in mp.entries:
        v = c.v.v if isinstance(c.v, Cell) else c.v
        out[cbytes(eng, k)] = v
    return out


def op_stub(eng, m, args, fr, dty):
    return Ok(Struct('Reduction', [mkint(0, 'u64'), Opaque('impl:' + m.group(0))]))


STUBS = [(re.compile(r'^(clvm_rs::|clvmr::)?(\w+::)*op_(?!unknown)\w+$'), op_stub)]


class Tables(Harness):
    name = 'tables'
    prop = 'C20'
    kernel = 'tables'
    with_clvmr = True
    functions = ['classic::clvm::KW_PAIRS', 'KEYWORD_FROM_ATOM_{0,1,2} / KEYWORD_TO_ATOM_{0,1,2} initialisers',
                 'keyword_from_atom', 'keyword_to_atom', 'compiler::prims::prims', 'prim_map',
                 'stage_0::OriginalDialect::op', 'stage_0::unknown_operator', 'clvmr ChiaDialect::op', 'clvmr unknown_operator',
                 'Dialect::{quote_kw,apply_kw,softfork_kw}']
    assumptions = ['operator implementations op_* are stubbed: only the dispatch (which opcode reaches an implementation) is decided',
                   'dialect flags as DefaultProgramRunner sets them per operators_version (0: Original+NO_UNKNOWN_OPS, 1: Chia+NO_UNKNOWN_OPS, 2: Chia+NO_UNKNOWN_OPS|ENABLE_KECCAK_OPS_OUTSIDE_GUARD)',
                   'finite domain: the symbolic opcode byte(s) make the solver cover every opcode 0..255 and every 4-byte opcode; same guarantee as exhaustive enumeration']
    outside = 'compiling and running a one-operator program per name (whole compiler); operand semantics of each operator'
    unsupported_is_failure = True

    def cases(self, tier):
        for v in (0, 1, 2):
            yield dict(version=v, oplen=1)
            yield dict(version=v, oplen=4)

    def sym_inputs(self, case):
        return dict(op=sym_bytes('op', case['oplen']))

    def conc_inputs(self, case, j):
        return dict(op=conc_bytes(j['op']))

    def inputs_json(self, case, inp, model):
        return dict(op=ev_bytes(model, inp['op']))

    def tables(self, eng, v):
        fa = eng.call('classic::clvm::keyword_from_atom', [mkint(v, 'usize')])
        ta = eng.call('classic::clvm::keyword_to_atom', [mkint(v, 'usize')])
        from_atom = {k: cbytes(eng, n) for k, n in map_to_py(eng, fa).items()}
        to_atom = {k: cbytes(eng, n) for k, n in map_to_py(eng, ta).items()}
        return from_atom, to_atom

    def run(self, eng, case, inp):
        eng.env['stubs'] = STUBS
        v = case['version']
        kw = eng.const('classic::clvm::KW_PAIRS')
        rows = []
        for r in kw.items:
            rows.append((cbytes(eng, r.fields[0]), cbytes(eng, r.fields[1]), concrete(r.fields[2].e)))
        tabs = {vv: self.tables(eng, vv) for vv in (0, 1, 2)}
        prims = eng.call('compiler::prims::prims', [])
        plist = []
        for t in prims.items:
            name = cbytes(eng, t.fields[0])
            sx = t.fields[1]
            if sx.variant != 'Integer':
                raise Unsupported('non-integer primitive opcode')
            b = eng.call('util::u8_from_number', [sx.fields[1]])
            plist.append((name, cbytes(eng, b)))
        pm = map_to_py(eng, eng.call('compiler::prims::prim_map', []))
        # dispatch of a symbolic opcode under the dialect the tools use for this version
        alloc = Ref(Cell(Struct('Allocator', [])))
        o = atom_node(inp['op'])
        flags = NO_UNKNOWN_OPS | (ENABLE_KECCAK_OPS_OUTSIDE_GUARD if v >= 2 else 0)
        dialect = Struct('OriginalDialect' if v == 0 else 'ChiaDialect', [mkint(flags, 'u32')])
        fn = '<OriginalDialect as Dialect>::op' if v == 0 else '<ChiaDialect as Dialect>::op'
        r = eng.call(fn, [Ref(Cell(dialect)), alloc, o, nil_node(), mkint(0, 'u64'), Enum('dialect::OperatorSet', 'Default', [])])
        kws = {}
        for nm in ('quote_kw', 'apply_kw', 'softfork_kw'):
            kws[nm] = concrete(eng.call(fn.replace('::op', '::' + nm), [Ref(Cell(dialect))]).e)
        return dict(rows=rows, tabs=tabs, prims=plist, prim_map=pm, res=r, kws=kws)

    def obligations(self, eng, case, inp, out):
        v = case['version']
        obs = []
        T = lambda b: z3.BoolVal(bool(b))
        rows, tabs = out['rows'], out['tabs']
        fa, ta = tabs[v]
        want = [(k, n) for k, n, ver in rows if ver <= v]
        obs.append(('from_atom_is_rows', T(fa == dict(want) and len(dict(want)) == len(want))))
        obs.append(('to_atom_is_rows', T(ta == {n: k for k, n in want} and len({n for k, n in want}) == len(want))))
        obs.append(('mutually_inverse', T(all(ta.get(n) == k for k, n in fa.items()) and all(fa.get(k) == n for n, k in ta.items()))))
        if v > 0:
            pfa, pta = tabs[v - 1]
            obs.append(('versions_only_add', T(all(fa.get(k) == n for k, n in pfa.items()) and all(ta.get(n) == k for n, k in pta.items()))))
        # modern primitive list vs classic latest table
        fa2, ta2 = tabs[2]
        pd = dict(out['prims'])
        obs.append(('prims_unique', T(len(pd) == len(out['prims']) and len(set(pd.values())) == len(pd))))
        obs.append(('prims_agree_with_classic', T(all(ta2[n] == k for n, k in pd.items() if n in ta2))))
        obs.append(('classic_names_known_to_modern', T(all(n in pd for n in ta2))))
        obs.append(('modern_names_known_to_classic', T(all(n in ta2 for n in pd))))
        obs.append(('prim_map_is_prims', T(set(out['prim_map'].keys()) == set(pd.keys()))))
        # dispatch: every table opcode of this length reaches an implementation (q, a, softfork are the evaluator's own)
        res = out['res']
        implemented = res.variant == 'Ok'
        kws = out['kws']
        special = {ta.get(b'q'): kws['quote_kw'], ta.get(b'a'): kws['apply_kw'], ta.get(b'softfork'): kws['softfork_kw']}
        for kb, kwv in special.items():
            if kb is not None:
                obs.append(('evaluator_keyword_%d' % kwv, T(int.from_bytes(kb, 'big') == kwv)))
        keys = [k for k in fa if len(k) == case['oplen'] and k not in special]
        if keys:
            opv = z3.Concat(*[b.e for b in inp['op']]) if len(inp['op']) > 1 else inp['op'][0].e
            in_table = z3.Or(*[opv == int.from_bytes(k, 'big') for k in keys])
            obs.append(('table_opcode_is_implemented', z3.Implies(in_table, T(implemented))))
        return obs

    def output_json(self, eng, case, inp, out, model):
        r = out['res']
        return dict(implemented=r.variant == 'Ok')

    def oracle(self, case, j):
        return 'see obligations'

    def native_matches(self, case, j, native, predicted):
        if j['op'] in ([1], [2], [36]):
            return True      # quote / apply / softfork are handled by run_program itself, not by Dialect::op
        return native.get('implemented') == predicted.get('implemented')

    def is_violation(self, case, j, native):
        if j['op'] not in ([1], [2], [36]) and native.get('in_table') and not native.get('implemented'):
            return True
        return not all(native.get('checks', {}).values())

    def vectors(self, case, rnd):
        if case['oplen'] == 1:
            return [dict(op=[b]) for b in (3, 4, 9, 11, 15, 29, 35, 36, 48, 49, 50, 59, 60, 61, 62, 63, 64, 200)]
        return [dict(op=[0x13, 0xd6, 0x1f, 0x00]), dict(op=[0x1c, 0x3a, 0x8f, 0x00]), dict(op=[1, 2, 3, 4])]

    def witness_classes(self, case, inp, out):
        return [('implemented', z3.BoolVal(out['res'].variant == 'Ok')), ('unimplemented', z3.BoolVal(out['res'].variant != 'Ok'))]

    def required_witnesses(self, tier):
        return ['implemented', 'unimplemented']
