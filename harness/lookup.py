"""C01 (mechanism): codegen::create_name_lookup_ + compiler::is_at_capture executed from MIR on every environment
shape within the bound; the path it returns is resolved by clvmr's own traverse_path (from clvmr's MIR)."""
import itertools
import z3
from mirsym.driver import Harness, sym_bytes, conc_bytes, ev_bytes, ev, slice_of
from mirsym.engine import (Cell, Ref, Slice, Some, NONE, Enum, Struct, Vec, Int, Big, Bool, Opaque, mkint, PathEnd, concrete)
from mirsym.models_clvm import Tree, atom_node, pair_node, nil_node
from harness import rich
from harness.codec import shapes


def env_shapes(max_leaves):
    """shapes: 'L' leaf name, 'N' nil terminator, [l, r] cons, ('@', sub) capture form"""
    for k in range(1, max_leaves + 1):
        for sh in shapes(k):
            yield sh


def with_captures(sh):
    """yield sh and variants where one sub-tree is wrapped in an (@ name sub) capture"""
    yield sh
    def subs(s, path=()):
        yield path
        if isinstance(s, list):
            yield from subs(s[0], path + (0,))
            yield from subs(s[1], path + (1,))
    def wrap(s, path):
        if not path:
            return ('@', s)
        l = list(s)
        l[path[0]] = wrap(s[path[0]], path[1:])
        return l
    for p in subs(sh):
        yield wrap(sh, p)


def count_names(sh):
    if sh == 'L':
        return 1
    if isinstance(sh, tuple):
        return 1 + count_names(sh[1])
    return count_names(sh[0]) + count_names(sh[1])


def build_env(sh, names, kinds):
    """-> (rich env, value-shaped Tree whose leaves are tagged with the index of the name bound there,
            capture list [(name index, Tree)])"""
    caps = []

    def go(s):
        if s == 'L':
            i = next(names_it)
            if kinds[i] == 'int':
                leaf = rich.integer(rich_from_bytes(names[i]))
            else:
                leaf = rich.atom(names[i])
            return leaf, atom_node([mkint(0x30 + i, 'u8')], tag=i)
        if isinstance(s, tuple):
            i = next(names_it)
            sub, subt = go(s[1])
            form = rich.cons(rich.atom([mkint(0x40, 'u8')]), rich.cons(rich.atom(names[i]), rich.cons(sub, rich.nil())))
            caps.append((i, subt))
            return form, subt
        l, lt = go(s[0])
        r, rt = go(s[1])
        return rich.cons(l, r), pair_node(lt, rt)
    names_it = iter(range(len(names)))
    env, tree = go(sh)
    return env, tree, caps


def rich_from_bytes(items):
    from mirsym.models import from_signed
    class E: bigw = 136
    return from_signed(E, items)


def sh_json(sh):
    if sh == 'L':
        return 'L'
    if isinstance(sh, tuple):
        return {'at': sh_json(sh[1])}
    return [sh_json(sh[0]), sh_json(sh[1])]


def case_shape(case):
    return spine(case['spine']) if case.get('spine') else sh_from_json(case['shape'])


def flat(val):
    """right-nested {'p': [a, {'p': [b, ...]}]} -> {'l': [a, b, ...], 't': tail} (keeps JSON shallow)"""
    items = []
    while isinstance(val, dict) and 'p' in val:
        items.append(flat(val['p'][0]))
        val = val['p'][1]
    if not items:
        return val
    return {'l': items, 't': val}


def sh_from_json(j):
    if j == 'L':
        return 'L'
    if isinstance(j, dict):
        return ('@', sh_from_json(j['at']))
    return [sh_from_json(j[0]), sh_from_json(j[1])]


def spine(n):
    """(p0 p1 ... p_{n-1}) parameter list as a right spine; the terminator is a leaf too (rest argument)"""
    sh = 'L'
    for _ in range(n - 1):
        sh = ['L', sh]
    return sh


class NameLookup(Harness):
    name = 'name_lookup'
    prop = 'C01'
    kernel = 'name_lookup'
    with_clvmr = True
    functions = ['codegen::create_name_lookup_', 'its closures', 'compiler::is_at_capture', 'SExp::proper_list', 'util::u8_from_number',
                 'clvmr traverse_path (oracle, from clvmr MIR)']
    assumptions = ['names are identifiers made of lowercase letters (lookup only compares bytes)', 'environment = (() . ARGS), what compute_env_shape builds for a program without helpers', 'environment shapes: every binary tree with the stated number of leaves, each optionally with one (@ name pattern) capture at any position, plus right spines (parameter lists) of the stated depths',
                   'names are one symbolic byte each (Atom leaves; Integer leaves in the thorough tier); the looked-up name is one symbolic byte',
                   'the returned path is resolved by clvmr traverse_path on a value with the shape the environment describes']
    outside = 'everything else C01 covers: let/assign desugaring, inlining, lambdas, constants, macros, the dialects'
    spec = {'quick': dict(leaves=4, spines=(8, 16, 40, 62, 63, 64, 70)), 'thorough': dict(leaves=6, spines=(8, 16, 40, 62, 63, 64, 70, 100))}
    loop_bound = 400

    def cases(self, tier):
        sp = self.spec[tier]
        seen = set()
        for sh in env_shapes(sp['leaves']):
            for v in with_captures(sh):
                k = repr(v)
                if k in seen:
                    continue
                seen.add(k)
                yield dict(shape=sh_json(v), kinds='atom')
        for n in sp['spines']:
            yield dict(shape='spine', kinds='atom', spine=n)

    def sym_inputs(self, case):
        sh = case_shape(case)
        n = count_names(sh)
        if case.get('spine'):
            # concrete distinct names for long spines; the looked-up name is symbolic over them
            names = [conc_bytes([0x61 + (i % 26), 0x30 + (i // 26)]) for i in range(n)]
            return dict(names=names, name=sym_bytes('name', 2))
        return dict(names=[sym_bytes('n%d' % i, 1) for i in range(n)], name=sym_bytes('name', 1))

    def conc_inputs(self, case, j):
        return dict(names=[conc_bytes(x) for x in j['names']], name=conc_bytes(j['name']))

    def inputs_json(self, case, inp, model):
        return dict(names=[ev_bytes(model, x) for x in inp['names']], name=ev_bytes(model, inp['name']))

    def run(self, eng, case, inp):
        sh = case_shape(case)
        kinds = ['atom'] * len(inp['names'])
        for nm in inp['names'] + [inp['name']]:
            for b in nm:
                if b.c is None:
                    eng.assume(z3.And(z3.UGE(b.e, 0x61), z3.ULE(b.e, 0x7a)))     # identifiers: lowercase letters
        args_env, args_tree, caps = build_env(sh, inp['names'], kinds)
        env = rich.cons(rich.nil(), args_env)          # compute_env_shape for a program without helper functions
        tree = pair_node(nil_node(), args_tree)
        envrc = rich.rc(env)
        r = eng.call('codegen::create_name_lookup_', [rich.loc(), slice_of(inp['name']), envrc, envrc])
        found = None
        if r.variant == 'Ok':
            p = r.fields[0]
            pv = p.c if isinstance(p, Int) and p.c is not None else (concrete(p.e) if isinstance(p, Int) else None)
            if isinstance(p, Big):
                pv = concrete(p.e)
            if pv is None:
                raise PathEnd('unsupported', 'symbolic path value')
            nbytes = max(1, (pv.bit_length() + 7) // 8)
            pb = conc_bytes(pv.to_bytes(nbytes, 'big'))
            alloc = Ref(Cell(Struct('Allocator', [])))
            tr = eng.call('traverse_path', [alloc, slice_of(pb), tree])
            found = (pv, tr)
        return dict(res=r, found=found, tree=tree, caps=caps)

    def obligations(self, eng, case, inp, out):
        r = out['res']
        names, name = inp['names'], inp['name']
        eqn = lambda i: z3.And(*[a.e == b.e for a, b in zip(names[i], name)]) if len(names[i]) == len(name) else z3.BoolVal(False)
        if r.variant != 'Ok':
            return [('error_only_if_name_is_not_bound', z3.And(*[z3.Not(eqn(i)) for i in range(len(names))]))]
        pv, tr = out['found']
        if tr.variant != 'Ok':
            return [('path_resolves_in_the_environment', z3.BoolVal(False))]
        node = tr.fields[0].fields[1]
        # which name is bound at the node the path reaches?
        cands = []
        if node.kind == 'atom' and node.tag is not None:
            cands.append(node.tag)
        for i, t in out['caps']:
            if t is node:
                cands.append(i)
        if not cands:
            return [('path_reaches_a_binding', z3.BoolVal(False))]
        return [('path_reaches_a_slot_bound_to_the_name', z3.Or(*[eqn(i) for i in cands]))]

    def output_json(self, eng, case, inp, out, model):
        r = out['res']
        if r.variant != 'Ok':
            return dict(err=True)
        return dict(path=str(out['found'][0]))

    # ---- native side: compile (mod ARGS NAME) with the real compiler and run it
    def source_and_args(self, case, j):
        sh = case_shape(case)
        names = [bytes(x).decode('latin1') for x in j['names']]
        it = iter(range(len(names)))
        bindings = {}            # name -> list of acceptable values (json trees)

        def go(s, top_tail=False):
            if s == 'L':
                i = next(it)
                val = [100 + i] if i < 28 else [1, i]
                bindings.setdefault(names[i], []).append(val)
                return names[i], val
            if isinstance(s, tuple):
                i = next(it)
                sub, val = go(s[1])
                bindings.setdefault(names[i], []).append(val)
                return '(@ %s %s)' % (names[i], sub), val
            l, lv = go(s[0])
            r, rv = go(s[1])
            return '(%s . %s)' % (l, r), {'p': [lv, rv]}
        text, val = go(sh)
        name = bytes(j['name']).decode('latin1')
        src = '(mod %s (include *standard-cl-21*) %s)' % (text, name)
        return src, val, bindings.get(name)

    def native_inputs(self, case, j):
        src, val, _ = self.source_and_args(case, j)
        return dict(source=src, args=flat(val))

    def native_path(self, native):
        c = native.get('compiled')
        if isinstance(c, list):
            return str(int.from_bytes(bytes(c), 'big'))
        try:
            # (a (q . PATH) (c (q) 1))
            if c['p'][0] == [2]:
                q = c['p'][1]['p'][0]
                if q['p'][0] == [1] and isinstance(q['p'][1], list):
                    return str(int.from_bytes(bytes(q['p'][1]), 'big'))
        except Exception:
            pass
        return None

    def native_matches(self, case, j, native, predicted):
        if native.get('panic') or predicted.get('end') == 'panic':
            return bool(native.get('panic')) and predicted.get('end') == 'panic'
        if j['name'] not in j['names']:
            # unbound name: non-strict cl21 compiles it as a constant; the kernel itself reports "not found"
            return predicted == dict(err=True)
        if 'compile_err' in native:
            return predicted == dict(err=True)
        return predicted == dict(path=self.native_path(native))

    def oracle(self, case, j):
        return 'compiled (mod ARGS NAME) returns the argument bound to NAME'

    def is_violation(self, case, j, native):
        if native.get('panic'):
            return True
        _, _, want = self.source_and_args(case, j)
        if want is None:
            return False          # unbound name: non-strict cl21 compiles it as a constant by design; not judged here
        if 'compile_err' in native:
            return True
        return native.get('result') not in [dict(ok=w) for w in want]

    def vectors(self, case, rnd):
        sh = case_shape(case)
        n = count_names(sh)
        if case.get('spine'):
            names = [[0x61 + (i % 26), 0x30 + (i // 26)] for i in range(n)]
            picks = [names[0], names[n - 1], names[n // 2], [0x7a, 0x7a]]
            return [dict(names=names, name=p) for p in picks]
        names = [[0x61 + i] for i in range(n)]
        return [dict(names=names, name=[0x61 + rnd.randrange(n)]), dict(names=names, name=[0x7a])]

    def witness_classes(self, case, inp, out):
        return [('found', z3.BoolVal(out['res'].variant == 'Ok')), ('not_found', z3.BoolVal(out['res'].variant != 'Ok'))]

    def required_witnesses(self, tier):
        return ['found', 'not_found']
