"""C03 (mechanism): classic module::symbol_table_for_tree with NodePath::{new,add,first,rest,as_path},
compose_paths, casts and inline::is_at_capture executed from MIR; every emitted path is resolved by clvmr's
traverse_path (clvmr MIR) on a value of the shape the parameter tree describes."""
import z3
from mirsym.driver import Harness, sym_bytes, conc_bytes, ev_bytes, ev, slice_of
from mirsym.engine import (Cell, Ref, Slice, Some, NONE, Enum, Struct, Vec, Int, Big, Bool, Opaque, mkint, PathEnd, concrete)
from mirsym.models_clvm import Tree, atom_node, pair_node, nil_node
from harness.lookup import env_shapes, with_captures, count_names, sh_json, sh_from_json, spine, case_shape, flat


def build_param_tree(sh, names):
    """-> (clvm Tree of the parameter list as the classic compiler sees it, value-shaped Tree with tagged leaves, captures)"""
    caps = []
    it = iter(range(len(names)))

    def go(s):
        if s == 'L':
            i = next(it)
            return atom_node(names[i], tag=('name', i)), atom_node([mkint(0x30 + (i % 64), 'u8')], tag=i)
        if isinstance(s, tuple):
            i = next(it)
            sub, subv = go(s[1])
            form = pair_node(atom_node([mkint(0x40, 'u8')]), pair_node(atom_node(names[i], tag=('name', i)), pair_node(sub, nil_node())))
            caps.append((i, subv))
            return form, subv
        l, lv = go(s[0])
        r, rv = go(s[1])
        return pair_node(l, r), pair_node(lv, rv)
    t, v = go(sh)
    return t, v, caps


class SymbolTable(Harness):
    name = 'symbol_table'
    prop = 'C03'
    kernel = 'classic_compile_run'
    with_clvmr = True
    functions = ['stage_2::module::symbol_table_for_tree', 'stage_2::inline::is_at_capture', 'classic sexp::{non_nil,proper_list,NodeSel::select_nodes}',
                 'NodePath::{new,add,first,rest,as_path}', 'compose_paths', 'bigint_to_bytes_unsigned', 'bigint_to_bytes_clvm',
                 'bigint_from_bytes', 'get_u32', 'clvmr traverse_path (oracle, from clvmr MIR)']
    assumptions = ['parameter trees: every binary tree with the stated number of leaves, each optionally with one (@ name pattern) capture, plus right spines of the stated depths (so paths of 1..9 bytes, including four-byte paths with the top bit set around the 31st parameter)',
                   'names are identifiers of lowercase letters; the root path is 1 (program without functions), 2 or 3 (arguments next to the function table)']
    outside = 'the stage-2 compiler written in CLVM, macro expansion, inlining, build_tree layout; the classic == cl21 sentence'
    spec = {'quick': dict(leaves=3, spines=(8, 16, 31, 32, 40, 64), roots=(1, 3)),
            'thorough': dict(leaves=5, spines=(8, 16, 24, 31, 32, 33, 40, 64, 70), roots=(1, 2, 3))}
    loop_bound = 400

    def cases(self, tier):
        sp = self.spec[tier]
        seen = set()
        for root in sp['roots']:
            for sh in env_shapes(sp['leaves']):
                for v in with_captures(sh):
                    k = (root, repr(v))
                    if k in seen:
                        continue
                    seen.add(k)
                    yield dict(shape=sh_json(v), root=root)
            for n in sp['spines']:
                yield dict(shape='spine', spine=n, root=root)

    def sym_inputs(self, case):
        sh = case_shape(case)
        n = count_names(sh)
        if case.get('spine'):
            return dict(names=[conc_bytes([0x61 + (i % 26), 0x61 + (i // 26)]) for i in range(n)])
        return dict(names=[sym_bytes('n%d' % i, 1) for i in range(n)])

    def conc_inputs(self, case, j):
        return dict(names=[conc_bytes(x) for x in j['names']])

    def inputs_json(self, case, inp, model):
        return dict(names=[ev_bytes(model, x) for x in inp['names']])

    def run(self, eng, case, inp):
        sh = case_shape(case)
        for nm in inp['names']:
            for b in nm:
                if b.c is None:
                    eng.assume(z3.And(z3.UGE(b.e, 0x61), z3.ULE(b.e, 0x7a)))
        ptree, vtree, caps = build_param_tree(sh, inp['names'])
        alloc = Ref(Cell(Struct('Allocator', [])))
        root = eng.call('NodePath::new', [NONE()])
        if case['root'] == 3:
            root = eng.call('NodePath::rest', [Ref(Cell(root))])
            full = pair_node(atom_node([mkint(0x7e, 'u8')]), vtree)
        elif case['root'] == 2:
            root = eng.call('NodePath::first', [Ref(Cell(root))])
            full = pair_node(vtree, atom_node([mkint(0x7e, 'u8')]))
        else:
            full = vtree
        r = eng.call('module::symbol_table_for_tree', [alloc, ptree, Ref(Cell(root))])
        entries = []
        if r.variant == 'Ok':
            for e in r.fields[0].items:
                node, path = e.fields[0], e.fields[1]
                tr = eng.call('traverse_path', [alloc, slice_of(path.items), full])
                entries.append((node, path.items, tr))
        return dict(res=r, entries=entries, caps=caps, n=len(inp['names']))

    def obligations(self, eng, case, inp, out):
        if out['res'].variant != 'Ok':
            return [('symbol_table_is_built', z3.BoolVal(False))]
        obs = []
        seen = set()
        for node, path, tr in out['entries']:
            if not (isinstance(node, Tree) and isinstance(node.tag, tuple)):
                obs.append(('entry_names_a_parameter', z3.BoolVal(False)))
                continue
            i = node.tag[1]
            seen.add(i)
            if tr.variant != 'Ok':
                obs.append(('path_of_parameter_%d_resolves' % i, z3.BoolVal(False)))
                continue
            got = tr.fields[0].fields[1]
            ok = (got.kind == 'atom' and got.tag == i) or any(ci == i and t is got for ci, t in out['caps'])
            obs.append(('path_of_parameter_%d_selects_its_position' % i, z3.BoolVal(ok)))
            obs.append(('path_of_parameter_%d_is_canonical' % i, z3.BoolVal(not path or concrete(path[0].e) != 0)))
        obs.append(('every_parameter_has_an_entry', z3.BoolVal(seen == set(range(out['n'])))))
        return obs

    def output_json(self, eng, case, inp, out, model):
        if out['res'].variant != 'Ok':
            return dict(err=True)
        d = {}
        for node, path, tr in out['entries']:
            if isinstance(node, Tree) and isinstance(node.tag, tuple):
                d[str(node.tag[1])] = [ev(model, b.e) for b in path]
        return dict(paths=d)

    # ---- native: compile (mod ARGS name_i) with the classic compiler for one chosen parameter and run it
    def source_and_args(self, case, j, pick):
        sh = case_shape(case)
        names = [bytes(x).decode('latin1') for x in j['names']]
        it = iter(range(len(names)))
        vals = {}

        def go(s):
            if s == 'L':
                i = next(it)
                val = [100 + i] if i < 28 else [1, i]
                vals[i] = val
                return names[i], val
            if isinstance(s, tuple):
                i = next(it)
                sub, val = go(s[1])
                vals[i] = val
                return '(@ %s %s)' % (names[i], sub), val
            l, lv = go(s[0])
            r, rv = go(s[1])
            return '(%s . %s)' % (l, r), {'p': [lv, rv]}
        text, val = go(sh)
        src = '(mod %s %s)' % (text, names[pick])
        return src, val, vals[pick]

    def pick(self, case, j):
        n = len(j['names'])
        return n - 1 if case.get('spine') else (j.get('pick', n - 1) % n)

    def native_inputs(self, case, j):
        src, val, _ = self.source_and_args(case, j, self.pick(case, j))
        return dict(source=src, args=flat(val))

    def native_matches(self, case, j, native, predicted):
        if case['root'] != 1 or 'paths' not in predicted:
            return True
        c = native.get('compiled')
        want = predicted['paths'].get(str(self.pick(case, j)))
        return isinstance(c, list) and want is not None and int.from_bytes(bytes(c), 'big') == int.from_bytes(bytes(want), 'big')

    def oracle(self, case, j):
        return 'classic (mod ARGS NAME) returns the argument bound to NAME'

    def is_violation(self, case, j, native):
        if native.get('panic') or 'compile_err' in native:
            return True
        _, _, want = self.source_and_args(case, j, self.pick(case, j))
        return native.get('result') != dict(ok=want)

    def vectors(self, case, rnd):
        sh = case_shape(case)
        n = count_names(sh)
        if case.get('spine'):
            return [dict(names=[[0x61 + (i % 26), 0x61 + (i // 26)] for i in range(n)])]
        return [dict(names=[[0x61 + i] for i in range(n)], pick=k) for k in range(n)]
