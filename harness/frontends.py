"""C14 (front-end kernels): no panic edge is satisfiable in the readers/decoders on arbitrary bounded input."""
import z3
from mirsym.driver import Harness, sym_bytes, conc_bytes, ev_bytes, ev, slice_of
from mirsym.engine import (Cell, Ref, Slice, Some, NONE, Enum, Struct, Vec, Int, Opaque, mkint, PathEnd, concrete)
from mirsym.models_clvm import tree_to_json
from harness import reader, codec, text


class AssembleAny(Harness):
    """binutils::assemble (IRReader + assemble_from_ir) on every ASCII text of the stated length"""
    name = 'assemble_any'
    prop = 'C14'
    kernel = 'assemble_any'
    functions = ['binutils::assemble', 'IRReader::{new,read,backup,read_expr}', 'reader::consume_object', 'consume_cons_body',
                 'consume_quoted', 'consume_atom', 'consume_whitespace', 'interpret_atom_value', 'is_hex', 'is_dec',
                 'Bytes::new_validated', 'bigint_to_bytes_clvm', 'enlist_ir', 'assemble_from_ir', 'keyword_to_atom', 'Stream::{new,read,get_seek,set_seek}']
    assumptions = ['input is ASCII text (assemble takes &str) of the stated length, otherwise arbitrary']
    outside = 'longer inputs; non-ASCII UTF-8 text'
    lengths = {'quick': (0, 1, 2, 3), 'thorough': (0, 1, 2, 3, 4)}
    loop_bound = 400
    panic_is_violation = True

    def cases(self, tier):
        for n in self.lengths[tier]:
            yield dict(n=n)

    def sym_inputs(self, case):
        return dict(b=sym_bytes('t', case['n']))

    def conc_inputs(self, case, j):
        return dict(b=conc_bytes(j['b']))

    def inputs_json(self, case, inp, model):
        return dict(b=ev_bytes(model, inp['b']))

    def run(self, eng, case, inp):
        for b in inp['b']:
            if b.c is None:
                eng.assume(z3.ULT(b.e, 128))
        alloc = Ref(Cell(Struct('Allocator', [])))
        return eng.call('binutils::assemble', [alloc, slice_of(inp['b'])])

    def obligations(self, eng, case, inp, out):
        return [('result_or_error', z3.BoolVal(out.variant in ('Ok', 'Err')))]

    def output_json(self, eng, case, inp, out, model):
        if out.variant != 'Ok':
            return dict(err=True)
        return dict(ok=tree_to_json(model, out.fields[0], ev))

    def oracle(self, case, j):
        return 'no panic'

    def is_violation(self, case, j, native):
        return bool(native.get('panic'))

    def vectors(self, case, rnd):
        alphabet = [0x28, 0x29, 0x22, 0x27, 0x23, 0x3b, 10, 32, 0x2e, 0x5c, 0x30, 0x31, 0x2d, 0x78, 0x61, 0x71, 9, 13, 0]
        return [dict(b=[rnd.choice(alphabet) for _ in range(case['n'])]) for _ in range(8)]


class ReaderNoPanic(reader.ReaderLocs):
    name = 'parse_sexp_any'
    prop = 'C14'


class DecodeNoPanic(codec.Decode):
    name = 'sexp_from_stream_any'
    prop = 'C14'


class DisassembleNoPanic(text.ClassicText):
    name = 'disassemble_any'
    prop = 'C14'
