"""C15 / C14: the modern reader (parse_sexp -> ParsePartialResult::{new,push,finalize} -> parse_sexp_step,
make_atom, from_hex, normalize_int, enlist, make_cons, restructure_list, Srcloc::{advance,ext}, ...)
executed from MIR on every tab-free byte string of a stated length."""
import z3
from mirsym.driver import Harness, sym_bytes, conc_bytes, ev_bytes, ev
from mirsym.engine import (Cell, Ref, Some, NONE, Enum, Struct, Vec, Int, Big, Bool, Opaque, mkint, PathEnd, concrete)
from mirsym.models_vec import IterV
from harness import rich

WS = (9, 10, 11, 12, 13, 32, 0x85, 0xA0)


# ---------------------------------------------------------------- reference reader (positions only)
class RefErr(Exception):
    pass


def advance_pos(pos, c):
    line, col = pos
    if c == 10:
        return (line + 1, 1)
    return (line, col + 1)


class Reader:
    """independent statement of the surface syntax, tracking byte indices only.
    is_(i, pred) asks whether byte i satisfies a predicate (concrete or via the engine)."""
    def __init__(self, n, test):
        self.n, self.test = n, test

    def eq(self, i, c):
        return self.test(i, lambda b: b == c)

    def ws(self, i):
        return self.test(i, lambda b: z3.Or(*[b == k for k in WS]) if not isinstance(b, int) else b in WS)

    def skip(self, i):
        """skip whitespace and comments"""
        while i < self.n:
            if self.ws(i):
                i += 1
            elif self.eq(i, 0x3b):
                while i < self.n and not self.eq(i, 10):
                    i += 1
            else:
                break
        return i

    def form(self, i):
        """parse one form starting at non-space index i -> (node, next index); node:
        ('leaf', i, j) | ('list', open, close, [elems], tail or None, structured)"""
        if self.eq(i, 0x28):
            return self.list_(i, i + 1, False)
        if self.eq(i, 0x29):
            raise RefErr('close')
        if self.eq(i, 0x22) or self.eq(i, 0x27):
            q = 0x22 if self.eq(i, 0x22) else 0x27
            j = i + 1
            while True:
                if j >= self.n:
                    raise RefErr('unterminated string')
                if self.eq(j, 0x5c):
                    j += 2
                    if j > self.n:
                        raise RefErr('unterminated escape')
                    continue
                if self.eq(j, q):
                    return ('leaf', i, j + 1), j + 1
                j += 1
        if self.eq(i, 0x23) and i + 1 < self.n and self.eq(i + 1, 0x28):
            return self.list_(i, i + 2, True)
        if self.eq(i, 0x23) and i + 1 >= self.n:
            raise RefErr('unclosed structured list')
        # bareword: up to whitespace; a ')' ends it only inside a list.  Quirk mirrored from the reader:
        # the character directly after a leading '#' always joins the word (even ')').
        j = i + 1
        if self.eq(i, 0x23) and j < self.n and not self.ws(j):
            j += 1
        while j < self.n and not self.ws(j) and not (self.depth > 0 and self.eq(j, 0x29)):
            j += 1
        return ('leaf', i, j), j

    depth = 0

    def list_(self, open_i, i, structured):
        self.depth += 1
        elems, tail = [], None
        first = True
        while True:
            i = self.skip(i)
            if i >= self.n:
                raise RefErr('unterminated list')
            if self.eq(i, 0x29):
                self.depth -= 1
                return ('list', open_i, i, elems, tail, structured), i + 1
            if self.eq(i, 0x2e):
                # a dot directly followed by non-space inside a bareword position is still a dot
                if structured:
                    raise RefErr('dot in structured list')
                if first and i == (open_i + (2 if structured else 1)):
                    raise RefErr('dot directly after open paren')
                if first:
                    # quirk mirrored from the reader: "( . )" with layout before the dot reads as an empty list,
                    # anything else after a leading dot is an error
                    k = self.skip(i + 1)
                    if k < self.n and self.eq(k, 0x29):
                        self.depth -= 1
                        return ('list', open_i, k, [], ('none',), structured), k + 1
                    raise RefErr('dot as first element')
                if tail is not None or self.in_tail:
                    raise RefErr('multiple dots')
                i = self.skip(i + 1)
                if i >= self.n:
                    raise RefErr('unterminated tail')
                if self.eq(i, 0x29):
                    # "(a . )": list of what was read so far
                    self.depth -= 1
                    return ('list', open_i, i, elems, ('none',), structured), i + 1
                if self.eq(i, 0x2e):
                    raise RefErr('multiple dots')
                self.in_tail = True
                try:
                    tail, i = self.form(i)
                finally:
                    self.in_tail = False
                i = self.skip(i)
                if i >= self.n:
                    raise RefErr('unterminated tail')
                if not self.eq(i, 0x29):
                    raise RefErr('object after tail')
                self.depth -= 1
                return ('list', open_i, i, elems, tail, structured), i + 1
            first = False
            e, i = self.form(i)
            elems.append(e)

    in_tail = False

    def top(self):
        """-> list of forms, or raises RefErr.  Mirrors the documented quirk that a trailing bareword
        (unterminated at end of input) is returned alone."""
        forms = []
        i = 0
        while True:
            i = self.skip(i)
            if i >= self.n:
                return forms
            f, j = self.form(i)
            if f[0] == 'leaf' and j >= self.n and not (self.is_quoted(f)):
                return [f]
            forms.append(f)
            i = j

    def is_quoted(self, f):
        return self.eq(f[1], 0x22) or self.eq(f[1], 0x27)


def positions(bs_or_terms, test, start=(1, 1)):
    """position (line, col) of every byte index, and the end position"""
    pos = [start]
    for i in range(len(bs_or_terms)):
        nl = test(i, lambda b: b == 10)
        line, col = pos[-1]
        pos.append((line + 1, 1) if nl else (line, col + 1))
    return pos


# ---------------------------------------------------------------- comparing the real tree with the expectation
def loc_tuple(eng_ev, loc):
    """Srcloc struct -> ((line, col), (eline, ecol)) with end exclusive"""
    line = eng_ev(loc.fields[1].e)
    col = eng_ev(loc.fields[2].e)
    u = loc.fields[3]
    if u.variant == 'None':
        return (line, col), (line, col + 1)
    return (line, col), (eng_ev(u.fields[0].fields[0].e), eng_ev(u.fields[0].fields[1].e))


def loc_file(loc):
    f = loc.fields[0]
    return bytes(concrete(b.e) for b in f.v.items).decode('latin1')


def check_tree(evf, real, exp, pos, problems, path='r'):
    """real: rich value; exp: reference node"""
    v = rich.unrc(real)
    (s, e) = loc_tuple(evf, v.fields[0])
    fname = loc_file(v.fields[0])
    if exp[0] == 'leaf':
        if v.variant == 'Cons':
            problems.append((path, 'structure: expected a leaf'))
            return
        want = (pos[exp[1]], (pos[exp[2] - 1][0], pos[exp[2] - 1][1] + 1))
        if fname != '*t*' or (s, e) != want:
            problems.append((path, 'leaf location %s %s..%s, token is %s..%s' % (fname, s, e, want[0], want[1])))
        return
    _, o, c, elems, tail, structured = exp
    lo, hi = pos[o], (pos[c][0], pos[c][1] + 1)

    def within(vv, p):
        (ss, ee) = loc_tuple(evf, vv.fields[0])
        if loc_file(vv.fields[0]) != '*t*' or ss < lo or ee > hi or ee < ss:
            problems.append((p, 'list location %s..%s outside its parentheses %s..%s' % (ss, ee, lo, hi)))
    if structured:
        def rs(items, p):
            if len(items) == 1:
                return items[0]
            if not items:
                return ('nilterm',)
            mid = len(items) // 2
            return ('scons', rs(items[:mid], p), rs(items[mid:], p))
        shape = rs(elems, path)

        def walk(vv, sh, p):
            vv = rich.unrc(vv)
            if sh[0] == 'scons':
                if vv.variant != 'Cons':
                    problems.append((p, 'structure: expected cons in structured list'))
                    return
                within(vv, p)
                walk(vv.fields[1], sh[1], p + 'f')
                walk(vv.fields[2], sh[2], p + 'r')
            elif sh[0] == 'nilterm':
                if vv.variant == 'Cons':
                    problems.append((p, 'structure: expected nil'))
                else:
                    within(vv, p)
            else:
                check_tree(evf, vv, sh, pos, problems, p)
        walk(v, shape, path)
        return
    # ordinary list: right-nested conses, then tail / synthetic nil
    cur, p = v, path
    items = list(elems)
    if tail is not None and tail[0] == 'none' and len(items) == 1:
        # "(a . )" with one element is that element itself
        check_tree(evf, cur, items[0], pos, problems, p)
        return
    if not items and (tail is None or tail[0] == 'none'):
        if cur.variant == 'Cons':
            problems.append((p, 'structure: expected nil for ()'))
        elif c == o + 1:
            # the two-character token "()" is a leaf: exact extent
            want = (lo, hi)
            if (s, e) != want or fname != '*t*':
                problems.append((p, 'leaf location %s..%s, token () is %s..%s' % (s, e, lo, hi)))
        else:
            within(cur, p)      # an empty list with inner layout: its location lies within its parentheses
        return
    for k, it in enumerate(items):
        cur = rich.unrc(cur)
        last_with_tail = (k == len(items) - 1 and tail is not None and tail[0] != 'none')
        if cur.variant != 'Cons':
            problems.append((p, 'structure: expected cons'))
            return
        within(cur, p)
        check_tree(evf, cur.fields[1], it, pos, problems, p + 'f')
        if last_with_tail:
            check_tree(evf, cur.fields[2], tail, pos, problems, p + 'r')
            return
        cur, p = cur.fields[2], p + 'r'
    cur = rich.unrc(cur)
    if cur.variant == 'Cons':
        problems.append((p, 'structure: expected list terminator'))
    else:
        within(cur, p)


class ReaderLocs(Harness):
    name = 'reader_locs'
    prop = 'C15'
    kernel = 'parse'
    functions = ['sexp::parse_sexp', 'parse_sexp_inner', 'ParsePartialResult::{new,push,finalize}', 'parse_sexp_step',
                 'make_atom', 'matches_integral', 'is_hex', 'is_dec', 'normalize_int', 'from_hex', 'enlist', 'make_cons',
                 'restructure_list', 'emit/resume/error', 'Srcloc::{advance,ext,clone}', 'combine_src_location', 'add_onto',
                 'src_location_max', 'Until::from_pair', 'prims::prims']
    assumptions = ['input is tab-free (as the property states) and starts at line 1, column 1 of file *t*',
                   'bytes >= 0x80 inside decimal-looking tokens end the path as `bound` (from_utf8_lossy model is ASCII only)',
                   'decimal literals are converted by a model of BigInt::from_str_radix (digits and sign only)']
    outside = 'inputs longer than the stated length; locations attached later by the compiler'
    lengths = {'quick': (0, 1, 2, 3, 4), 'thorough': (0, 1, 2, 3, 4, 5)}
    loop_bound = 400
    max_paths = 2000000
    panic_is_violation = True
    FIRST = [('open', [0x28]), ('close', [0x29]), ('dq', [0x22]), ('sq', [0x27]), ('hash', [0x23]), ('semi', [0x3b]),
             ('nl', [10]), ('ws', [11, 12, 13, 32, 0x85, 0xA0]), ('dot', [0x2e]), ('bs', [0x5c]), ('digit', list(range(0x30, 0x3a))),
             ('minus', [0x2d]), ('x', [0x78]), ('other', None)]

    def cases(self, tier):
        for n in self.lengths[tier]:
            if n >= 5:
                for name, _ in self.FIRST:
                    for name2, _ in self.FIRST:
                        yield dict(n=n, first=name, second=name2)
            elif n >= 3:
                for name, _ in self.FIRST:
                    yield dict(n=n, first=name)
            else:
                yield dict(n=n, first=None)
        # list syntax needs a few bytes before anything interesting happens: in every tier, five bytes after an open
        # parenthesis, and "( ." / "(a ." followed by three arbitrary bytes (dotted tails with layout before the dot)
        if 5 not in self.lengths[tier]:
            for name2, _ in self.FIRST:
                yield dict(n=5, first='open', second=name2)
        for second in ('ws', 'nl', 'other', 'digit'):
            yield dict(n=6, first='open', second=second, third='dot')
            yield dict(n=6, first='open', second=second, third='ws')

    def sym_inputs(self, case):
        return dict(b=sym_bytes('b', case['n']))

    def conc_inputs(self, case, j):
        return dict(b=conc_bytes(j['b']))

    def inputs_json(self, case, inp, model):
        return dict(b=ev_bytes(model, inp['b']))

    def first_constraint(self, case, b0, key='first'):
        if case.get(key) is None:
            return z3.BoolVal(True)
        d = dict(self.FIRST)
        vals = d[case[key]]
        if vals is not None:
            return z3.Or(*[b0 == v for v in vals])
        allv = [v for _, vs in self.FIRST if vs for v in vs] + [9]
        return z3.And(*[b0 != v for v in allv])

    def run(self, eng, case, inp):
        bs = inp['b']
        for b in bs:
            eng.assume(b.e != 9)
        if bs:
            eng.assume(self.first_constraint(case, bs[0].e))
        if len(bs) > 1:
            eng.assume(self.first_constraint(case, bs[1].e, 'second'))
        if len(bs) > 2:
            eng.assume(self.first_constraint(case, bs[2].e, 'third'))
        start = rich.loc(1, 1)
        it = IterV([Cell(b) for b in bs], owned=True)
        res = eng.call('sexp::parse_sexp', [start, it])
        # reference, forking on the same symbolic bytes
        def test(i, pred):
            r = pred(bs[i].e)
            if isinstance(r, bool):
                return r
            return eng.branch_bool(r)
        rd = Reader(len(bs), test)
        try:
            forms = rd.top()
        except RefErr as e:
            forms = None
        pos = positions(bs, test)
        return dict(res=res, forms=forms, pos=pos)

    def problems(self, evf, out):
        res, forms, pos = out['res'], out['forms'], out['pos']
        probs = []
        if res.variant == 'Ok':
            vals = res.fields[0].items
            if forms is None:
                probs.append(('top', 'structure: reader accepted text the reference rejects'))
                return probs
            if len(vals) != len(forms):
                probs.append(('top', 'structure: %d forms, reference has %d' % (len(vals), len(forms))))
                return probs
            for k, (v, f) in enumerate(zip(vals, forms)):
                check_tree(evf, v, f, pos, probs, 'form%d' % k)
        else:
            if forms is not None:
                probs.append(('top', 'structure: reader rejected text the reference accepts'))
            loc = res.fields[0].fields[0]
            (s, e) = loc_tuple(evf, loc)
            end = pos[-1]
            if loc_file(loc) != '*t*' or s < (1, 1) or s > end or e > (end[0], end[1] + 1):
                probs.append(('err', 'error location %s..%s outside the text (ends at %s)' % (s, e, end)))
        return probs

    def obligations(self, eng, case, inp, out):
        probs = self.problems(lambda e: concrete(e), out)
        if not probs:
            return [('locations', z3.BoolVal(True))]
        return [(p[1][:60], z3.BoolVal(False)) for p in probs[:2]]

    def output_json(self, eng, case, inp, out, model):
        res = out['res']
        evf = lambda e: ev(model, e)

        def tj(v):
            v = rich.unrc(v)
            (s, e) = loc_tuple(evf, v.fields[0])
            d = dict(loc=[list(s), list(e)], file=loc_file(v.fields[0]))
            if v.variant == 'Cons':
                d['cons'] = [tj(v.fields[1]), tj(v.fields[2])]
            else:
                d['leaf'] = v.variant
            return d
        if res.variant == 'Ok':
            return dict(ok=[tj(v) for v in res.fields[0].items])
        loc = res.fields[0].fields[0]
        (s, e) = loc_tuple(evf, loc)
        return dict(err=dict(loc=[list(s), list(e)], file=loc_file(loc)))

    # native judgement: recompute the expectation concretely and check the native locations with the same checker
    def is_violation(self, case, j, native):
        return bool(native_problems(j['b'], native))

    def oracle(self, case, j):
        return 'token/list extents recomputed from the input bytes by the reference reader'

    def vectors(self, case, rnd):
        n = case['n']
        alphabet = [0x28, 0x29, 0x22, 0x27, 0x23, 0x3b, 10, 32, 0x2e, 0x5c, 0x30, 0x31, 0x2d, 0x78, 0x61, 0x71, 0x80]
        vs = []
        d = dict(self.FIRST)
        for _ in range(10 if not case.get('second') else 1):
            v = [rnd.choice(alphabet) for _ in range(n)]
            if n and case.get('first'):
                vals = d[case['first']]
                v[0] = rnd.choice(vals) if vals else 0x61
            if n > 1 and case.get('second'):
                vals = d[case['second']]
                v[1] = rnd.choice(vals) if vals else 0x61
            if n > 2 and case.get('third'):
                vals = d[case['third']]
                v[2] = rnd.choice(vals) if vals else 0x61
            vs.append(v)
        return [dict(b=v) for v in vs]

    def witness_classes(self, case, inp, out):
        return [('accepted', z3.BoolVal(out['res'].variant == 'Ok' and bool(out['res'].fields[0].items))),
                ('rejected', z3.BoolVal(out['res'].variant != 'Ok'))]

    def required_witnesses(self, tier):
        return ['accepted', 'rejected']


class _NLoc:
    """adapter so that check_tree can walk native JSON like rich values"""
    def __init__(self, d):
        self.d = d
        (s, e) = d['loc']
        u = NONE() if (e[0] == s[0] and e[1] == s[1] + 1) else Some(Struct('Until', [mkint(e[0], 'usize'), mkint(e[1], 'usize')]))
        fname = Cell(Vec([mkint(b, 'u8') for b in d['file'].encode('latin1')]), 'rc')
        self.loc = Struct('Srcloc', [fname, mkint(s[0], 'usize'), mkint(s[1], 'usize'), u])
        self.variant = 'Cons' if 'cons' in d else d['leaf']
        self.fields = [self.loc] + ([_NLoc(d['cons'][0]), _NLoc(d['cons'][1])] if 'cons' in d else [])


def native_problems(bs, native):
    def test(i, pred):
        r = pred(bs[i])
        return bool(r) if isinstance(r, bool) else bool(z3.is_true(z3.simplify(r)))
    rd = Reader(len(bs), test)
    try:
        forms = rd.top()
    except RefErr:
        forms = None
    pos = positions(bs, test)
    h = ReaderLocs()
    if 'ok' in native:
        res = Enum('Result', 'Ok', [Vec([_NLoc(d) for d in native['ok']])])
    elif 'err' in native:
        d = native['err']
        n = _NLoc(dict(loc=d['loc'], file=d['file'], leaf='Nil'))
        res = Enum('Result', 'Err', [Struct('()', [n.loc, Opaque('msg')])])
    else:
        return [('native', 'panic or unknown native output %r' % (native,))]
    return h.problems(lambda e: concrete(e), dict(res=res, forms=forms, pos=pos))
