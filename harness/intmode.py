"""C05 (integer-mode clause): NewStyleIntConversion::{new,drop,setting} and the two functions that create the
guard (compile_file, DefaultCompilerOpts::compile_program), executed from MIR with every other callee replaced by a
nondeterministic stub (returns Ok, returns Err, or panics) that preserves the thread-local mode."""
import re
import z3
from mirsym.driver import Harness, ev
from mirsym.engine import (Cell, Ref, Some, NONE, Enum, Struct, Vec, Int, Bool, Opaque, mkint, mkbool, PathEnd, concrete,
                           Ok, Err, UNIT)

TLS = 'NEW_COMPILATION_LEVEL_INT'


def _touched(eng):
    return any(TLS in k for k in eng.statics)


def _setting(eng):
    """the mode as the crate itself reads it (NewStyleIntConversion::setting, from MIR), whatever its storage is"""
    return eng.call('NewStyleIntConversion::setting', []).e


def _record_mode(eng, tag):
    eng.env.setdefault('seen_modes', []).append((tag, _setting(eng) if _touched(eng) else None))


def nondet_result(tag):
    def stub(eng, m, args, fr, dty):
        _record_mode(eng, tag)
        k = eng.choose([('ok', z3.BoolVal(True)), ('err', z3.BoolVal(True)), ('panic', z3.BoolVal(True))])
        if k == 'panic':
            raise PathEnd('panic', 'stub panic in ' + tag)
        if k == 'err':
            return Err(Opaque('error from ' + tag))
        return Ok(Opaque('value from ' + tag))
    return stub


def nondet_value(tag):
    def stub(eng, m, args, fr, dty):
        k = eng.choose([('ok', z3.BoolVal(True)), ('panic', z3.BoolVal(True))])
        if k == 'panic':
            raise PathEnd('panic', 'stub panic in ' + tag)
        return Opaque('value from ' + tag)
    return stub


def opaque_passthrough(eng, m, args, fr, dty):
    v = eng.deref(args[0], fr) if args else None
    if isinstance(v, Opaque):
        return Opaque('view of ' + v.what)
    return NotImplemented


def mk_stubs():
    return [
        (re.compile(r'^<(Vec|Rc|std::vec::Vec|std::rc::Rc)<.*> as (Deref|Borrow<.*>|AsRef<.*>|Clone)>::\w+$'), opaque_passthrough),
        (re.compile(r'^parse_sexp::<.*>$|^(compiler::sexp::)?parse_sexp$'), nondet_result('parse_sexp')),
        (re.compile(r'^(compiler::optimize::)?get_optimizer$'), nondet_result('get_optimizer')),
        (re.compile(r'^(compiler::compiler::)?compile_pre_forms$'), nondet_result('compile_pre_forms')),
        (re.compile(r'^CompileContextWrapper::<.*>::new$|^CompileContextWrapper::new$'), nondet_value('CompileContextWrapper::new')),
        (re.compile(r'^<DefaultCompilerOpts as Clone>::clone$'), nondet_value('DefaultCompilerOpts::clone')),
        (re.compile(r'^<Result<.*> as FromResidual<.*>>::from_residual$'), lambda eng, m, args, fr, dty: Err(Opaque('converted error'))),
        (re.compile(r'^<Rc<dyn CompilerOpts> as Deref>::deref$|^<Rc<.*> as Clone>::clone$|^Rc::<.*>::new$|^<Rc<DefaultCompilerOpts> as .*$'),
         lambda eng, m, args, fr, dty: args[0] if args else Opaque('rc')),
        (re.compile(r'^SExp::loc$|^(compiler::sexp::)?SExp::loc$|^Srcloc::start$|^<Srcloc as Clone>::clone$'),
         lambda eng, m, args, fr, dty: Opaque('srcloc')),
    ]


class GuardRestores(Harness):
    name = 'guard_restores'
    prop = 'C05'
    kernel = 'intmode'
    follow_unwind = True
    functions = ['NewStyleIntConversion::new', '<NewStyleIntConversion as Drop>::drop', 'NewStyleIntConversion::setting',
                 'compiler::compile_file', '<DefaultCompilerOpts as CompilerOpts>::compile_program']
    assumptions = ['every callee other than the guard is a stub that nondeterministically returns Ok, returns Err or panics and leaves the thread-local mode unchanged (induction hypothesis: the only functions that create a guard are the two checked here)',
                   'unwind edges of the MIR are followed, so panics inside callees are covered',
                   'the initial mode and the dialect\'s int_fix are symbolic booleans',
                   'threads case: two logical threads run new/read/drop each; the 6-step schedule is a vector of symbolic booleans; thread_local! storage is one cell per logical thread, statics are shared']
    outside = 'the fresh-name counter and hash iteration order clauses of C05 (whole compilations); more than two threads or more than one guard per thread in the interleaving case; weak memory (every atomic access is one sequentially consistent step)'

    STEPS = 3           # per thread: create the guard, read the mode, drop the guard

    def cases(self, tier):
        yield dict(fn='compile_file')
        yield dict(fn='compile_program')
        yield dict(fn='nested')
        yield dict(fn='threads')

    def sym_inputs(self, case):
        return dict(m0=z3.Bool('m0'), m1=z3.Bool('m1'), fix=z3.Bool('fix'), fix2=z3.Bool('fix2'),
                    sched=[z3.Bool('sched%d' % i) for i in range(2 * self.STEPS)])

    def conc_inputs(self, case, j):
        sched = list(j.get('sched', [])) + [False] * (2 * self.STEPS)
        return dict(m0=z3.BoolVal(j['m0']), m1=z3.BoolVal(j.get('m1', True)), fix=z3.BoolVal(j['fix']),
                    fix2=z3.BoolVal(j.get('fix2', False)), sched=[z3.BoolVal(bool(b)) for b in sched[:2 * self.STEPS]])

    def inputs_json(self, case, inp, model):
        return dict(m0=bool(ev(model, inp['m0'])), m1=bool(ev(model, inp['m1'])), fix=bool(ev(model, inp['fix'])),
                    fix2=bool(ev(model, inp['fix2'])), sched=[bool(ev(model, b)) for b in inp['sched']])

    def mode(self, eng):
        return _setting(eng) if _touched(eng) else None

    def run_threads(self, eng, inp, trace):
        """two logical threads, each: guard = new(fix_t); read the mode; drop(guard) - interleaved by a schedule that is
        an input of the query (sched[i] picks the thread of step i while both still have steps left).  Thread-locals
        are per logical thread, ordinary statics are shared, exactly as in the language."""
        fix = [inp['fix'], inp['fix2']]
        m = [inp['m0'], inp['m1']]
        init = []
        for t in (0, 1):
            eng.env['thread'] = t
            eng.call('NewStyleIntConversion::new', [Bool(m[t])])          # establishes the thread's starting mode; never dropped
            init.append(_setting(eng))
        pcs = [0, 0]
        guards = [None, None]
        i = 0
        while min(pcs) < self.STEPS or max(pcs) < self.STEPS:
            avail = [t for t in (0, 1) if pcs[t] < self.STEPS]
            if len(avail) == 1:
                t = avail[0]
            else:
                t = 1 if eng.branch_bool(inp['sched'][i]) else 0
            i += 1
            eng.env['thread'] = t
            if pcs[t] == 0:
                guards[t] = Cell(eng.call('NewStyleIntConversion::new', [Bool(fix[t])]))
            elif pcs[t] == 1:
                trace.append(('thread%d_sees_its_own_mode' % t, _setting(eng), fix[t]))
            else:
                eng.call('<NewStyleIntConversion as Drop>::drop', [Ref(guards[t])])
            pcs[t] += 1
        for t in (0, 1):
            eng.env['thread'] = t
            trace.append(('thread%d_mode_restored' % t, _setting(eng), init[t]))
        eng.env['thread'] = None

    def run(self, eng, case, inp):
        eng.env['stubs'] = mk_stubs()
        eng.env['seen_modes'] = []
        eng.env['thread'] = None
        if case['fn'] == 'threads':
            trace = []
            self.run_threads(eng, inp, trace)
            return dict(mode=None, panicked=False, trace=trace, threads=True)
        eng.call('NewStyleIntConversion::new', [Bool(inp['m0'])])          # the starting mode, set the way a caller would
        m_start = _setting(eng)
        dialect = Struct('AcceptedDialect', [NONE(), mkbool(False), Bool(inp['fix'])])

        def dyn(eng_, trait, method, args, fr):
            if method == 'dialect':
                return Struct('AcceptedDialect', [NONE(), mkbool(False), Bool(inp['fix'])])
            if method == 'filename':
                return Vec([mkint(0x2a, 'u8')])
            from mirsym.engine import Unsupported
            raise Unsupported('dyn call %s::%s in C05 harness case %s args %r' % (trait, method, case['fn'], args))
        eng.env['dyn_call'] = dyn
        panicked = False
        trace = []
        try:
            if case['fn'] == 'compile_file':
                content = Vec([])
                from mirsym.engine import Slice
                eng.call('compiler::compiler::compile_file', [Opaque('alloc'), Opaque('runner'), Opaque('opts'),
                                                             Slice(Ref(Cell(content)), 0, 0), Opaque('symtab')])
            elif case['fn'] == 'compile_program':
                # the dialect field is read as self.dialect.int_fix: find its index from the struct definition
                idx = self.dialect_index(eng)
                me = Struct('DefaultCompilerOpts', [Opaque('f%d' % i) for i in range(idx + 8)])
                me.fields[idx] = dialect
                eng.call('<DefaultCompilerOpts as CompilerOpts>::compile_program',
                         [Ref(Cell(me)), Opaque('alloc'), Opaque('runner'), Opaque('sexp'), Opaque('symtab')])
            else:
                # nested guards restore LIFO
                g1 = Cell(eng.call('NewStyleIntConversion::new', [Bool(inp['fix'])]))
                trace.append(('after_new_outer', eng.call('NewStyleIntConversion::setting', []).e, inp['fix']))
                g2 = Cell(eng.call('NewStyleIntConversion::new', [Bool(inp['fix2'])]))
                trace.append(('after_new_inner', eng.call('NewStyleIntConversion::setting', []).e, inp['fix2']))
                eng.call('<NewStyleIntConversion as Drop>::drop', [Ref(g2)])
                trace.append(('after_drop_inner', eng.call('NewStyleIntConversion::setting', []).e, inp['fix']))
                eng.call('<NewStyleIntConversion as Drop>::drop', [Ref(g1)])
        except PathEnd as p:
            if p.kind != 'panic':
                raise
            panicked = True
        for tag, mterm in eng.env.get('seen_modes', []):
            trace.append(('mode_during_' + tag, mterm if mterm is not None else z3.Not(inp['fix']), inp['fix']))
        return dict(mode=self.mode(eng), panicked=panicked, trace=trace, start=m_start)

    def dialect_index(self, eng):
        import os
        src = open(os.path.join(eng.srcroots[0], 'src/compiler/compiler.rs')).read()
        m = re.search(r'pub struct DefaultCompilerOpts \{(.*?)\n\}', src, re.S)
        names = re.findall(r'^\s*(?:pub\s+)?(\w+)\s*:', m.group(1), re.M)
        return names.index('dialect')

    def obligations(self, eng, case, inp, out):
        obs = []
        if out.get('threads'):
            return [(name, got == want) for name, got, want in out['trace']]
        if out['mode'] is None:
            # the thread-local was never touched: trivially unchanged, but then the guard was never created
            return [('guard_is_created', z3.BoolVal(False))]
        obs.append(('mode_restored_on_%s' % ('unwind' if out['panicked'] else 'return'), out['mode'] == out['start']))
        for name, got, want in out['trace']:
            obs.append((name, got == want))
        return obs

    def output_json(self, eng, case, inp, out, model):
        if out.get('threads'):
            return dict(trace=[[n, bool(ev(model, g)), bool(ev(model, w))] for n, g, w in out['trace']])
        return dict(mode_after=bool(ev(model, out['mode'])) if out['mode'] is not None else None, panicked=out['panicked'])

    def is_violation(self, case, j, native):
        if case['fn'] == 'threads':
            return not (all(native.get('sees_own', [False])) and all(native.get('restored', [False])))
        if case['fn'] == 'nested':
            return not native.get('restored', False)
        return not native.get('restored', False) or not native.get('during_ok', True)

    def oracle(self, case, j):
        return 'mode after == mode before on every exit'

    def native_matches(self, case, j, native, predicted):
        # the harness forks on stub outcomes even for concrete inputs: no concrete conformance run; the native
        # kernel is only required to have observed the mode during compilation at least once
        if case['fn'] == 'threads':
            # the model's account of the run must be the native one, whether or not the property holds on it
            if not isinstance(predicted, dict) or 'trace' not in predicted:
                return False
            tr = {n: g == w for n, g, w in predicted['trace']}
            return ([tr.get('thread%d_sees_its_own_mode' % t) for t in (0, 1)] == native.get('sees_own') and
                    [tr.get('thread%d_mode_restored' % t) for t in (0, 1)] == native.get('restored'))
        return case['fn'] == 'nested' or native.get('probes', 0) > 0

    def vectors(self, case, rnd):
        if case['fn'] == 'threads':
            # sequential schedules only: the conformance stage needs vectors on which any implementation that is right
            # on one thread behaves; interleavings are the symbolic stage's business
            return [dict(m0=a, m1=not a, fix=b, fix2=not b, sched=s) for a in (True, False) for b in (True, False)
                    for s in ([False] * 6, [True] * 6)]
        return [dict(m0=a, fix=b, fix2=False) for a in (True, False) for b in (True, False)]

    def native_sane(self, native):
        return native.get('probes', 0) > 0 or 'sees_own' in native

    def witness_classes(self, case, inp, out):
        return [('returns', z3.BoolVal(not out['panicked'])), ('unwinds', z3.BoolVal(out['panicked']))]

    def required_witnesses(self, tier):
        return ['returns']
