"""C05 (integer-mode clause): NewStyleIntConversion::{new,drop,setting} and the two functions that create the
guard (compile_file, DefaultCompilerOpts::compile_program), executed from MIR with every other callee replaced by a
nondeterministic stub (returns Ok, returns Err, or panics) that preserves the thread-local mode."""
import re
import z3
from mirsym.driver import Harness, ev
from mirsym.engine import (Cell, Ref, Some, NONE, Enum, Struct, Vec, Int, Bool, Opaque, mkint, mkbool, PathEnd, concrete,
                           Ok, Err, UNIT)

TLS = 'NEW_COMPILATION_LEVEL_INT'


def _record_mode(eng, tag):
    for k, c in eng.statics.items():
        if k.endswith(TLS):
            eng.env.setdefault('seen_modes', []).append((tag, c.v.v.e))
            return
    eng.env.setdefault('seen_modes', []).append((tag, None))


def nondet_result(tag):
    def stub(eng, m, args, fr, dty):
        _record_mode(eng, tag)
        k = eng.choose([('ok', z3.BoolVal(True)), ('err', z3.BoolVal(True)), ('panic', z3.BoolVal(True))])
        if k == 'panic':
            raise PathEnd('panic', 'stub panic in ' + tag)
        if k == 'err':
            return Err(Opaque('error from ' + tag))
        return Ok(Opaque('value from ' + tag))
    return stub


def nondet_value(tag):
    def stub(eng, m, args, fr, dty):
        k = eng.choose([('ok', z3.BoolVal(True)), ('panic', z3.BoolVal(True))])
        if k == 'panic':
            raise PathEnd('panic', 'stub panic in ' + tag)
        return Opaque('value from ' + tag)
    return stub


def opaque_passthrough(eng, m, args, fr, dty):
    v = eng.deref(args[0], fr) if args else None
    if isinstance(v, Opaque):
        return Opaque('view of ' + v.what)
    return NotImplemented


def mk_stubs():
    return [
        (re.compile(r'^<(Vec|Rc|std::vec::Vec|std::rc::Rc)<.*> as (Deref|Borrow<.*>|AsRef<.*>|Clone)>::\w+$'), opaque_passthrough),
        (re.compile(r'^parse_sexp::<.*>$|^(compiler::sexp::)?parse_sexp$'), nondet_result('parse_sexp')),
        (re.compile(r'^(compiler::optimize::)?get_optimizer$'), nondet_result('get_optimizer')),
        (re.compile(r'^(compiler::compiler::)?compile_pre_forms$'), nondet_result('compile_pre_forms')),
        (re.compile(r'^CompileContextWrapper::<.*>::new$|^CompileContextWrapper::new$'), nondet_value('CompileContextWrapper::new')),
        (re.compile(r'^<DefaultCompilerOpts as Clone>::clone$'), nondet_value('DefaultCompilerOpts::clone')),
        (re.compile(r'^<Result<.*> as FromResidual<.*>>::from_residual$'), lambda eng, m, args, fr, dty: Err(Opaque('converted error'))),
        (re.compile(r'^<Rc<dyn CompilerOpts> as Deref>::deref$|^<Rc<.*> as Clone>::clone$|^Rc::<.*>::new$|^<Rc<DefaultCompilerOpts> as .*$'),
         lambda eng, m, args, fr, dty: args[0] if args else Opaque('rc')),
        (re.compile(r'^SExp::loc$|^(compiler::sexp::)?SExp::loc$|^Srcloc::start$|^<Srcloc as Clone>::clone$'),
         lambda eng, m, args, fr, dty: Opaque('srcloc')),
    ]


class GuardRestores(Harness):
    name = 'guard_restores'
    prop = 'C05'
    kernel = 'intmode'
    follow_unwind = True
    functions = ['NewStyleIntConversion::new', '<NewStyleIntConversion as Drop>::drop', 'NewStyleIntConversion::setting',
                 'compiler::compile_file', '<DefaultCompilerOpts as CompilerOpts>::compile_program']
    assumptions = ['every callee other than the guard is a stub that nondeterministically returns Ok, returns Err or panics and leaves the thread-local mode unchanged (induction hypothesis: the only functions that create a guard are the two checked here)',
                   'unwind edges of the MIR are followed, so panics inside callees are covered',
                   'the initial mode and the dialect\'s int_fix are symbolic booleans']
    outside = 'the fresh-name counter, hash iteration order and thread clauses of C05 (whole compilations)'

    def cases(self, tier):
        yield dict(fn='compile_file')
        yield dict(fn='compile_program')
        yield dict(fn='nested')

    def sym_inputs(self, case):
        return dict(m0=z3.Bool('m0'), fix=z3.Bool('fix'), fix2=z3.Bool('fix2'))

    def conc_inputs(self, case, j):
        return dict(m0=z3.BoolVal(j['m0']), fix=z3.BoolVal(j['fix']), fix2=z3.BoolVal(j.get('fix2', False)))

    def inputs_json(self, case, inp, model):
        return dict(m0=bool(ev(model, inp['m0'])), fix=bool(ev(model, inp['fix'])), fix2=bool(ev(model, inp['fix2'])))

    def mode(self, eng):
        for k, c in eng.statics.items():
            if k.endswith(TLS):
                return c.v.v.e
        return None

    def run(self, eng, case, inp):
        eng.env['tls'] = {TLS: lambda: Cell(Bool(inp['m0']), 'refcell')}
        eng.env['stubs'] = mk_stubs()
        eng.env['seen_modes'] = []
        dialect = Struct('AcceptedDialect', [NONE(), mkbool(False), Bool(inp['fix'])])

        def dyn(eng_, trait, method, args, fr):
            if method == 'dialect':
                return Struct('AcceptedDialect', [NONE(), mkbool(False), Bool(inp['fix'])])
            if method == 'filename':
                return Vec([mkint(0x2a, 'u8')])
            raise PathEnd('unsupported', 'dyn call %s::%s in C05 harness' % (trait, method))
        eng.env['dyn_call'] = dyn
        panicked = False
        trace = []
        try:
            if case['fn'] == 'compile_file':
                content = Vec([])
                from mirsym.engine import Slice
                eng.call('compiler::compiler::compile_file', [Opaque('alloc'), Opaque('runner'), Opaque('opts'),
                                                             Slice(Ref(Cell(content)), 0, 0), Opaque('symtab')])
            elif case['fn'] == 'compile_program':
                # the dialect field is read as self.dialect.int_fix: find its index from the struct definition
                idx = self.dialect_index(eng)
                me = Struct('DefaultCompilerOpts', [Opaque('f%d' % i) for i in range(idx + 8)])
                me.fields[idx] = dialect
                eng.call('<DefaultCompilerOpts as CompilerOpts>::compile_program',
                         [Ref(Cell(me)), Opaque('alloc'), Opaque('runner'), Opaque('sexp'), Opaque('symtab')])
            else:
                # nested guards restore LIFO
                g1 = Cell(eng.call('NewStyleIntConversion::new', [Bool(inp['fix'])]))
                trace.append(('after_new_outer', eng.call('NewStyleIntConversion::setting', []).e, inp['fix']))
                g2 = Cell(eng.call('NewStyleIntConversion::new', [Bool(inp['fix2'])]))
                trace.append(('after_new_inner', eng.call('NewStyleIntConversion::setting', []).e, inp['fix2']))
                eng.call('<NewStyleIntConversion as Drop>::drop', [Ref(g2)])
                trace.append(('after_drop_inner', eng.call('NewStyleIntConversion::setting', []).e, inp['fix']))
                eng.call('<NewStyleIntConversion as Drop>::drop', [Ref(g1)])
        except PathEnd as p:
            if p.kind != 'panic':
                raise
            panicked = True
        for tag, mterm in eng.env.get('seen_modes', []):
            trace.append(('mode_during_' + tag, mterm if mterm is not None else z3.Not(inp['fix']), inp['fix']))
        return dict(mode=self.mode(eng), panicked=panicked, trace=trace)

    def dialect_index(self, eng):
        import os
        src = open(os.path.join(eng.srcroots[0], 'src/compiler/compiler.rs')).read()
        m = re.search(r'pub struct DefaultCompilerOpts \{(.*?)\n\}', src, re.S)
        names = re.findall(r'^\s*(?:pub\s+)?(\w+)\s*:', m.group(1), re.M)
        return names.index('dialect')

    def obligations(self, eng, case, inp, out):
        obs = []
        if out['mode'] is None:
            # the thread-local was never touched: trivially unchanged, but then the guard was never created
            return [('guard_is_created', z3.BoolVal(False))]
        obs.append(('mode_restored_on_%s' % ('unwind' if out['panicked'] else 'return'), out['mode'] == inp['m0']))
        for name, got, want in out['trace']:
            obs.append((name, got == want))
        return obs

    def output_json(self, eng, case, inp, out, model):
        return dict(mode_after=bool(ev(model, out['mode'])) if out['mode'] is not None else None, panicked=out['panicked'])

    def is_violation(self, case, j, native):
        if case['fn'] == 'nested':
            return not native.get('restored', False)
        return not native.get('restored', False) or not native.get('during_ok', True)

    def oracle(self, case, j):
        return 'mode after == mode before on every exit'

    def native_matches(self, case, j, native, predicted):
        # the harness forks on stub outcomes even for concrete inputs: no concrete conformance run; the native
        # kernel is only required to have observed the mode during compilation at least once
        return case['fn'] == 'nested' or native.get('probes', 0) > 0

    def vectors(self, case, rnd):
        return [dict(m0=a, fix=b, fix2=False) for a in (True, False) for b in (True, False)]

    def native_sane(self, native):
        return native.get('probes', 0) > 0

    def witness_classes(self, case, inp, out):
        return [('returns', z3.BoolVal(not out['panicked'])), ('unwinds', z3.BoolVal(out['panicked']))]

    def required_witnesses(self, tier):
        return ['returns']
