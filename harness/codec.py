"""C08: binary (de)serialisation kernels executed from MIR:
int_from_bytes, get_u32, atom_size_blob, SExpToBytesIterator, sexp_to_stream, OpReadSexp/OpCons,
sexp_from_stream, atom_from_stream, Stream::{new,read,write}, Bytes::*, to_sexp_type."""
import z3
from mirsym.driver import Harness, sym_bytes, conc_bytes, ev_bytes, ev, slice_of, unsigned_of
from mirsym.engine import (Cell, Ref, Some, NONE, Enum, Struct, Vec, Int, Opaque, mkint, PathEnd, concrete)
from mirsym.models_clvm import Tree, atom_node, pair_node, nil_node, tree_to_json, tree_from_json


# ---------------------------------------------------------------- int_from_bytes
class IntFromBytes(Harness):
    name = 'int_from_bytes'
    prop = 'C08'
    kernel = 'int_from_bytes'
    functions = ['casts::int_from_bytes', '__type_compatibility__::get_u32', 'Bytes::{new,length,raw}']
    assumptions = ['unsigned conversion (option None), the form atom_from_stream uses']
    outside = 'signed conversion option'
    panic_is_violation = True

    def cases(self, tier):
        for n in range(0, 10):
            yield dict(n=n)

    def sym_inputs(self, case):
        return dict(b=sym_bytes('b', case['n']))

    def conc_inputs(self, case, j):
        return dict(b=conc_bytes(j['b']))

    def inputs_json(self, case, inp, model):
        return dict(b=ev_bytes(model, inp['b']))

    def run(self, eng, case, inp):
        bytes_ = Struct('Bytes', [Vec(list(inp['b']))])
        return eng.call('casts::int_from_bytes', [bytes_, NONE()])

    def obligations(self, eng, case, inp, out):
        if case['n'] > 8:
            return [('too_long_is_error', z3.BoolVal(out.variant == 'Err'))]
        if out.variant != 'Ok':
            return [('fits_is_ok', z3.BoolVal(False))]
        return [('big_endian_value', out.fields[0].e == unsigned_of(inp['b'], 64))]

    def output_json(self, eng, case, inp, out, model):
        if out.variant != 'Ok':
            return dict(err=True)
        return dict(ok=ev(model, out.fields[0].e))

    def oracle(self, case, j):
        if len(j['b']) > 8:
            return dict(err=True)
        return dict(ok=int.from_bytes(bytes(j['b']), 'big'))

    def vectors(self, case, rnd):
        n = case['n']
        vs = [[0] * n, [0xff] * n, list(range(1, n + 1))]
        for _ in range(3):
            vs.append([rnd.randrange(256) for _ in range(n)])
        return [dict(b=v) for v in vs]


# ---------------------------------------------------------------- reference format (symbolic, forking through the engine)
class RefErr(Exception):
    pass


def ref_decode(eng, items, pos=0, depth=0):
    """reference decoder of the CLVM serialisation format over symbolic bytes; forks with eng.branch_bool.
    -> (tree as nested ('atom', [byte terms]) / ('pair', l, r), next position); raises RefErr"""
    if pos >= len(items):
        raise RefErr('eof')
    b = items[pos].e
    pos += 1
    if eng.branch_bool(b == 0xff):
        l, pos = ref_decode(eng, items, pos, depth + 1)
        r, pos = ref_decode(eng, items, pos, depth + 1)
        return ('pair', l, r), pos
    if eng.branch_bool(b == 0x80):
        return ('atom', []), pos
    if eng.branch_bool(z3.ULT(b, 0x80)):
        return ('atom', [items[pos - 1]]), pos
    # number of size bytes = number of leading one bits
    if eng.branch_bool(z3.ULT(b, 0xc0)):
        k, mask = 1, 0x3f
    elif eng.branch_bool(z3.ULT(b, 0xe0)):
        k, mask = 2, 0x1f
    elif eng.branch_bool(z3.ULT(b, 0xf0)):
        k, mask = 3, 0x0f
    elif eng.branch_bool(z3.ULT(b, 0xf8)):
        k, mask = 4, 0x07
    elif eng.branch_bool(z3.ULT(b, 0xfc)):
        k, mask = 5, 0x03
    elif eng.branch_bool(z3.ULT(b, 0xfe)):
        k, mask = 6, 0x01          # the consensus decoder accepts a six-byte size field (value still < 2^34)
    else:
        raise RefErr('bad prefix')
    if pos + (k - 1) > len(items):
        raise RefErr('truncated size')
    size = z3.ZeroExt(56, b & mask)
    for i in range(k - 1):
        size = (size << 8) | z3.ZeroExt(56, items[pos + i].e)
    pos += k - 1
    if eng.branch_bool(z3.UGE(size, 0x400000000)):
        raise RefErr('size too large')
    remaining = len(items) - pos
    # concretise size over the feasible range
    for s in range(0, remaining + 1):
        if eng.branch_bool(size == s):
            return ('atom', list(items[pos:pos + s])), pos + s
    raise RefErr('size exceeds input')


def same_tree(t, ref):
    """real result Tree vs reference tuple tree -> z3 formula"""
    if ref[0] == 'pair':
        if t.kind != 'pair':
            return z3.BoolVal(False)
        return z3.And(same_tree(t.a, ref[1]), same_tree(t.b, ref[2]))
    if t.kind != 'atom' or len(t.atom) != len(ref[1]):
        return z3.BoolVal(False)
    if not ref[1]:
        return z3.BoolVal(True)
    return z3.And(*[x.e == y.e for x, y in zip(t.atom, ref[1])])


def py_decode(bs, pos=0):
    if pos >= len(bs):
        raise ValueError('eof')
    b = bs[pos]; pos += 1
    if b == 0xff:
        l, pos = py_decode(bs, pos)
        r, pos = py_decode(bs, pos)
        return {'p': [l, r]}, pos
    if b == 0x80:
        return [], pos
    if b < 0x80:
        return [b], pos
    if b < 0xc0: k, mask = 1, 0x3f
    elif b < 0xe0: k, mask = 2, 0x1f
    elif b < 0xf0: k, mask = 3, 0x0f
    elif b < 0xf8: k, mask = 4, 0x07
    elif b < 0xfc: k, mask = 5, 0x03
    elif b < 0xfe: k, mask = 6, 0x01
    else: raise ValueError('bad prefix')
    if pos + k - 1 > len(bs):
        raise ValueError('truncated')
    size = b & mask
    for i in range(k - 1):
        size = (size << 8) | bs[pos + i]
    pos += k - 1
    if size >= 0x400000000 or size > len(bs) - pos:
        raise ValueError('short')
    return list(bs[pos:pos + size]), pos + size


def py_encode(t):
    if isinstance(t, dict):
        return [0xff] + py_encode(t['p'][0]) + py_encode(t['p'][1])
    n = len(t)
    if n == 0:
        return [0x80]
    if n == 1 and t[0] < 0x80:
        return [t[0]]
    if n < 0x40: pre = [0x80 | n]
    elif n < 0x2000: pre = [0xc0 | (n >> 8), n & 0xff]
    elif n < 0x100000: pre = [0xe0 | (n >> 16), (n >> 8) & 0xff, n & 0xff]
    elif n < 0x8000000: pre = [0xf0 | (n >> 24), (n >> 16) & 0xff, (n >> 8) & 0xff, n & 0xff]
    else: pre = [0xf8 | (n >> 32), (n >> 24) & 0xff, (n >> 16) & 0xff, (n >> 8) & 0xff, n & 0xff]
    return pre + list(t)


def mk_stream(eng, items):
    b = eng.call('Bytes::new', [Some(Enum('BytesFromType', 'Raw', [Vec(list(items))]))])
    return eng.call('Stream::new', [Some(b)])


# ---------------------------------------------------------------- decoder
class Decode(Harness):
    """sexp_from_stream on every byte string of the stated length vs the reference decoder of the format"""
    name = 'decode'
    prop = 'C08'
    kernel = 'decode'
    functions = ['serialize::sexp_from_stream', 'OpReadSexp::invoke', 'OpCons::invoke', 'serialize::atom_from_stream',
                 'casts::int_from_bytes', 'get_u32', 'Stream::{new,read}', 'Bytes::{new,length,at,concat,data,raw}',
                 'SimpleCreateCLVMObject::invoke', 'sexp::to_sexp_type']
    assumptions = ['reference = the format comment at the top of serialize.rs / clvmr serde (checked against clvmr natively on every vector and counterexample)',
                   'trailing bytes after one complete object are ignored by both decoders']
    outside = 'inputs longer than the stated length (so no valid atom >= 0x40 bytes); see long_prefix for the long length classes'
    lengths = {'quick': range(0, 5), 'thorough': range(0, 7)}
    loop_bound = 400

    def cases(self, tier):
        for n in self.lengths[tier]:
            yield dict(n=n)
        # the longest size fields: first byte 0xf8..0xfe with all size bytes present
        for n, lo in ((6, 0xf8), (7, 0xfc), (8, 0xfe)):
            if n not in self.lengths[tier]:
                yield dict(n=n, first_ge=lo)

    def sym_inputs(self, case):
        return dict(b=sym_bytes('b', case['n']))

    def conc_inputs(self, case, j):
        return dict(b=conc_bytes(j['b']))

    def inputs_json(self, case, inp, model):
        return dict(b=ev_bytes(model, inp['b']))

    def run(self, eng, case, inp):
        if case.get('first_ge') and inp['b'][0].c is None:
            eng.assume(z3.And(z3.UGE(inp['b'][0].e, case['first_ge']), inp['b'][0].e != 0xff))
        stream = mk_stream(eng, inp['b'])
        alloc = Ref(Cell(Struct('Allocator', [])))
        res = eng.call('serialize::sexp_from_stream', [alloc, Ref(Cell(stream)), Cell(Struct('SimpleCreateCLVMObject', []), 'box')])
        try:
            ref, _ = ref_decode(eng, inp['b'])
        except RefErr as e:
            ref = None
        return dict(res=res, ref=ref)

    def obligations(self, eng, case, inp, out):
        res, ref = out['res'], out['ref']
        if res.variant == 'Ok':
            if ref is None:
                return [('ok_only_if_reference_ok', z3.BoolVal(False))]
            node = res.fields[0].fields[1]        # Reduction(cost, node)
            return [('same_value_as_reference', same_tree(node, ref))]
        # tools error: the reference must also reject (the tools decoder accepts exactly the format)
        return [('error_only_if_reference_error', z3.BoolVal(ref is None))]

    def output_json(self, eng, case, inp, out, model):
        res = out['res']
        if res.variant != 'Ok':
            return dict(err=True)
        return dict(ok=tree_to_json(model, res.fields[0].fields[1], ev))

    def oracle(self, case, j):
        try:
            return dict(ok=py_decode(j['b'])[0])
        except ValueError:
            return dict(err=True)

    def native_matches(self, case, j, native, predicted):
        return native.get('tools') == predicted

    def is_violation(self, case, j, native):
        # consensus decoder is the judge; the python reference must agree with it (else the harness is wrong)
        return native.get('tools') != native.get('clvmr')

    def vectors(self, case, rnd):
        n = case['n']
        vs = []
        for _ in range(12):
            v = [rnd.choice([0xff, 0x80, 0x81, 0x82, 1, 0x7f, 0xc0, 0xe0, 0xf0, 0xf8, 0xfc, 0, rnd.randrange(256)]) for _ in range(n)]
            if case.get('first_ge'):
                v[0] = rnd.randrange(case['first_ge'], 0xff)
                v[1:] = [rnd.choice([0, 0, 0, 1]) for _ in range(n - 1)]
            vs.append(v)
        return [dict(b=v) for v in vs]

    def witness_classes(self, case, inp, out):
        w = [('tools_ok', z3.BoolVal(out['res'].variant == 'Ok')), ('tools_err', z3.BoolVal(out['res'].variant != 'Ok'))]
        if out['res'].variant == 'Ok':
            node = out['res'].fields[0].fields[1]
            w.append(('pair', z3.BoolVal(node.kind == 'pair')))
            w.append(('long_atom', z3.BoolVal(node.kind == 'atom' and len(node.atom) >= 2)))
        return w

    def required_witnesses(self, tier):
        return ['tools_ok', 'tools_err', 'pair', 'long_atom']


# ---------------------------------------------------------------- encoder + round trip
def shapes(nleaves):
    if nleaves == 1:
        yield 'L'
        return
    for k in range(1, nleaves):
        for l in shapes(k):
            for r in shapes(nleaves - k):
                yield [l, r]


def count_leaves(sh):
    return 1 if sh == 'L' else count_leaves(sh[0]) + count_leaves(sh[1])


def length_tuples(k, lens):
    if k == 0:
        yield []
        return
    for l in lens:
        for rest in length_tuples(k - 1, lens):
            yield [l] + rest


def build_tree(shape, leaves):
    """leaves: iterator of byte-term lists"""
    if shape == 'L':
        return atom_node(next(leaves))
    return pair_node(build_tree(shape[0], leaves), build_tree(shape[1], leaves))


def json_tree(shape, leaves):
    if shape == 'L':
        return list(next(leaves))
    return {'p': [json_tree(shape[0], leaves), json_tree(shape[1], leaves)]}


def ref_encode(eng, t):
    """reference encoding of a Tree with symbolic atoms -> list of z3 8-bit terms (forks on 1-byte atoms)"""
    if t.kind == 'pair':
        return [z3.BitVecVal(0xff, 8)] + ref_encode(eng, t.a) + ref_encode(eng, t.b)
    n = len(t.atom)
    if n == 0:
        return [z3.BitVecVal(0x80, 8)]
    if n == 1 and eng.branch_bool(z3.ULT(t.atom[0].e, 0x80)):
        return [t.atom[0].e]
    pre = py_encode([0xff] * n)[:-n]
    return [z3.BitVecVal(x, 8) for x in pre] + [b.e for b in t.atom]


def tree_eq(a, b):
    if a.kind != b.kind:
        return z3.BoolVal(False)
    if a.kind == 'pair':
        return z3.And(tree_eq(a.a, b.a), tree_eq(a.b, b.b))
    if len(a.atom) != len(b.atom):
        return z3.BoolVal(False)
    if not a.atom:
        return z3.BoolVal(True)
    return z3.And(*[x.e == y.e for x, y in zip(a.atom, b.atom)])


class EncodeRoundTrip(Harness):
    """sexp_to_stream(tree) == reference bytes, and sexp_from_stream(those bytes) == tree"""
    name = 'encode_roundtrip'
    prop = 'C08'
    kernel = 'encode'
    functions = ['serialize::sexp_to_stream', 'SExpToBytesIterator::{new,next}', 'serialize::atom_size_blob',
                 'Stream::{new,write,re_allocate,get_value,read}', 'serialize::sexp_from_stream', 'serialize::atom_from_stream']
    assumptions = ['trees of the stated shapes; atoms of the stated lengths with arbitrary content']
    outside = 'atoms longer than the stated lengths (prefix classes beyond 1 byte are decided by atom_size_blob / long_prefix harnesses)'
    loop_bound = 2000
    spec = {'quick': dict(leaves=(1, 2, 3), lens=(0, 1, 2)), 'thorough': dict(leaves=(1, 2, 3, 4), lens=(0, 1, 2, 3))}
    big = {'quick': [63, 64], 'thorough': [63, 64, 65, 130]}

    def cases(self, tier):
        sp = self.spec[tier]
        for k in sp['leaves']:
            for sh in shapes(k):
                for lt in length_tuples(k, sp['lens']):
                    yield dict(shape=sh, lens=lt)
        for n in self.big[tier]:
            yield dict(shape='L', lens=[n])
            yield dict(shape=['L', 'L'], lens=[n, 1])

    def sym_inputs(self, case):
        return dict(leaves=[sym_bytes('l%d' % i, n) for i, n in enumerate(case['lens'])])

    def conc_inputs(self, case, j):
        return dict(leaves=[conc_bytes(x) for x in j['leaves']])

    def inputs_json(self, case, inp, model):
        return dict(leaves=[ev_bytes(model, x) for x in inp['leaves']])

    def run(self, eng, case, inp):
        tree = build_tree(case['shape'], iter(inp['leaves']))
        alloc = Ref(Cell(Struct('Allocator', [])))
        stream = Cell(eng.call('Stream::new', [NONE()]))
        eng.call('serialize::sexp_to_stream', [alloc, tree, Ref(stream)])
        val = eng.call('Stream::get_value', [Ref(stream)])
        got = val.fields[0].items
        ref = ref_encode(eng, tree)
        # decode what was written
        s2 = Cell(mk_stream(eng, got))
        back = eng.call('serialize::sexp_from_stream', [alloc, Ref(s2), Cell(Struct('SimpleCreateCLVMObject', []), 'box')])
        return dict(tree=tree, got=got, ref=ref, back=back)

    def obligations(self, eng, case, inp, out):
        got, ref = out['got'], out['ref']
        obs = []
        if len(got) != len(ref):
            obs.append(('canonical_bytes', z3.BoolVal(False)))
        else:
            obs.append(('canonical_bytes', z3.And(*[g.e == r for g, r in zip(got, ref)])))
        back = out['back']
        if back.variant != 'Ok':
            obs.append(('round_trip', z3.BoolVal(False)))
        else:
            obs.append(('round_trip', tree_eq(back.fields[0].fields[1], out['tree'])))
        return obs

    def output_json(self, eng, case, inp, out, model):
        back = out['back']
        return dict(bytes=ev_bytes(model, out['got']),
                    back=dict(ok=tree_to_json(model, back.fields[0].fields[1], ev)) if back.variant == 'Ok' else dict(err=True))

    def oracle(self, case, j):
        t = json_tree(case['shape'], iter(j['leaves']))
        return dict(bytes=py_encode(t), back=dict(ok=t))

    def native_matches(self, case, j, native, predicted):
        return native.get('bytes') == predicted.get('bytes') and native.get('back') == predicted.get('back')

    def is_violation(self, case, j, native):
        t = json_tree(case['shape'], iter(j['leaves']))
        return native.get('bytes') != native.get('clvmr_bytes') or native.get('back') != dict(ok=t)

    def vectors(self, case, rnd):
        vs = []
        for _ in range(3):
            vs.append(dict(leaves=[[rnd.choice([0, 0x7f, 0x80, 0xff, rnd.randrange(256)]) for _ in range(n)] for n in case['lens']]))
        return vs


def ref_prefix(s):
    """reference length prefix for an atom of symbolic size s (64-bit term, s >= 2) -> (len term 8 bit, [5 byte terms])"""
    B = lambda e: z3.Extract(7, 0, e)
    c1 = [B(s | 0x80)]
    c2 = [B(z3.LShR(s, 8) | 0xc0), B(s)]
    c3 = [B(z3.LShR(s, 16) | 0xe0), B(z3.LShR(s, 8)), B(s)]
    c4 = [B(z3.LShR(s, 24) | 0xf0), B(z3.LShR(s, 16)), B(z3.LShR(s, 8)), B(s)]
    c5 = [B(z3.LShR(s, 32) | 0xf8), B(z3.LShR(s, 24)), B(z3.LShR(s, 16)), B(z3.LShR(s, 8)), B(s)]
    conds = [z3.ULT(s, 0x40), z3.ULT(s, 0x2000), z3.ULT(s, 0x100000), z3.ULT(s, 0x8000000)]
    ln = z3.If(conds[0], z3.BitVecVal(1, 8), z3.If(conds[1], z3.BitVecVal(2, 8), z3.If(conds[2], z3.BitVecVal(3, 8),
               z3.If(conds[3], z3.BitVecVal(4, 8), z3.BitVecVal(5, 8)))))
    out = []
    z = z3.BitVecVal(0, 8)
    for i in range(5):
        alts = [c[i] if i < len(c) else z for c in (c1, c2, c3, c4, c5)]
        out.append(z3.If(conds[0], alts[0], z3.If(conds[1], alts[1], z3.If(conds[2], alts[2], z3.If(conds[3], alts[3], alts[4])))))
    return ln, out


class AtomSizeBlob(Harness):
    """atom_size_blob for an atom of *symbolic* length s (2 <= s < 2^63): prefix == reference for every s < 2^34, error above"""
    name = 'atom_size_blob'
    prop = 'C08'
    kernel = None
    functions = ['serialize::atom_size_blob', 'Bytes::{length,at,data}']
    assumptions = ['atom length is a symbolic 64-bit value >= 2 (lengths 0 and 1 are covered with concrete lengths by encode_roundtrip); contents are never read by atom_size_blob for such lengths']
    outside = 'the copy of the atom body into the stream for long atoms (a plain Vec copy)'

    def cases(self, tier):
        yield dict()

    def sym_inputs(self, case):
        return dict(s=Int(z3.BitVec('size', 64), 64, False))

    def conc_inputs(self, case, j):
        return dict(s=mkint(j['s'], 'usize'))

    def inputs_json(self, case, inp, model):
        return dict(s=ev(model, inp['s'].e))

    def run(self, eng, case, inp):
        s = inp['s']
        eng.assume(z3.And(z3.UGE(s.e, 2), z3.ULT(s.e, 1 << 63)))
        b = Struct('Bytes', [Vec([], symlen=s)])
        return eng.call('serialize::atom_size_blob', [Ref(Cell(b))])

    def obligations(self, eng, case, inp, out):
        s = inp['s'].e
        if out.variant != 'Ok':
            return [('error_only_if_unrepresentable', z3.UGE(s, 0x400000000))]
        flag, blob = out.fields[0].fields
        ln, ref = ref_prefix(s)
        items = blob.items
        obs = [('representable', z3.ULT(s, 0x400000000)), ('body_follows', flag.e),
               ('prefix_length', ln == len(items))]
        obs.append(('prefix_bytes', z3.And(*[items[i].e == ref[i] for i in range(len(items))]) if items else z3.BoolVal(False)))
        return obs

    def output_json(self, eng, case, inp, out, model):
        if out.variant != 'Ok':
            return dict(err=True)
        return dict(prefix=ev_bytes(model, out.fields[0].fields[1].items))

    def witness_classes(self, case, inp, out):
        s = inp['s'].e
        return [('class1', z3.ULT(s, 0x40)), ('class2', z3.And(z3.UGE(s, 0x40), z3.ULT(s, 0x2000))),
                ('class3', z3.And(z3.UGE(s, 0x2000), z3.ULT(s, 0x100000))),
                ('class4', z3.And(z3.UGE(s, 0x100000), z3.ULT(s, 0x8000000))),
                ('class5', z3.And(z3.UGE(s, 0x8000000), z3.ULT(s, 0x400000000)))]

    def required_witnesses(self, tier):
        return ['class1', 'class2', 'class3', 'class4', 'class5']
