"""C03/C04 path arithmetic kernels: NodePath::{new,add,first,rest,as_path}, compose_paths,
number_from_u8, bigint_to_bytes_clvm, bigint_from_bytes, get_u32, bigint_to_bytes_unsigned —
executed from their MIR on symbolic path atoms."""
import z3
from mirsym.driver import Harness, sym_bytes, conc_bytes, ev_bytes, slice_of, unsigned_of
from mirsym.engine import Cell, Ref, Some, NONE, Enum, Struct, Vec, Int


def smear(x, w):
    s = 1
    while s < w:
        x = x | z3.LShR(x, s)
        s *= 2
    return x


def top_bit(x, w):
    sm = smear(x, w)
    return sm ^ z3.LShR(sm, 1)


def py_step(n, op):
    """reference: path n (>=1) followed by one first/rest step"""
    top = 1 << (n.bit_length() - 1)
    return n + top if op == 'first' else n + 2 * top


class PathStep(Harness):
    """(f N) => N', (r N) => N'  as done by path_optimizer:
    NodePath::new(Some(number_from_u8(atom))).add(NodePath::new(None).first()|rest()).as_path()"""
    name = 'path_step'
    prop = 'C04'
    kernel = 'nodepath'
    functions = ['util::number_from_u8', 'NodePath::new', 'NodePath::add', 'NodePath::first', 'NodePath::rest',
                 'NodePath::as_path', 'compose_paths', 'bigint_to_bytes_clvm', 'bigint_from_bytes', 'get_u32',
                 'bigint_to_bytes_unsigned']
    assumptions = ['path atom is an arbitrary byte string of the stated length; atoms whose unsigned value is 0 carry no obligation ((f 0)/(r 0) never return a value)']
    outside = 'path atoms longer than the stated length; the rule driver optimize_sexp_ (only replayed natively)'
    lengths = {'quick': range(1, 10), 'thorough': range(1, 18)}
    bigw = {'quick': 136, 'thorough': 200}
    loop_bound = 160

    def cases(self, tier):
        for op in ('first', 'rest'):
            for n in self.lengths[tier]:
                yield dict(op=op, n=n)

    def sym_inputs(self, case):
        return dict(atom=sym_bytes('a', case['n']))

    def conc_inputs(self, case, j):
        return dict(atom=conc_bytes(j['atom']))

    def inputs_json(self, case, inp, model):
        return dict(atom=ev_bytes(model, inp['atom']))

    def run(self, eng, case, inp):
        num = eng.call('number_from_u8', [slice_of(inp['atom'])])
        base = eng.call('NodePath::new', [Some(num)])
        unit = eng.call('NodePath::new', [NONE()])
        step = eng.call('NodePath::' + case['op'], [Ref(Cell(unit))])
        node = eng.call('NodePath::add', [Ref(Cell(base)), step])
        out = eng.call('NodePath::as_path', [Ref(Cell(node))])
        return out.fields[0]          # Bytes { _b: Vec<u8> }

    def obligations(self, eng, case, inp, out):
        w = 8 * case['n'] + 16
        n = unsigned_of(inp['atom'], w)
        if 8 * len(out.items) > w:
            return [('step_value', n == 0)]
        got = unsigned_of(out.items, w)
        top = top_bit(n, w)
        exp = n + top if case['op'] == 'first' else n + 2 * top
        return [('step_value', z3.Or(n == 0, got == exp))]

    def output_json(self, eng, case, inp, out, model):
        return dict(path=ev_bytes(model, out.items))

    def native_matches(self, case, j, native, predicted):
        return native.get('path') == predicted.get('path')

    def oracle(self, case, j):
        n = int.from_bytes(bytes(j['atom']), 'big')
        if n == 0:
            return None
        return py_step(n, case['op'])

    def is_violation(self, case, j, native):
        exp = self.oracle(case, j)
        if exp is None:
            return False
        opt = native.get('optimized')
        if not isinstance(opt, list):
            return True
        return int.from_bytes(bytes(opt), 'big') != exp

    def vectors(self, case, rnd):
        n = case['n']
        vs = [[0] * n, [0xff] * n, [0x80] + [0] * (n - 1), [0x7f] + [0xff] * (n - 1), [1] + [0] * (n - 1),
              [0] * (n - 1) + [1], [0xff] * (n - 1) + [0x80]]
        for _ in range(4):
            vs.append([rnd.randrange(256) for _ in range(n)])
        return [dict(atom=v) for v in vs]

    def witness_classes(self, case, inp, out):
        a = inp['atom']
        return [('top_bit_set', z3.UGE(a[0].e, 0x80)), ('top_bit_clear_nonzero', z3.And(z3.ULT(a[0].e, 0x80), a[0].e != 0)),
                ('leading_zero', a[0].e == 0)]

    def required_witnesses(self, tier):
        return ['top_bit_set', 'top_bit_clear_nonzero', 'leading_zero']

    classes = {
        # F2: negative-looking atoms with redundant sign extension bytes
        'sign_extended_negative': lambda case, inp: (z3.And(inp['atom'][0].e == 0xff, z3.UGE(inp['atom'][1].e, 0x80))
                                                     if len(inp['atom']) > 1 else z3.BoolVal(False)),
    }


from mirsym.models_clvm import Tree, atom_node, pair_node, nil_node, tree_to_json, tree_from_json
from mirsym.models_hash import MapV
from mirsym.driver import ev
from mirsym.engine import Opaque, mkint


class PathOptimizer(Harness):
    """the real path_optimizer (with match_sexp, unify_bindings, atom, NodePath...) on (OP ATOM):
    OP one symbolic byte, ATOM n symbolic bytes.  Only `assemble` of the two constant patterns is
    evaluated natively."""
    name = 'path_optimizer'
    prop = 'C04'
    kernel = 'path_optimizer'
    functions = ['stage_2::optimize::path_optimizer', 'pattern_match::match_sexp', 'pattern_match::unify_bindings',
                 'classic::clvm::sexp::atom', 'NodePath::new', 'NodePath::add', 'NodePath::first', 'NodePath::rest',
                 'NodePath::as_path', 'compose_paths', 'bigint_to_bytes_unsigned', 'Bytes::*']
    assumptions = ['(f N)/(r N) with unsigned value of N = 0 carry no obligation (they never return a value)',
                   'assemble() of the two constant pattern strings is evaluated natively, not symbolically']
    outside = 'path atoms longer than the stated length; the rule driver optimize_sexp_ (replayed natively only)'
    lengths = {'quick': range(0, 10), 'thorough': range(0, 18)}
    bigw = {'quick': 136, 'thorough': 200}
    loop_bound = 160

    def cases(self, tier):
        for n in self.lengths[tier]:
            yield dict(n=n)

    def sym_inputs(self, case):
        return dict(op=sym_bytes('op', 1), atom=sym_bytes('a', case['n']))

    def conc_inputs(self, case, j):
        return dict(op=conc_bytes(j['op']), atom=conc_bytes(j['atom']))

    def inputs_json(self, case, inp, model):
        return dict(op=ev_bytes(model, inp['op']), atom=ev_bytes(model, inp['atom']))

    def run(self, eng, case, inp):
        r = pair_node(atom_node(inp['op']), pair_node(atom_node(inp['atom']), nil_node()))
        alloc = Ref(Cell(Struct('Allocator', [])))
        memo = Ref(Cell(Cell(MapV(), 'refcell')))
        res = eng.call('optimize::path_optimizer', [alloc, memo, r, Opaque('eval_f')])
        return dict(r=r, res=res)

    def obligations(self, eng, case, inp, out):
        res = out['res']
        if res.variant != 'Ok':
            return [('optimizer_accepts', z3.BoolVal(False))]
        t = res.fields[0]
        op = inp['op'][0].e
        is_step = z3.Or(op == 5, op == 6)
        if t is out['r']:
            # unchanged: only allowed when it is not (f N)/(r N) ... or N == 0
            w = 8 * case['n'] + 16
            return [('unchanged_only_if_not_step', z3.Not(is_step))]
        if t.kind != 'atom':
            return [('result_is_atom', z3.BoolVal(False))]
        w = 8 * max(case['n'], len(t.atom)) + 16
        n = unsigned_of(inp['atom'], w)
        got = unsigned_of(t.atom, w)
        top = top_bit(n, w)
        exp = z3.If(op == 5, n + top, n + 2 * top)
        return [('rewritten_only_if_step', is_step), ('step_value', z3.Or(n == 0, got == exp))]

    def output_json(self, eng, case, inp, out, model):
        res = out['res']
        if res.variant != 'Ok':
            return dict(err=True)
        return dict(ok=tree_to_json(model, res.fields[0], ev))

    def oracle(self, case, j):
        n = int.from_bytes(bytes(j['atom']), 'big')
        op = j['op'][0]
        if op not in (5, 6):
            return dict(ok={'p': [j['op'], {'p': [j['atom'], []]}]})
        if n == 0:
            return None
        return dict(value=py_step(n, 'first' if op == 5 else 'rest'))

    def is_violation(self, case, j, native):
        exp = self.oracle(case, j)
        if exp is None:
            return False
        opt = native.get('optimize_sexp')
        if 'ok' in exp:
            return opt != exp
        if not isinstance(opt, dict) or not isinstance(opt.get('ok'), list):
            return True
        return int.from_bytes(bytes(opt['ok']), 'big') != exp['value']

    def native_matches(self, case, j, native, predicted):
        return native.get('optimize_sexp') == predicted

    def vectors(self, case, rnd):
        n = case['n']
        vs = [[0] * n, [0xff] * n]
        if n:
            vs += [[0x80] + [0] * (n - 1), [0x7f] + [0xff] * (n - 1), [1] + [0] * (n - 1), [0] * (n - 1) + [1],
                   [0xff] * (n - 1) + [0x80]]
        for _ in range(3):
            vs.append([rnd.randrange(256) for _ in range(n)])
        out = []
        for v in vs:
            if not any(v):
                continue        # (f 0): optimize_sexp as a whole folds it to an error; not comparable
            for op in (5, 6):
                out.append(dict(op=[op], atom=v))
        if n and any(vs[-1]):
            out.append(dict(op=[7], atom=vs[-1]))
        return out

    def witness_classes(self, case, inp, out):
        op = inp['op'][0].e
        w = [('op_first', op == 5), ('op_rest', op == 6), ('op_other', z3.And(op != 5, op != 6))]
        if case['n'] > 0:
            a = inp['atom']
            w += [('top_bit_set', z3.UGE(a[0].e, 0x80)), ('leading_zero', a[0].e == 0)]
        return w

    def required_witnesses(self, tier):
        return ['op_first', 'op_rest', 'op_other', 'top_bit_set', 'leading_zero']
