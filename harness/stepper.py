"""C06: the stepping evaluator (compiler::clvm::run / run_step / choose_path / ...) against the
consensus evaluator's own code (clvmr traverse_path from clvmr's MIR) and a reference for core operators."""
import itertools
import z3
from mirsym.driver import Harness, sym_bytes, conc_bytes, ev_bytes, ev, slice_of, unsigned_of
from mirsym.engine import (Cell, Ref, Some, NONE, Enum, Struct, Vec, Int, Big, Opaque, mkint, PathEnd, concrete)
from mirsym.models_clvm import Tree, atom_node, pair_node, nil_node, tree_to_json, tree_from_json
from mirsym.models_hash import MapV
from harness import rich
from harness.codec import shapes, count_leaves


def env_pair(shape, ctr):
    """-> (rich value, Tree) with distinct concrete 1-byte leaves 0x41.."""
    if shape == 'L':
        i = next(ctr)
        b = [mkint(0x41 + i, 'u8')]
        return rich.atom(b), atom_node(b)
    lr, lt = env_pair(shape[0], ctr)
    rr, rt = env_pair(shape[1], ctr)
    return rich.cons(lr, rt_fix(rr)), pair_node(lt, rt)


def rt_fix(v):
    return v


def env_json(shape, ctr):
    if shape == 'L':
        return [0x41 + next(ctr)]
    l = env_json(shape[0], ctr)
    r = env_json(shape[1], ctr)
    return {'p': [l, r]}


def rich_to_ref(eng, v):
    """rich value -> nested ('atom', [byte terms]) / ('pair', l, r) (what convert_to_clvm_rs would give; atoms only)"""
    v = rich.unrc(v)
    if v.variant == 'Cons':
        return ('pair', rich_to_ref(eng, v.fields[1]), rich_to_ref(eng, v.fields[2]))
    if v.variant == 'Nil':
        return ('atom', [])
    if v.variant == 'Atom':
        return ('atom', list(v.fields[1].items))
    if v.variant == 'QuotedString':
        return ('atom', list(v.fields[2].items))
    raise ValueError('integer leaf')


def tree_to_ref(t):
    if t.kind == 'pair':
        return ('pair', tree_to_ref(t.a), tree_to_ref(t.b))
    return ('atom', list(t.atom))


def ref_eq(a, b):
    if a[0] != b[0]:
        return z3.BoolVal(False)
    if a[0] == 'pair':
        return z3.And(ref_eq(a[1], b[1]), ref_eq(a[2], b[2]))
    if len(a[1]) != len(b[1]):
        return z3.BoolVal(False)
    if not a[1]:
        return z3.BoolVal(True)
    return z3.And(*[x.e == y.e for x, y in zip(a[1], b[1])])


def ref_json(model, r):
    if r[0] == 'pair':
        return {'p': [ref_json(model, r[1]), ref_json(model, r[2])]}
    return [ev(model, b.e) for b in r[1]]


class PathLookup(Harness):
    """program = one atom in every spelling; stepping evaluator `run` vs clvmr `traverse_path` on the same env"""
    name = 'path_lookup'
    prop = 'C06'
    kernel = 'run_both'
    with_clvmr = True
    functions = ['compiler::clvm::run', 'run_step', 'start_step', 'combine', 'choose_path', 'flatten_signed_int',
                 'convert_to_clvm_rs', 'NewStyleIntConversion::setting', 'clvmr::traverse_path', 'clvmr::first_non_zero',
                 'clvmr::msb_mask']
    assumptions = ['environment leaves are distinct one-byte atoms (path lookup never inspects leaves)',
                   'the consensus side is clvmr 0.16.2 traverse_path executed from its own MIR on the atom that convert_to_clvm_rs produces for the program',
                   'integer mode: new style (the default of the thread-local)']
    outside = 'environments with more leaves than stated; path atoms longer than stated; cost accounting'
    spec = {'quick': dict(leaves=(1, 2, 3), n=range(0, 4)), 'thorough': dict(leaves=(1, 2, 3, 4, 5), n=range(0, 7))}
    bigw = {'quick': 136, 'thorough': 136}
    loop_bound = 300

    def cases(self, tier):
        sp = self.spec[tier]
        for k in sp['leaves']:
            for sh in shapes(k):
                yield dict(shape=sh, sp='int')
                yield dict(shape=sh, sp='nil')
                for n in sp['n']:
                    yield dict(shape=sh, sp='atom', n=n)
                    yield dict(shape=sh, sp='qs', n=n)
        # deep spines: a path of n bytes walks up to 8n-1 steps, so the small shapes above cannot tell two long paths apart
        # (both run into an atom).  Left and right spines of depth 7, 8 and 15/16 (thorough: 23/24) do.
        for d in ((7, 8, 15, 16) if tier == 'quick' else (7, 8, 15, 16, 23, 24)):
            for side in (0, 1):
                sh = 'L'
                for _ in range(d):
                    sh = [sh, 'L'] if side == 0 else ['L', sh]
                yield dict(shape=sh, sp='int')
                for n in range(1, (d + 8) // 8 + 1):
                    yield dict(shape=sh, sp='atom', n=n)
                    yield dict(shape=sh, sp='qs', n=n)

    def sym_inputs(self, case):
        if case['sp'] == 'int':
            return dict(v=z3.BitVec('v', 136))
        if case['sp'] == 'nil':
            return dict()
        return dict(b=sym_bytes('p', case['n']))

    def conc_inputs(self, case, j):
        if case['sp'] == 'int':
            return dict(v=z3.BitVecVal(int(j['v']), 136))
        if case['sp'] == 'nil':
            return dict()
        return dict(b=conc_bytes(j['b']))

    def inputs_json(self, case, inp, model):
        if case['sp'] == 'int':
            x = ev(model, inp['v'])
            if x >= 1 << 135:
                x -= 1 << 136
            return dict(v=str(x))
        if case['sp'] == 'nil':
            return dict()
        return dict(b=ev_bytes(model, inp['b']))

    def program(self, eng, case, inp):
        if case['sp'] == 'int':
            e = inp['v']
            if eng.bigw != 136:
                e = z3.SignExt(eng.bigw - 136, e)
            return rich.integer(e)
        if case['sp'] == 'nil':
            return rich.nil()
        if case['sp'] == 'atom':
            return rich.atom(inp['b'])
        return rich.qs(inp['b'])

    def run(self, eng, case, inp):
        import itertools
        envr, envt = env_pair(case['shape'], itertools.count())
        prog = self.program(eng, case, inp)
        alloc = Ref(Cell(Struct('Allocator', [])))
        # consensus: program atom as the tools would hand it to clvmr
        conv = eng.call('compiler::clvm::convert_to_clvm_rs', [alloc, rich.rc(prog)])
        if conv.variant != 'Ok':
            raise PathEnd('unsupported', 'convert_to_clvm_rs failed on an atom')
        patom = conv.fields[0]
        cons_r = eng.call('traverse_path', [alloc, slice_of(patom.atom), envt])
        # stepping evaluator
        prim_map = Cell(MapV(), 'rc')
        tool_r = eng.call('compiler::clvm::run', [alloc, Opaque('runner'), prim_map, rich.rc(prog), rich.rc(envr),
                                                  NONE(), NONE()])
        return dict(cons=cons_r, tool=tool_r)

    def obligations(self, eng, case, inp, out):
        c, t = out['cons'], out['tool']
        if c.variant != 'Ok':
            return [('fails_iff_consensus_fails', z3.BoolVal(t.variant != 'Ok'))]
        if t.variant != 'Ok':
            return [('value_iff_consensus_value', z3.BoolVal(False))]
        cref = tree_to_ref(c.fields[0].fields[1])
        tref = rich_to_ref(eng, t.fields[0])
        return [('same_value', ref_eq(cref, tref))]

    def output_json(self, eng, case, inp, out, model):
        t = out['tool']
        if t.variant != 'Ok':
            return dict(err=True)
        return dict(ok=ref_json(model, rich_to_ref(eng, t.fields[0])))

    def prog_json(self, case, j):
        if case['sp'] == 'int':
            return {'int': j['v']}
        if case['sp'] == 'nil':
            return {'nil': 1}
        return {case['sp']: j['b']}

    def native_inputs(self, case, j):
        import itertools
        return dict(prog=self.prog_json(case, j), env=env_json(case['shape'], itertools.count()))

    def native_matches(self, case, j, native, predicted):
        return native.get('stepper') == predicted

    def is_violation(self, case, j, native):
        return native.get('stepper') != native.get('clvmr')

    def oracle(self, case, j):
        return 'clvmr run_program on the same program/env (see native.clvmr)'

    def vectors(self, case, rnd):
        if case['sp'] == 'nil':
            return [dict()]
        if case['sp'] == 'int':
            return [dict(v=str(x)) for x in (0, 1, 2, 3, 5, 6, 7, -1, -2, 255, 256, -128, -129, 128, rnd.randrange(1, 64))]
        n = case['n']
        vs = [[0] * n, [0xff] * n]
        for _ in range(6):
            vs.append([rnd.choice([0, 1, 2, 3, 5, 6, 7, 0x80, 0xff, rnd.randrange(256)]) for _ in range(n)])
        return [dict(b=v) for v in vs]

    def witness_classes(self, case, inp, out):
        return [('consensus_ok', z3.BoolVal(out['cons'].variant == 'Ok')), ('consensus_err', z3.BoolVal(out['cons'].variant != 'Ok'))]

    def required_witnesses(self, tier):
        return ['consensus_ok', 'consensus_err']



# ---------------------------------------------------------------- whole programs over the core operators
from harness.codec import build_tree, json_tree, length_tuples, tree_eq
from harness.convert import tls

ALPHABET = [1, 2, 3, 4, 5, 6, 7, 8, 9, 16, 17]


def prog_shapes(nleaves):
    """program shapes: binary trees whose leaves are 'A' (one symbolic byte from the alphabet) or 'N' (nil)"""
    for sh in shapes(nleaves):
        yield sh


def label_leaves(sh, nil_mask, ctr):
    if sh == 'L':
        i = next(ctr)
        return 'N' if nil_mask & (1 << i) else 'A'
    return [label_leaves(sh[0], nil_mask, ctr), label_leaves(sh[1], nil_mask, ctr)]


def build_prog(lsh, atoms):
    if lsh == 'A':
        return atom_node([next(atoms)])
    if lsh == 'N':
        return nil_node()
    return pair_node(build_prog(lsh[0], atoms), build_prog(lsh[1], atoms))


def prog_json(lsh, atoms):
    if lsh == 'A':
        return [next(atoms)]
    if lsh == 'N':
        return []
    return {'p': [prog_json(lsh[0], atoms), prog_json(lsh[1], atoms)]}


def count_a(lsh):
    if lsh == 'A':
        return 1
    if lsh == 'N':
        return 0
    return count_a(lsh[0]) + count_a(lsh[1])


class CoreEval(Harness):
    """every program tree of the stated size over {q,a,i,c,f,r,l,x,=,+,-,paths,nil}: the stepping evaluator (run) vs the
    consensus evaluator (clvmr run_program, executed from clvmr's own MIR) on the same environment"""
    name = 'core_eval'
    prop = 'C06'
    kernel = 'run_both_tree'
    with_clvmr = True
    functions = ['compiler::clvm::run', 'run_step', 'combine', 'eval_args', 'translate_head', 'atom_value', 'truthy', 'choose_path',
                 'apply_op', 'generate_argument_refs', 'convert_to_clvm_rs', 'convert_from_clvm_rs', 'prims::prim_map',
                 'DefaultProgramRunner::run_program', 'clvmr run_program / RunProgramContext::* / ChiaDialect::op / core_ops / more_ops::{op_add,op_subtract} (from clvmr MIR, both as oracle and as the delegate of apply_op)']
    assumptions = ['program leaves are nil or one byte from {1..9,16,17} (q a i c f r l x = + - and the paths 1..9,16,17); environment leaves are arbitrary single bytes',
                   'the program is presented to the stepping evaluator as convert_from_clvm_rs yields it (new integer mode)',
                   'non-terminating programs end as `bound` (loop / depth bounds), cost limits are off (max_cost 0)']
    outside = 'larger programs; other operators; softfork; cost'
    spec = {'quick': dict(leaves=(1, 2, 3), envs=('L', ['L', 'L'])), 'thorough': dict(leaves=(1, 2, 3, 4), envs=('L', ['L', 'L'], ['L', ['L', 'L']]))}
    loop_bound = 120
    max_paths = 400000

    # proper lists (OP A B ...) up to four operands are in every tier: argument-count handling lives there
    FOCUS = [['A', ['A', ['A', 'N']]], ['A', ['A', ['A', ['A', 'N']]]], ['A', ['A', ['A', ['A', ['A', 'N']]]]],
             ['A', [['A', 'A'], ['A', ['A', 'N']]]]]

    def cases(self, tier):
        sp = self.spec[tier]
        seen = set()
        for k in sp['leaves']:
            for sh in prog_shapes(k):
                for mask in range(1 << k):
                    lsh = label_leaves(sh, mask, itertools.count())
                    seen.add(repr(lsh))
                    for env in sp['envs']:
                        yield dict(prog=lsh, env=env)
        focus = self.FOCUS if tier == 'thorough' else self.FOCUS[:1]
        for lsh in focus:
            if repr(lsh) not in seen:
                for op0 in ALPHABET:          # split by the first atom so that the shards run in parallel
                    yield dict(prog=lsh, env=sp['envs'][-1], op0=op0)

    def sym_inputs(self, case):
        import itertools as it
        na = count_a(case['prog'])
        ne = count_leaves(case['env'])
        return dict(atoms=sym_bytes('p', na), env=[sym_bytes('e%d' % i, 1) for i in range(ne)])

    def conc_inputs(self, case, j):
        return dict(atoms=conc_bytes(j['atoms']), env=[conc_bytes(x) for x in j['env']])

    def inputs_json(self, case, inp, model):
        return dict(atoms=ev_bytes(model, inp['atoms']), env=[ev_bytes(model, x) for x in inp['env']])

    def run(self, eng, case, inp):
        eng.env['tls'] = tls(True)
        for b in inp['atoms']:
            if b.c is None:
                eng.assume(z3.Or(*[b.e == v for v in ALPHABET]))
        if case.get('op0') is not None and inp['atoms'] and inp['atoms'][0].c is None:
            eng.assume(inp['atoms'][0].e == case['op0'])
        prog = build_prog(case['prog'], iter(inp['atoms']))
        env = build_tree(case['env'], iter(inp['env']))
        alloc = Ref(Cell(Struct('Allocator', [])))
        dialect = Struct('ChiaDialect', [mkint(0x0102, 'u32')])       # NO_UNKNOWN_OPS | ENABLE_KECCAK_OPS_OUTSIDE_GUARD
        cons_r = eng.call('run_program::run_program', [alloc, Ref(Cell(dialect)), prog, env, mkint(0, 'u64')])
        rp = eng.call('compiler::clvm::convert_from_clvm_rs', [alloc, rich.loc(), prog]).fields[0]
        re_ = eng.call('compiler::clvm::convert_from_clvm_rs', [alloc, rich.loc(), env]).fields[0]
        pm = eng.call('compiler::prims::prim_map', [])
        runner = Cell(Struct('DefaultProgramRunner', []), 'rc')
        tool_r = eng.call('compiler::clvm::run', [alloc, runner, pm, rp, re_, NONE(), NONE()])
        tool_t = None
        if tool_r.variant == 'Ok':
            cv = eng.call('compiler::clvm::convert_to_clvm_rs', [alloc, tool_r.fields[0]])
            tool_t = cv.fields[0] if cv.variant == 'Ok' else None
        return dict(cons=cons_r, tool=tool_r, tool_t=tool_t)

    def obligations(self, eng, case, inp, out):
        c, t = out['cons'], out['tool']
        if c.variant != 'Ok':
            return [('fails_iff_consensus_fails', z3.BoolVal(t.variant != 'Ok'))]
        if t.variant != 'Ok' or out['tool_t'] is None:
            return [('value_iff_consensus_value', z3.BoolVal(False))]
        return [('same_value', tree_eq(c.fields[0].fields[1], out['tool_t']))]

    def output_json(self, eng, case, inp, out, model):
        if out['tool'].variant != 'Ok' or out['tool_t'] is None:
            return dict(err=True)
        return dict(ok=tree_to_json(model, out['tool_t'], ev))

    def native_inputs(self, case, j):
        return dict(prog=prog_json(case['prog'], iter(j['atoms'])), env=json_tree(case['env'], iter(j['env'])))

    def native_matches(self, case, j, native, predicted):
        return native.get('stepper') == predicted

    def is_violation(self, case, j, native):
        return native.get('stepper') != native.get('clvmr')

    def oracle(self, case, j):
        return 'clvmr run_program on the same program/env (see native.clvmr)'

    def vectors(self, case, rnd):
        na = count_a(case['prog'])
        ne = count_leaves(case['env'])
        vs = [dict(atoms=[rnd.choice(ALPHABET) for _ in range(na)], env=[[rnd.choice([0, 1, 2, 0x7f, 0x80, 0xff])] for _ in range(ne)])
              for _ in range(3 if case.get('op0') is None else 1)]
        if case.get('op0') is not None:
            for v in vs:
                v['atoms'][0] = case['op0']
        return vs

    def witness_classes(self, case, inp, out):
        return [('consensus_ok', z3.BoolVal(out['cons'].variant == 'Ok')), ('consensus_err', z3.BoolVal(out['cons'].variant != 'Ok'))]

    def required_witnesses(self, tier):
        return ['consensus_ok', 'consensus_err']

    @staticmethod
    def has_pair_head(lsh):
        if not isinstance(lsh, list):
            return False
        return isinstance(lsh[0], list) or CoreEval.has_pair_head(lsh[0]) or CoreEval.has_pair_head(lsh[1])

    NAME_CHARS = [ord(c) for c in 'qaicfrlx=+-*/']

    classes = {
        # F7: ((X) . operands) — a pair in operator position
        'pair_in_operator_position': lambda case, inp: z3.BoolVal(CoreEval.has_pair_head(case['prog'])),
        # F9: data that becomes code through `a` and spells an operator *name* (0x71 'q', 0x61 'a', ...)
        'operator_spelled_by_name': lambda case, inp: z3.Or(*[b[0].e == c for b in inp['env'] for c in CoreEval.NAME_CHARS]),
    }
