"""C02 (mechanism): the CLVM-level rewrites of the modern optimiser — null_optimization, remove_double_apply
(change_apply_double_quote, change_double_to_single_apply, collapse_constant_condition) and brief_path_selection —
executed from MIR as Strategy23::post_codegen_output_optimize chains them; meaning is judged by clvmr's run_program
(executed from clvmr's own MIR) on the program before and after."""
import itertools
import z3
from mirsym.driver import Harness, sym_bytes, conc_bytes, ev_bytes, ev, slice_of
from mirsym.engine import (Cell, Ref, Slice, Some, NONE, Enum, Struct, Vec, Int, Big, Bool, Opaque, mkint, PathEnd, concrete)
from mirsym.models_clvm import Tree, atom_node, pair_node, nil_node, tree_to_json
from harness import rich
from harness.codec import shapes, count_leaves, build_tree, json_tree, tree_eq
from harness.convert import tls
from harness.stepper import label_leaves, build_prog, prog_json, count_a

ALPHABET = [1, 2, 3, 4, 5, 6, 7, 8, 9]


class OutputOptimize(Harness):
    name = 'output_optimize'
    prop = 'C02'
    kernel = 'output_optimize'
    with_clvmr = True
    functions = ['optimize::above22 Strategy23::post_codegen_output_optimize', 'optimize::null_optimization',
                 'double_apply::{remove_double_apply,change_apply_double_quote,change_double_to_single_apply,collapse_constant_condition}',
                 'brief::{brief_path_selection,brief_path_selection_single,is_quote_atom,is_first_atom,is_rest_atom}', 'compose_paths',
                 'SExp::{atomize,proper_list,nilp}', 'sexp::SelectNode impls', 'clvm::truthy', 'convert_from_clvm_rs', 'convert_to_clvm_rs',
                 'clvmr run_program (oracle, from clvmr MIR)']
    assumptions = ['programs: every tree of the stated number of leaves whose leaves are nil or one byte from {1..9}; presented as convert_from_clvm_rs yields them (new integer mode)',
                   'environments: the stated shapes with arbitrary one-byte leaves',
                   'one-directional, as the property says: only required when the unoptimised program returns a value']
    outside = 'CSE, de-inlining, constant folding by execution, nil-env mode, the cl22 partial evaluator; larger programs'
    spec = {'quick': dict(leaves=(1, 2, 3, 4), envs=(['L', 'L'],)), 'thorough': dict(leaves=(1, 2, 3, 4, 5), envs=(['L', 'L'], ['L', ['L', 'L']]))}
    loop_bound = 200
    max_paths = 1000000

    # larger shapes that the rewrite rules are written for, added to every tier:
    #   (X (Y Z))  e.g. (f (r N)) and, quoted, (q (f N));  (a (q . X) 1);  (a (q 1 . X) E);  (i (q . C) A B)
    FOCUS = [['A', [['A', ['A', 'N']], 'N']], ['A', [['A', 'A'], ['A', 'N']]],
             ['A', [['A', ['A', 'A']], ['A', 'N']]], ['A', [['A', 'A'], ['A', ['A', 'N']]]],
             ['A', [['A', ['A', 'N']], [['A', ['A', 'N']], 'N']]]]

    def cases(self, tier):
        sp = self.spec[tier]
        seen = set()
        for k in sp['leaves']:
            for sh in shapes(k):
                for mask in range(1 << k):
                    lsh = label_leaves(sh, mask, itertools.count())
                    seen.add(repr(lsh))
                    for env in sp['envs']:
                        yield dict(prog=lsh, env=env)
        for lsh in self.FOCUS:
            if repr(lsh) not in seen:
                yield dict(prog=lsh, env=sp['envs'][0])

    def sym_inputs(self, case):
        return dict(atoms=sym_bytes('p', count_a(case['prog'])), env=[sym_bytes('e%d' % i, 1) for i in range(count_leaves(case['env']))])

    def conc_inputs(self, case, j):
        return dict(atoms=conc_bytes(j['atoms']), env=[conc_bytes(x) for x in j['env']])

    def inputs_json(self, case, inp, model):
        return dict(atoms=ev_bytes(model, inp['atoms']), env=[ev_bytes(model, x) for x in inp['env']])

    def run(self, eng, case, inp):
        eng.env['tls'] = tls(True)
        for b in inp['atoms']:
            if b.c is None:
                eng.assume(z3.Or(*[b.e == v for v in ALPHABET]))
        prog = build_prog(case['prog'], iter(inp['atoms']))
        env = build_tree(case['env'], iter(inp['env']))
        alloc = Ref(Cell(Struct('Allocator', [])))
        dialect = Struct('ChiaDialect', [mkint(0x0102, 'u32')])
        before = eng.call('run_program::run_program', [alloc, Ref(Cell(dialect)), prog, env, mkint(0, 'u64')])
        if before.variant != 'Ok':
            return dict(before=before, after=None, opt=None)
        rp = eng.call('compiler::clvm::convert_from_clvm_rs', [alloc, rich.loc(), prog]).fields[0]
        me = Ref(Cell(Struct('Strategy23', [])))
        r = eng.call('<Strategy23 as Optimization>::post_codegen_output_optimize', [me, Opaque('opts'), rich.unrc(rp)])
        if r.variant != 'Ok':
            return dict(before=before, after=None, opt=r)
        ot = eng.call('compiler::clvm::convert_to_clvm_rs', [alloc, rich.rc(r.fields[0])])
        if ot.variant != 'Ok':
            return dict(before=before, after=None, opt=ot)
        after = eng.call('run_program::run_program', [alloc, Ref(Cell(dialect)), ot.fields[0], env, mkint(0, 'u64')])
        return dict(before=before, after=after, opt=ot.fields[0])

    def obligations(self, eng, case, inp, out):
        if out['before'].variant != 'Ok':
            return [('no_obligation_when_the_program_fails', z3.BoolVal(True))]
        if out['after'] is None:
            return [('optimiser_accepts_the_program', z3.BoolVal(False))]
        if out['after'].variant != 'Ok':
            return [('optimised_program_still_returns', z3.BoolVal(False))]
        return [('same_value', tree_eq(out['before'].fields[0].fields[1], out['after'].fields[0].fields[1]))]

    def output_json(self, eng, case, inp, out, model):
        if out['before'].variant != 'Ok':
            return dict(before=dict(err=True))
        d = dict(before=dict(ok=tree_to_json(model, out['before'].fields[0].fields[1], ev)))
        if isinstance(out['opt'], Tree):
            d['optimized'] = tree_to_json(model, out['opt'], ev)
        if out['after'] is not None:
            d['after'] = dict(ok=tree_to_json(model, out['after'].fields[0].fields[1], ev)) if out['after'].variant == 'Ok' else dict(err=True)
        return d

    def native_inputs(self, case, j):
        return dict(prog=prog_json(case['prog'], iter(j['atoms'])), env=json_tree(case['env'], iter(j['env'])))

    def native_matches(self, case, j, native, predicted):
        return native.get('before') == predicted.get('before') and (
            'optimized' not in predicted or native.get('optimized') == predicted.get('optimized'))

    def is_violation(self, case, j, native):
        return 'ok' in native.get('before', {}) and native.get('after') != native.get('before')

    def oracle(self, case, j):
        return 'clvmr run_program: value before optimisation == value after'

    def vectors(self, case, rnd):
        na = count_a(case['prog'])
        ne = count_leaves(case['env'])
        return [dict(atoms=[rnd.choice(ALPHABET) for _ in range(na)], env=[[rnd.choice([0, 1, 2, 0x7f, 0x80, 0xff])] for _ in range(ne)])
                for _ in range(2)]

    def witness_classes(self, case, inp, out):
        w = [('program_returns', z3.BoolVal(out['before'].variant == 'Ok'))]
        return w

    def required_witnesses(self, tier):
        return ['program_returns']


from harness.paths import top_bit, py_step
from mirsym.driver import unsigned_of


class BriefChain(Harness):
    """brief_path_selection on (op_1 (op_2 ... (op_k X))) with op_i in {f, r} (concrete sequence per case) and X a symbolic
    integer path: the rewritten path equals X followed by the k steps, innermost first"""
    name = 'brief_chain'
    prop = 'C02'
    kernel = 'brief_chain'
    functions = ['brief::brief_path_selection', 'brief_path_selection_single', 'is_first_atom', 'is_rest_atom', 'is_quote_atom',
                 'SExp::{proper_list,atomize,nilp}', 'compose_paths']
    assumptions = ['X is a positive Integer path (what the code generator emits) of the stated byte length with arbitrary bits; the chain is a concrete sequence of f/r per case (all-first, all-rest, alternating, seeded random) of the stated length']
    outside = 'chains applied to non-path expressions (left unchanged by design)'
    spec = {'quick': dict(k=(1, 2, 3, 8), n=(1, 2)), 'thorough': dict(k=(1, 2, 3, 4, 8, 20, 40), n=(1, 2, 4))}
    bigw = {'quick': 136, 'thorough': 136}
    loop_bound = 400

    def cases(self, tier):
        import random
        sp = self.spec[tier]
        for k in sp['k']:
            seqs = {tuple([False] * k), tuple([True] * k), tuple(bool(i % 2) for i in range(k))}
            r = random.Random(k)
            seqs.add(tuple(r.random() < 0.5 for _ in range(k)))
            for ops in sorted(seqs):
                for n in sp['n']:
                    yield dict(ops=list(ops), n=n)

    def sym_inputs(self, case):
        return dict(x=sym_bytes('x', case['n']))

    def conc_inputs(self, case, j):
        return dict(x=conc_bytes(j['x']))

    def inputs_json(self, case, inp, model):
        return dict(x=ev_bytes(model, inp['x']))

    def run(self, eng, case, inp):
        W = eng.bigw
        xv = unsigned_of(inp['x'], W)
        eng.assume(xv != 0)
        body = rich.integer(xv)
        for b in case['ops']:           # ops[0] is innermost (applied first)
            body = rich.cons(rich.integer(z3.BitVecVal(6 if b else 5, W)), rich.cons(body, rich.nil()))
        r = eng.call('brief::brief_path_selection', [rich.rc(body)])
        return dict(res=r, xv=xv)

    def chain_path(self, ops):
        k = 1
        for b in ops:
            k = py_step(k, 'rest' if b else 'first')
        return k

    def obligations(self, eng, case, inp, out):
        changed, val = out['res'].fields
        v = rich.unrc(val)
        if v.variant != 'Integer':
            return [('chain_on_a_path_becomes_a_path', z3.BoolVal(False))]
        W = eng.bigw
        x = out['xv']
        top = top_bit(x, W)
        want = (x & (top - 1)) + z3.BitVecVal(self.chain_path(case['ops']), W) * top
        return [('rewritten', changed.e), ('composed_path_value', v.fields[1].e == want)]

    def output_json(self, eng, case, inp, out, model):
        v = rich.unrc(out['res'].fields[1])
        if v.variant != 'Integer':
            return dict(other=True)
        return dict(path=str(ev(model, v.fields[1].e)))

    def native_inputs(self, case, j):
        return dict(x=j['x'], ops=case['ops'])

    def oracle(self, case, j):
        n = int.from_bytes(bytes(j['x']), 'big')
        for b in case['ops']:
            n = py_step(n, 'rest' if b else 'first')
        return dict(path=str(n))

    def vectors(self, case, rnd):
        vs = []
        for _ in range(3):
            x = [rnd.choice([1, 0x7f, 0x80, 0xff, rnd.randrange(1, 256)])] + [rnd.randrange(256) for _ in range(case['n'] - 1)]
            vs.append(dict(x=x))
        return vs


class ClassicOptimize(OutputOptimize):
    """the whole classic CLVM optimiser (optimize_sexp with all its rules and the memo table), meaning judged by clvmr"""
    name = 'optimize_sexp'
    prop = 'C04'
    kernel = 'classic_optimize'
    functions = ['stage_2::optimize::optimize_sexp', 'optimize_sexp_', 'cons_optimizer', 'constant_optimizer', 'cons_q_a_optimizer',
                 'var_change_optimizer_cons_eval', 'children_optimizer', 'path_optimizer', 'quote_null_optimizer', 'apply_null_optimizer',
                 'sub_args', 'path_from_args', 'cons_f', 'cons_r', 'seems_constant', 'seems_constant_tail', 'non_nil', 'pattern_match::match_sexp',
                 'unify_bindings', 'classic sexp::{atom,first,rest,enlist,proper_list,equal_to,map_m,fold_m}', 'AllocatorRefOrTreeHash::new_from_sexp',
                 'sha256tree', 'NodePath::*', 'compose_paths', 'DefaultProgramRunner::run_program',
                 'clvmr run_program (both as the delegate of constant_optimizer and as the oracle, from clvmr MIR)']
    assumptions = ['programs: every tree of the stated number of leaves whose leaves are nil or one byte from {1..9}; environments: the stated shapes with arbitrary one-byte leaves',
                   'assemble() of the constant rule patterns is evaluated natively; SHA-256 (memo keys) is an injective uninterpreted function',
                   'one-directional: only required when the unoptimised program returns a value']
    outside = 'larger programs; the other operators'
    spec = {'quick': dict(leaves=(1, 2, 3, 4), envs=(['L', 'L'],)), 'thorough': dict(leaves=(1, 2, 3, 4, 5), envs=(['L', 'L'], ['L', ['L', 'L']]))}
    loop_bound = 300

    # skeletons of the change-of-variables rule, (a (q . BODY) (c X (q . DATA))): operators fixed, paths and data symbolic
    _QD = lambda data: ['A', data]                                   # (q . data)
    SKELETONS = [
        # (a (q . P) (c X (q . ((OP Y)))))      atoms: a q P c X q OP Y
        dict(prog=['A', [['A', 'A'], [['A', ['A', [['A', [['A', ['A', 'N']], 'N']], 'N']]], 'N']]], fix=[2, 1, None, 4, None, 1, None, None]),
        # (a (q . P) (c (q . ((OP))) X))        atoms: a q P c q OP X
        dict(prog=['A', [['A', 'A'], [['A', [['A', [['A', 'N'], 'N']], ['A', 'N']]], 'N']]], fix=[2, 1, None, 4, 1, None, None]),
    ]

    def cases(self, tier):
        for c in OutputOptimize.cases(self, tier):
            yield c
        sp = self.spec[tier]
        for sk in self.SKELETONS:
            yield dict(prog=sk['prog'], env=sp['envs'][-1], fix=sk['fix'])

    def vectors(self, case, rnd):
        vs = OutputOptimize.vectors(self, case, rnd)
        for v in vs:
            for i, x in enumerate(case.get('fix') or []):
                if x is not None:
                    v['atoms'][i] = x
        return vs

    @staticmethod
    def has_pair_head(lsh):
        """a pair in operator position of the program or of any operand, recursively (quoted data is not told apart, so this
        over-approximates the forms that are evaluated; a pair that is merely an element of an operand list does not count)"""
        if not isinstance(lsh, list):
            return False
        if isinstance(lsh[0], list):
            return True
        t = lsh[1]
        while isinstance(t, list):
            if ClassicOptimize.has_pair_head(t[0]):
                return True
            t = t[1]
        return False

    classes = {
        # ((X) . operands): a pair in operator position
        'pair_in_operator_position': lambda case, inp: z3.BoolVal(ClassicOptimize.has_pair_head(case['prog'])),
    }

    def run(self, eng, case, inp):
        eng.env['tls'] = tls(True)
        for b in inp['atoms']:
            if b.c is None:
                eng.assume(z3.Or(*[b.e == v for v in ALPHABET]))
        for i, x in enumerate(case.get('fix') or []):
            if x is not None and inp['atoms'][i].c is None:
                eng.assume(inp['atoms'][i].e == x)
        prog = build_prog(case['prog'], iter(inp['atoms']))
        env = build_tree(case['env'], iter(inp['env']))
        alloc = Ref(Cell(Struct('Allocator', [])))
        dialect = Struct('ChiaDialect', [mkint(0x0102, 'u32')])
        before = eng.call('run_program::run_program', [alloc, Ref(Cell(dialect)), prog, env, mkint(0, 'u64')])
        if before.variant != 'Ok':
            return dict(before=before, after=None, opt=None)
        runner = Cell(Struct('DefaultProgramRunner', []), 'rc')
        r = eng.call('optimize::optimize_sexp', [alloc, prog, runner])
        if r.variant != 'Ok':
            return dict(before=before, after=None, opt=r)
        after = eng.call('run_program::run_program', [alloc, Ref(Cell(dialect)), r.fields[0], env, mkint(0, 'u64')])
        return dict(before=before, after=after, opt=r.fields[0])
