"""C07: rich <-> CLVM conversion, tree hashes, equality/Hash — executed from MIR."""
import hashlib
import z3
from mirsym.driver import Harness, sym_bytes, conc_bytes, ev_bytes, ev, slice_of, unsigned_of
from mirsym.engine import (Cell, Ref, Some, NONE, Enum, Struct, Vec, Int, Big, Bool, Opaque, mkint, PathEnd, concrete)
from mirsym.models_clvm import Tree, atom_node, pair_node, nil_node, tree_to_json, tree_from_json
from mirsym.models_sha import eval_items
from mirsym.models_vec import items_eq
from harness import rich
from harness.codec import shapes, length_tuples, build_tree, json_tree, tree_eq


def tls(mode):
    return {'NEW_COMPILATION_LEVEL_INT': lambda: Cell(Bool(z3.BoolVal(mode)), 'refcell')}


def py_treehash(t):
    if isinstance(t, dict):
        return hashlib.sha256(b'\x02' + py_treehash(t['p'][0]) + py_treehash(t['p'][1])).digest()
    return hashlib.sha256(b'\x01' + bytes(t)).digest()


class ConvRoundTrip(Harness):
    """convert_to_clvm_rs(convert_from_clvm_rs(x)) == x bytewise, and the three tree hashes agree"""
    name = 'conv_roundtrip'
    prop = 'C07'
    kernel = 'conv'
    functions = ['compiler::clvm::convert_from_clvm_rs', 'compiler::clvm::convert_to_clvm_rs', 'util::number_from_u8',
                 'util::u8_from_number', 'sexp::printable', 'NewStyleIntConversion::setting', 'compiler::clvm::sha256tree',
                 'sha256tree_from_atom', 'classic sha256tree::sha256tree', '__type_compatibility__::sha256', 'Bytes::{new,concat,data}']
    assumptions = ['SHA-256 is modelled as an injective function of its preimage stream: equal hashes are decided as equal preimages',
                   'the consensus tree hash is sha256(1 ++ atom) / sha256(2 ++ left ++ right); replayed natively against an independent implementation']
    outside = 'atoms longer than the stated length (multi-KiB)'
    spec = {'quick': dict(single=range(0, 5), leaves=(2, 3), lens=(0, 1, 2)),
            'thorough': dict(single=range(0, 10), leaves=(2, 3, 4), lens=(0, 1, 2, 3))}

    def cases(self, tier):
        sp = self.spec[tier]
        for mode in (True, False):
            for n in sp['single']:
                yield dict(shape='L', lens=[n], mode=mode)
            for k in sp['leaves']:
                for sh in shapes(k):
                    for lt in length_tuples(k, sp['lens']):
                        if tier == 'quick' and k == 3 and sum(lt) > 4:
                            continue
                        yield dict(shape=sh, lens=lt, mode=mode)

    def sym_inputs(self, case):
        return dict(leaves=[sym_bytes('l%d' % i, n) for i, n in enumerate(case['lens'])])

    def conc_inputs(self, case, j):
        return dict(leaves=[conc_bytes(x) for x in j['leaves']])

    def inputs_json(self, case, inp, model):
        return dict(leaves=[ev_bytes(model, x) for x in inp['leaves']])

    def run(self, eng, case, inp):
        eng.env['tls'] = tls(case['mode'])
        tree = build_tree(case['shape'], iter(inp['leaves']))
        alloc = Ref(Cell(Struct('Allocator', [])))
        r = eng.call('compiler::clvm::convert_from_clvm_rs', [alloc, rich.loc(), tree])
        if r.variant != 'Ok':
            return dict(tree=tree, rich=None)
        rv = r.fields[0]
        back = eng.call('compiler::clvm::convert_to_clvm_rs', [alloc, rv])
        h_rich = eng.call('compiler::clvm::sha256tree', [rv])
        h_classic = eng.call('sha256tree::sha256tree', [alloc, tree])
        return dict(tree=tree, rich=rv, back=back, h_rich=h_rich.items, h_classic=h_classic.fields[0].items)

    def ref_hash_items(self, t):
        from mirsym.models_sha import digest_items
        if t.kind == 'pair':
            return digest_items([mkint(2, 'u8')] + self.ref_hash_items(t.a) + self.ref_hash_items(t.b))
        return digest_items([mkint(1, 'u8')] + list(t.atom))

    def obligations(self, eng, case, inp, out):
        if out['rich'] is None:
            return [('from_clvm_succeeds', z3.BoolVal(False))]
        obs = []
        back = out['back']
        if back.variant != 'Ok':
            obs.append(('to_clvm_succeeds', z3.BoolVal(False)))
        else:
            obs.append(('round_trip_bytes', tree_eq(back.fields[0], out['tree'])))
        ref = self.ref_hash_items(out['tree'])
        obs.append(('rich_hash_is_consensus_hash', items_eq(eng, out['h_rich'], ref)))
        obs.append(('classic_hash_is_consensus_hash', items_eq(eng, out['h_classic'], ref)))
        return obs

    def output_json(self, eng, case, inp, out, model):
        if out['rich'] is None:
            return dict(err=True)
        back = out['back']
        return dict(back=dict(ok=tree_to_json(model, back.fields[0], ev)) if back.variant == 'Ok' else dict(err=True),
                    h_rich=eval_items(model, out['h_rich'], ev), h_classic=eval_items(model, out['h_classic'], ev))

    def oracle(self, case, j):
        t = json_tree(case['shape'], iter(j['leaves']))
        h = list(py_treehash(t))
        return dict(back=dict(ok=t), h_rich=h, h_classic=h)

    def vectors(self, case, rnd):
        vs = []
        for _ in range(3):
            vs.append(dict(leaves=[[rnd.choice([0, 0x7f, 0x80, 0xff, 0x22, 0x41, rnd.randrange(256)]) for _ in range(n)] for n in case['lens']]))
        return vs

    def witness_classes(self, case, inp, out):
        if out['rich'] is None:
            return []
        v = rich.unrc(out['rich'])
        return [('rich_' + v.variant, z3.BoolVal(True))]

    def required_witnesses(self, tier):
        return ['rich_Nil', 'rich_Integer', 'rich_QuotedString', 'rich_Atom', 'rich_Cons']


class HasherRec:
    def __init__(self):
        self.stream = []


from mirsym.models import model, items_of
from mirsym.engine import UNIT, Unsupported


@model(r'^<Vec<u8> as Hash>::hash::<.*>$|^<\[u8\] as Hash>::hash::<.*>$')
def _vec_hash(eng, m, args, fr, dty):
    st = eng.deref(args[1], fr)
    if not isinstance(st, HasherRec):
        return NotImplemented
    items = items_of(eng, args[0], fr)
    st.stream.append(('len', len(items)))
    st.stream.extend(items)
    return UNIT


def stream_eq(a, b):
    if len(a) != len(b):
        return z3.BoolVal(False)
    conj = []
    for x, y in zip(a, b):
        if isinstance(x, tuple) or isinstance(y, tuple):
            if x != y:
                return z3.BoolVal(False)
        else:
            conj.append(x.e == y.e)
    return z3.And(*conj) if conj else z3.BoolVal(True)


SPELL = ('conv', 'atom', 'qs', 'int', 'nil')


class EqHash(Harness):
    """for two atoms in any two spellings: equal_to / == / Hash agree with byte equality of the CLVM encodings"""
    name = 'eq_hash'
    prop = 'C07'
    kernel = 'eqhash'
    functions = ['SExp::equal_to', 'SExp::nilp', '<SExp as PartialEq>::eq', '<SExp as Hash>::hash', 'convert_to_clvm_rs',
                 'convert_from_clvm_rs', 'number_from_u8', 'u8_from_number']
    assumptions = ['fixed (new-style) integer mode', 'spellings: what convert_from_clvm_rs yields, Atom, QuotedString, Integer (canonical integers only, as the reader produces), Nil (empty only)',
                   'Hash is observed through a recording Hasher (length-prefixed byte writes of Vec<u8>::hash)']
    outside = 'atoms longer than the stated lengths; cons trees (equal_to/Hash recurse structurally)'
    lens = {'quick': (0, 1, 2), 'thorough': (0, 1, 2, 3)}

    def cases(self, tier):
        for n in self.lens[tier]:
            for mlen in self.lens[tier]:
                for s1 in SPELL:
                    for s2 in SPELL:
                        if (s1 == 'nil' and n != 0) or (s2 == 'nil' and mlen != 0):
                            continue
                        yield dict(n=n, m=mlen, s1=s1, s2=s2)

    def sym_inputs(self, case):
        return dict(a=sym_bytes('a', case['n']), b=sym_bytes('b', case['m']))

    def conc_inputs(self, case, j):
        return dict(a=conc_bytes(j['a']), b=conc_bytes(j['b']))

    def inputs_json(self, case, inp, model):
        return dict(a=ev_bytes(model, inp['a']), b=ev_bytes(model, inp['b']))

    def spell(self, eng, sp, items, alloc):
        if sp == 'nil':
            return rich.rc(rich.nil())
        if sp == 'atom':
            return rich.rc(rich.atom(items))
        if sp == 'qs':
            return rich.rc(rich.qs(items))
        if sp == 'conv':
            r = eng.call('compiler::clvm::convert_from_clvm_rs', [alloc, rich.loc(), atom_node(items)])
            return r.fields[0]
        num = eng.call('util::number_from_u8', [slice_of(items)])
        back = eng.call('util::u8_from_number', [num])
        same = z3.And(*[x.e == y.e for x, y in zip(back.items, items)]) if len(back.items) == len(items) else z3.BoolVal(False)
        if not eng.branch_bool(same):
            raise PathEnd('infeasible', 'not a canonical integer spelling')
        return rich.rc(rich.integer(num.e))

    def run(self, eng, case, inp):
        eng.env['tls'] = tls(True)
        alloc = Ref(Cell(Struct('Allocator', [])))
        s1 = self.spell(eng, case['s1'], inp['a'], alloc)
        s2 = self.spell(eng, case['s2'], inp['b'], alloc)
        e1 = eng.call('compiler::clvm::convert_to_clvm_rs', [alloc, s1]).fields[0]
        e2 = eng.call('compiler::clvm::convert_to_clvm_rs', [alloc, s2]).fields[0]
        eq = eng.call('SExp::equal_to', [Ref(s1), Ref(s2)])
        eq2 = eng.call('<SExp as PartialEq>::eq', [Ref(s1), Ref(s2)])
        h1, h2 = HasherRec(), HasherRec()
        eng.call('<SExp as Hash>::hash', [Ref(s1), Ref(Cell(h1))])
        eng.call('<SExp as Hash>::hash', [Ref(s2), Ref(Cell(h2))])
        return dict(s1=s1, s2=s2, e1=e1, e2=e2, eq=eq, eq2=eq2, h1=h1.stream, h2=h2.stream)

    def enc_eq(self, out):
        return tree_eq(out['e1'], out['e2'])

    def obligations(self, eng, case, inp, out):
        E = self.enc_eq(out)
        return [('equal_to_iff_same_encoding', out['eq'].e == E), ('eq_operator_iff_same_encoding', out['eq2'].e == E),
                ('hash_equal_iff_same_encoding', stream_eq(out['h1'], out['h2']) == E)]

    def output_json(self, eng, case, inp, out, model):
        return dict(eq=bool(ev(model, out['eq'].e)), hash_eq=bool(ev(model, stream_eq(out['h1'], out['h2']))),
                    enc_eq=bool(ev(model, self.enc_eq(out))))

    def rich_json(self, sp, bs):
        if sp == 'nil':
            return {'nil': 1}
        if sp == 'atom':
            return {'atom': bs}
        if sp == 'qs':
            return {'qs': bs}
        if sp == 'conv':
            return {'conv': bs}
        return {'int': str(int.from_bytes(bytes(bs), 'big', signed=True)) if bs else '0'}

    def native_inputs(self, case, j):
        return dict(a=self.rich_json(case['s1'], j['a']), b=self.rich_json(case['s2'], j['b']))

    def is_violation(self, case, j, native):
        return not (native['eq'] == native['enc_eq'] and native['hash_eq'] == native['enc_eq'])

    def oracle(self, case, j):
        return 'eq == hash_eq == enc_eq'

    def canonical_int(self, bs):
        if not bs:
            return False
        v = int.from_bytes(bytes(bs), 'big', signed=True)
        n = 1
        while not (-(1 << (8 * n - 1)) <= v < (1 << (8 * n - 1))):
            n += 1
        return n == len(bs)

    def vectors(self, case, rnd):
        vs = []
        for _ in range(6):
            a = [rnd.choice([0, 1, 0x7f, 0x80, 0xff, 0x41]) for _ in range(case['n'])]
            b = [rnd.choice([0, 1, 0x7f, 0x80, 0xff, 0x41]) for _ in range(case['m'])] if rnd.random() < 0.6 or case['n'] != case['m'] else list(a)
            if case['s1'] == 'int' and not self.canonical_int(a):
                continue
            if case['s2'] == 'int' and not self.canonical_int(b):
                continue
            vs.append(dict(a=a, b=b))
        return vs
