"""C18 (resolution clause): DefaultCompilerOpts::read_new_file executed from MIR against a symbolic file system."""
import os
import re
import z3
from mirsym.driver import Harness, ev
from mirsym.engine import (Cell, Ref, Slice, Some, NONE, Enum, Struct, Vec, Int, Bool, Opaque, mkint, mkbool, PathEnd,
                           concrete, Ok, Err, UNIT, Unsupported)
from mirsym.models import items_of
from mirsym.driver import conc_bytes


class PathBufV:
    def __init__(self, items):
        self.items = list(items)


def pb(eng, v, fr):
    v = eng.deref(v, fr)
    if isinstance(v, PathBufV):
        return v
    raise Unsupported('not a PathBuf: %r' % (v,))


def s_pb_from(eng, m, args, fr, dty):
    return PathBufV(items_of(eng, args[0], fr))


def s_pb_push(eng, m, args, fr, dty):
    p = pb(eng, args[0], fr)
    comp = items_of(eng, args[1], fr)
    # PathBuf::push: an absolute component replaces the path; otherwise joined with '/'
    if comp and concrete(comp[0].e) == 0x2f:
        p.items = list(comp)
    else:
        if p.items and concrete(p.items[-1].e) != 0x2f:
            p.items.append(mkint(0x2f, 'u8'))
        p.items.extend(comp)
    return UNIT


def s_pb_clone(eng, m, args, fr, dty):
    return PathBufV(pb(eng, args[0], fr).items)


def s_pb_deref(eng, m, args, fr, dty):
    return args[0]


def s_to_str(eng, m, args, fr, dty):
    p = pb(eng, args[0], fr)
    return Some(Slice(Ref(Cell(Vec(list(p.items)))), 0, len(p.items)))


def s_fs_read(eng, m, args, fr, dty):
    p = pb(eng, args[0], fr)
    name = bytes(concrete(b.e) for b in p.items).decode('latin1')
    log = eng.env['reads']
    exists = eng.env['exists']              # dict dir index -> z3 Bool
    k = len(log)
    log.append(name)
    # which directory is this?
    dirs = eng.env['dirs']
    idx = None
    for i, d in enumerate(dirs):
        if name == d + '/' + eng.env['filename']:
            idx = i
    if idx is None:
        raise PathEnd('unsupported', 'fs::read of an unexpected path ' + name)
    if eng.branch_bool(exists[idx]):
        return Ok(Vec(conc_bytes(('content-of-' + name).encode())))
    return Err(Opaque('io::Error'))


STUBS = [
    (re.compile(r'^<(std::path::)?PathBuf as From<&(std::string::)?String>>::from$'), s_pb_from),
    (re.compile(r'^(std::path::)?PathBuf::push::<.*>$'), s_pb_push),
    (re.compile(r'^<(std::path::)?PathBuf as Clone>::clone$'), s_pb_clone),
    (re.compile(r'^<(std::path::)?PathBuf as Deref>::deref$'), s_pb_deref),
    (re.compile(r'^(std::path::)?Path::to_str$'), s_to_str),
    (re.compile(r'^(std::)?fs::read::<.*>$'), s_fs_read),
]


class ReadNewFile(Harness):
    name = 'read_new_file'
    prop = 'C18'
    kernel = 'read_new_file'
    functions = ['<DefaultCompilerOpts as CompilerOpts>::read_new_file', 'its two closures', 'DefaultCompilerOpts::dialect',
                 'KNOWN_DIALECTS / STANDARD_MACROS / ADVANCED_MACROS initialisers']
    assumptions = ['fs::read(dir/name) is a stub returning Ok/Err per directory according to a symbolic existence bit; PathBuf::{from,push,clone}, Path::to_str are modelled on byte strings',
                   '1..4 search directories with distinct names, one plain file name; pseudo-files *macros* and one dialect name']
    outside = 'that gather_dependencies visits every include the compilation visits (two whole traversals)'

    def cases(self, tier):
        for k in ((1, 2, 3) if tier == 'quick' else (1, 2, 3, 4)):
            yield dict(dirs=k, file='x.clib')
        for f in ('*macros*', '*standard-cl-21*', '*standard-cl-23*'):
            yield dict(dirs=2, file=f)

    def sym_inputs(self, case):
        return dict(exists=[z3.Bool('exists_%d' % i) for i in range(case['dirs'])], strict=z3.Bool('strict'))

    def conc_inputs(self, case, j):
        return dict(exists=[z3.BoolVal(b) for b in j['exists']], strict=z3.BoolVal(j['strict']))

    def inputs_json(self, case, inp, model):
        return dict(exists=[bool(ev(model, e)) for e in inp['exists']], strict=bool(ev(model, inp['strict'])))

    def field_index(self, eng, name):
        src = open(os.path.join(eng.srcroots[0], 'src/compiler/compiler.rs')).read()
        m = re.search(r'pub struct DefaultCompilerOpts \{(.*?)\n\}', src, re.S)
        names = re.findall(r'^\s*(?:pub\s+)?(\w+)\s*:', m.group(1), re.M)
        return names.index(name), len(names)

    def run(self, eng, case, inp):
        dirs = ['d%d' % i for i in range(case['dirs'])]
        eng.env.update(stubs=STUBS, reads=[], exists=inp['exists'], dirs=dirs, filename=case['file'])
        i_inc, n = self.field_index(eng, 'include_dirs')
        i_dia, _ = self.field_index(eng, 'dialect')
        me = Struct('DefaultCompilerOpts', [Opaque('f%d' % i) for i in range(n)])
        me.fields[i_inc] = Vec([Vec(conc_bytes(d.encode())) for d in dirs])
        me.fields[i_dia] = Struct('AcceptedDialect', [NONE(), Bool(inp['strict']), mkbool(False)])
        r = eng.call('<DefaultCompilerOpts as CompilerOpts>::read_new_file',
                     [Ref(Cell(me)), Vec(conc_bytes(b'from.clsp')), Vec(conc_bytes(case['file'].encode()))])
        return dict(res=r, reads=list(eng.env['reads']), dirs=dirs)

    def obligations(self, eng, case, inp, out):
        r, reads, dirs = out['res'], out['reads'], out['dirs']
        T = lambda b: z3.BoolVal(bool(b))
        if case['file'].startswith('*'):
            obs = [('pseudo_file_found', T(r.variant == 'Ok'))]
            if r.variant == 'Ok':
                name = bytes(concrete(b.e) for b in r.fields[0].fields[0].items).decode()
                content = bytes(concrete(b.e) for b in r.fields[0].fields[1].items)
                obs.append(('pseudo_file_keeps_its_name', T(name == case['file'])))
                obs.append(('pseudo_file_is_the_builtin_not_a_disk_file', T(not content.startswith(b'content-of-'))))
            return obs
        ex = inp['exists']
        want_paths = [d + '/' + case['file'] for d in dirs]
        obs = []
        if r.variant == 'Ok':
            name = bytes(concrete(b.e) for b in r.fields[0].fields[0].items).decode()
            content = bytes(concrete(b.e) for b in r.fields[0].fields[1].items).decode()
            if name not in want_paths:
                return obs + [('resolved_name_is_a_search_path_entry', T(False))]
            i = want_paths.index(name)
            obs.append(('resolved_is_first_match', z3.And(ex[i], *[z3.Not(e) for e in ex[:i]])))
            obs.append(('content_is_of_the_resolved_file', T(content == 'content-of-' + name)))
        else:
            obs.append(('error_only_if_no_directory_has_it', z3.And(*[z3.Not(e) for e in ex]) if ex else T(True)))
        return obs

    def output_json(self, eng, case, inp, out, model):
        r = out['res']
        if r.variant != 'Ok':
            return dict(err=True)
        return dict(name=bytes(concrete(b.e) for b in r.fields[0].fields[0].items).decode())

    def oracle(self, case, j):
        if case['file'].startswith('*'):
            return dict(name=case['file'])
        for i, e in enumerate(j['exists']):
            if e:
                return dict(name='d%d/%s' % (i, case['file']))
        return dict(err=True)

    def native_matches(self, case, j, native, predicted):
        return native.get('rel') == predicted

    def is_violation(self, case, j, native):
        return native.get('rel') != self.oracle(case, j) or native.get('content_ok') is False

    def vectors(self, case, rnd):
        k = case['dirs']
        vs = [[False] * k, [True] * k]
        for _ in range(3):
            vs.append([rnd.random() < 0.5 for _ in range(k)])
        return [dict(exists=v, strict=rnd.random() < 0.5) for v in vs]

    def witness_classes(self, case, inp, out):
        return [('found', z3.BoolVal(out['res'].variant == 'Ok')), ('not_found', z3.BoolVal(out['res'].variant != 'Ok'))]

    def required_witnesses(self, tier):
        return ['found', 'not_found']
