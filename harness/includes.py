"""C18 (resolution clause): DefaultCompilerOpts::read_new_file executed from MIR against a symbolic file system."""
import os
import re
import z3
from mirsym.driver import Harness, ev
from mirsym.engine import (Cell, Ref, Slice, Some, NONE, Enum, Struct, Vec, Int, Bool, Opaque, mkint, mkbool, PathEnd,
                           concrete, Ok, Err, UNIT, Unsupported)
from mirsym.models import items_of
from mirsym.driver import conc_bytes


class PathBufV:
    def __init__(self, items):
        self.items = list(items)


def pb(eng, v, fr):
    v = eng.deref(v, fr)
    if isinstance(v, PathBufV):
        return v
    raise Unsupported('not a PathBuf: %r' % (v,))


def s_pb_from(eng, m, args, fr, dty):
    return PathBufV(items_of(eng, args[0], fr))


def s_pb_push(eng, m, args, fr, dty):
    p = pb(eng, args[0], fr)
    comp = items_of(eng, args[1], fr)
    # PathBuf::push: an absolute component replaces the path; otherwise joined with '/'
    if comp and concrete(comp[0].e) == 0x2f:
        p.items = list(comp)
    else:
        if p.items and concrete(p.items[-1].e) != 0x2f:
            p.items.append(mkint(0x2f, 'u8'))
        p.items.extend(comp)
    return UNIT


def s_pb_clone(eng, m, args, fr, dty):
    return PathBufV(pb(eng, args[0], fr).items)


def s_pb_deref(eng, m, args, fr, dty):
    return args[0]


def s_to_str(eng, m, args, fr, dty):
    p = pb(eng, args[0], fr)
    return Some(Slice(Ref(Cell(Vec(list(p.items)))), 0, len(p.items)))


def s_fs_read(eng, m, args, fr, dty):
    p = pb(eng, args[0], fr)
    name = bytes(concrete(b.e) for b in p.items).decode('latin1')
    log = eng.env['reads']
    exists = eng.env['exists']              # dict dir index -> z3 Bool
    k = len(log)
    log.append(name)
    # which directory is this?
    dirs = eng.env['dirs']
    idx = None
    for i, d in enumerate(dirs):
        if name == d + '/' + eng.env['filename']:
            idx = i
    if idx is None:
        raise PathEnd('unsupported', 'fs::read of an unexpected path ' + name)
    if eng.branch_bool(exists[idx]):
        return Ok(Vec(conc_bytes(('content-of-' + name).encode())))
    return Err(Opaque('io::Error'))


STUBS = [
    (re.compile(r'^<(std::path::)?PathBuf as From<&(std::string::)?String>>::from$'), s_pb_from),
    (re.compile(r'^(std::path::)?PathBuf::push::<.*>$'), s_pb_push),
    (re.compile(r'^<(std::path::)?PathBuf as Clone>::clone$'), s_pb_clone),
    (re.compile(r'^<(std::path::)?PathBuf as Deref>::deref$'), s_pb_deref),
    (re.compile(r'^(std::path::)?Path::to_str$'), s_to_str),
    (re.compile(r'^(std::)?fs::read::<.*>$'), s_fs_read),
]


class ReadNewFile(Harness):
    name = 'read_new_file'
    prop = 'C18'
    kernel = 'read_new_file'
    functions = ['<DefaultCompilerOpts as CompilerOpts>::read_new_file', 'its two closures', 'DefaultCompilerOpts::dialect',
                 'KNOWN_DIALECTS / STANDARD_MACROS / ADVANCED_MACROS initialisers']
    assumptions = ['fs::read(dir/name) is a stub returning Ok/Err per directory according to a symbolic existence bit; PathBuf::{from,push,clone}, Path::to_str are modelled on byte strings',
                   '1..4 search directories with distinct names, one plain file name; pseudo-files *macros* and one dialect name']
    outside = 'that gather_dependencies visits every include the compilation visits (two whole traversals)'

    def cases(self, tier):
        for k in ((1, 2, 3) if tier == 'quick' else (1, 2, 3, 4)):
            yield dict(dirs=k, file='x.clib')
        for f in ('*macros*', '*standard-cl-21*', '*standard-cl-23*'):
            yield dict(dirs=2, file=f)

    def sym_inputs(self, case):
        return dict(exists=[z3.Bool('exists_%d' % i) for i in range(case['dirs'])], strict=z3.Bool('strict'))

    def conc_inputs(self, case, j):
        return dict(exists=[z3.BoolVal(b) for b in j['exists']], strict=z3.BoolVal(j['strict']))

    def inputs_json(self, case, inp, model):
        return dict(exists=[bool(ev(model, e)) for e in inp['exists']], strict=bool(ev(model, inp['strict'])))

    def field_index(self, eng, name):
        src = open(os.path.join(eng.srcroots[0], 'src/compiler/compiler.rs')).read()
        m = re.search(r'pub struct DefaultCompilerOpts \{(.*?)\n\}', src, re.S)
        names = re.findall(r'^\s*(?:pub\s+)?(\w+)\s*:', m.group(1), re.M)
        return names.index(name), len(names)

    def run(self, eng, case, inp):
        dirs = ['d%d' % i for i in range(case['dirs'])]
        eng.env.update(stubs=STUBS, reads=[], exists=inp['exists'], dirs=dirs, filename=case['file'])
        i_inc, n = self.field_index(eng, 'include_dirs')
        i_dia, _ = self.field_index(eng, 'dialect')
        me = Struct('DefaultCompilerOpts', [Opaque('f%d' % i) for i in range(n)])
        me.fields[i_inc] = Vec([Vec(conc_bytes(d.encode())) for d in dirs])
        me.fields[i_dia] = Struct('AcceptedDialect', [NONE(), Bool(inp['strict']), mkbool(False)])
        r = eng.call('<DefaultCompilerOpts as CompilerOpts>::read_new_file',
                     [Ref(Cell(me)), Vec(conc_bytes(b'from.clsp')), Vec(conc_bytes(case['file'].encode()))])
        return dict(res=r, reads=list(eng.env['reads']), dirs=dirs)

    def obligations(self, eng, case, inp, out):
        r, reads, dirs = out['res'], out['reads'], out['dirs']
        T = lambda b: z3.BoolVal(bool(b))
        if case['file'].startswith('*'):
            obs = [('pseudo_file_found', T(r.variant == 'Ok'))]
            if r.variant == 'Ok':
                name = bytes(concrete(b.e) for b in r.fields[0].fields[0].items).decode()
                content = bytes(concrete(b.e) for b in r.fields[0].fields[1].items)
                obs.append(('pseudo_file_keeps_its_name', T(name == case['file'])))
                obs.append(('pseudo_file_is_the_builtin_not_a_disk_file', T(not content.startswith(b'content-of-'))))
            return obs
        ex = inp['exists']
        want_paths = [d + '/' + case['file'] for d in dirs]
        obs = []
        if r.variant == 'Ok':
            name = bytes(concrete(b.e) for b in r.fields[0].fields[0].items).decode()
            content = bytes(concrete(b.e) for b in r.fields[0].fields[1].items).decode()
            if name not in want_paths:
                return obs + [('resolved_name_is_a_search_path_entry', T(False))]
            i = want_paths.index(name)
            obs.append(('resolved_is_first_match', z3.And(ex[i], *[z3.Not(e) for e in ex[:i]])))
            obs.append(('content_is_of_the_resolved_file', T(content == 'content-of-' + name)))
        else:
            obs.append(('error_only_if_no_directory_has_it', z3.And(*[z3.Not(e) for e in ex]) if ex else T(True)))
        return obs

    def output_json(self, eng, case, inp, out, model):
        r = out['res']
        if r.variant != 'Ok':
            return dict(err=True)
        return dict(name=bytes(concrete(b.e) for b in r.fields[0].fields[0].items).decode())

    def oracle(self, case, j):
        if case['file'].startswith('*'):
            return dict(name=case['file'])
        for i, e in enumerate(j['exists']):
            if e:
                return dict(name='d%d/%s' % (i, case['file']))
        return dict(err=True)

    def native_matches(self, case, j, native, predicted):
        return native.get('rel') == predicted

    def is_violation(self, case, j, native):
        return native.get('rel') != self.oracle(case, j) or native.get('content_ok') is False

    def vectors(self, case, rnd):
        k = case['dirs']
        vs = [[False] * k, [True] * k]
        for _ in range(3):
            vs.append([rnd.random() < 0.5 for _ in range(k)])
        return [dict(exists=v, strict=rnd.random() < 0.5) for v in vs]

    def witness_classes(self, case, inp, out):
        return [('found', z3.BoolVal(out['res'].variant == 'Ok')), ('not_found', z3.BoolVal(out['res'].variant != 'Ok'))]

    def required_witnesses(self, tier):
        return ['found', 'not_found']


# ---------------------------------------------------------------------------------------------------------------------
# C18, the whole listing: gather_dependencies and the compilation itself, both from MIR, on one symbolic file system
DEP_FILES = {
    'd0/a.clib': '((include b.clib) (defun F (X) (+ X K 1)))',
    'd1/a.clib': '((defconstant K 5) (defun F (X) (+ X K 2)))',
    'd0/b.clib': '((defconstant K 7))',
    'd1/b.clib': '((defconstant K 9))',
    'd0/h.hex': 'ff0180',
    'd1/h.hex': 'ff0280',
    'd0/s.sexp': '(1 2)',
    'd1/s.sexp': '(3 4)',
}
DEP_TEMPLATES = {
    'nested_include': '(mod (X) (include *standard-cl-21*) (include a.clib) (F X))',
    'embed_hex': '(mod (X) (include *standard-cl-21*) (embed-file H hex h.hex) (include a.clib) (c H (F X)))',
    'embed_sexp': '(mod (X) (include *standard-cl-21*) (embed-file S sexp s.sexp) (c S X))',
    'embed_bin': '(mod (X) (include *standard-cl-21*) (embed-file B bin h.hex) (c B X))',
}


def s_fs_read_multi(eng, m, args, fr, dty):
    p = pb(eng, args[0], fr)
    name = bytes(concrete(b.e) for b in p.items).decode('latin1')
    ex = eng.env['exists'].get(name)
    if ex is None:
        raise PathEnd('unsupported', 'fs::read of an unexpected path ' + name)
    ok = eng.branch_bool(ex) if not isinstance(ex, bool) else ex
    eng.env['reads'].append((eng.env['phase'], name, ok))
    if ok:
        return Ok(Vec(conc_bytes(DEP_FILES[name].encode())))
    return Err(Opaque('io::Error'))


DEP_STUBS = [s for s in STUBS if s[1] is not s_fs_read] + [(re.compile(r'^(std::)?fs::read::<.*>$'), s_fs_read_multi)]


class DepsListing(Harness):
    """every file the compilation reads is in the dependency listing, and each listed name is the first match"""
    name = 'deps_listing'
    prop = 'C18'
    kernel = 'deps'
    with_clvmr = True
    loop_bound = 200000
    max_paths = 200
    bigw = {'quick': 264, 'thorough': 264}
    functions = ['compiler::preprocessor::gather_dependencies (assemble, detect_modern, parse_sexp, frontend, Preprocessor::{run, process_pp_form, recurse_dependencies, process_include, process_embed})',
                 'clvmc::compile_clvm_text_maybe_opt and everything behind it (as under C01)',
                 '<DefaultCompilerOpts as CompilerOpts>::read_new_file']
    assumptions = ['two search directories d0, d1; the files a.clib (d0\'s copy includes b.clib, d1\'s does not), b.clib, h.hex, s.sexp exist in each directory according to one symbolic bit per (directory, file); the two copies of a file have different contents',
                   'fs::read is a stub answering from those bits and logging every read with the phase (listing / compilation) it happens in; PathBuf::{from,push,clone}, Path::to_str are modelled on byte strings',
                   'four program texts (cl21): include with a nested include, embed-file hex next to an include, embed-file sexp, embed-file bin']
    outside = 'the classic compiler\'s own include reader; other program texts; directories other than two; compile-file'

    def cases(self, tier):
        names = ('nested_include', 'embed_hex', 'embed_sexp') if tier == 'quick' else tuple(DEP_TEMPLATES)
        for t in names:
            if t == 'embed_hex':
                for pin in (True, False):           # split by one bit so the two halves run in parallel
                    yield dict(t=t, pin={'d0/h.hex': pin})
            else:
                yield dict(t=t)

    def files(self, case):
        src = DEP_TEMPLATES[case['t']]
        used = [f for f in ('a.clib', 'h.hex', 's.sexp') if f in src]
        if 'a.clib' in used:
            used.append('b.clib')
        return ['%s/%s' % (d, f) for f in used for d in ('d0', 'd1')]

    def sym_inputs(self, case):
        return dict(exists={p: z3.Bool('exists_' + p.replace('/', '_').replace('.', '_')) for p in self.files(case)})

    def conc_inputs(self, case, j):
        return dict(exists={p: z3.BoolVal(bool(j['exists'][p])) for p in self.files(case)})

    def inputs_json(self, case, inp, model):
        return dict(exists={p: bool(ev(model, e)) for p, e in inp['exists'].items()})

    def field_index(self, eng, name):
        src = open(os.path.join(eng.srcroots[0], 'src/compiler/compiler.rs')).read()
        m = re.search(r'pub struct DefaultCompilerOpts \{(.*?)\n\}', src, re.S)
        names = re.findall(r'^\s*(?:pub\s+)?(\w+)\s*:', m.group(1), re.M)
        return names.index(name)

    def opts(self, eng):
        from mirsym.driver import slice_of
        o = eng.call('DefaultCompilerOpts::new', [slice_of(conc_bytes(list(b'main.clsp')))])
        o.fields[self.field_index(eng, 'include_dirs')] = Vec([Vec(conc_bytes(b'd0')), Vec(conc_bytes(b'd1'))])
        return Cell(o, 'rc')

    def run(self, eng, case, inp):
        from mirsym.driver import slice_of
        from harness.convert import tls
        from harness.pipeline import bytes_of_items
        src = DEP_TEMPLATES[case['t']]
        ex = dict(inp['exists'])
        for p, v in (case.get('pin') or {}).items():
            eng.assume(ex[p] == z3.BoolVal(v))
        eng.env.update(stubs=DEP_STUBS, reads=[], exists=ex, phase='listing', tls=tls(True), exact_fmt=True)
        name = slice_of(conc_bytes(list(b'main.clsp')))
        text = slice_of(conc_bytes(list(src.encode())))
        lst = eng.call('compiler::preprocessor::gather_dependencies', [self.opts(eng), name, text])
        listed = None
        if lst.variant == 'Ok':
            listed = [bytes_of_items(eng.deref(d, None).fields[2]).decode('latin1') for d in lst.fields[0].items]
        eng.env['phase'] = 'compilation'
        alloc = Ref(Cell(Struct('Allocator', [])))
        symtab = Cell(eng.call('HashMap::<String, String>::new', []))
        comp = eng.call('clvmc::compile_clvm_text_maybe_opt', [alloc, mkbool(False), self.opts(eng), Ref(symtab), text, name, mkbool(True)])
        return dict(listed=listed, listing_ok=lst.variant == 'Ok', comp_ok=comp.variant == 'Ok', reads=list(eng.env['reads']))

    def obligations(self, eng, case, inp, out):
        T = lambda b: z3.BoolVal(bool(b))
        ex = inp['exists']
        obs = []
        read_by_compiler = sorted({n for ph, n, ok in out['reads'] if ph == 'compilation' and ok})
        if not out['listing_ok']:
            obs.append(('the_listing_succeeds_when_the_compilation_does', T(not out['comp_ok'])))
            return obs
        for n in read_by_compiler:
            obs.append(('listed_contains_every_file_the_compilation_reads:' + n, T(n in out['listed'])))
        for n in out['listed']:
            if n not in ex:
                obs.append(('listed_name_is_a_search_path_entry:' + n, T(False)))
                continue
            d, f = n.split('/', 1)
            earlier = [ex['%s/%s' % (e, f)] for e in ('d0', 'd1')[:('d0', 'd1').index(d)]]
            obs.append(('listed_name_is_the_first_match:' + n, z3.And(ex[n], *[z3.Not(e) for e in earlier])))
            obs.append(('listed_file_is_one_the_compilation_reads_or_the_compilation_fails:' + n, T(n in read_by_compiler or not out['comp_ok'])))
        return obs

    def output_json(self, eng, case, inp, out, model):
        return dict(listed=out['listed'], comp_ok=out['comp_ok'])

    def native_inputs(self, case, j):
        return dict(source=DEP_TEMPLATES[case['t']], dirs=['d0', 'd1'],
                    files=[[p, DEP_FILES[p]] for p in self.files(case) if j['exists'][p]])

    def native_matches(self, case, j, native, predicted):
        nl = native.get('listed')
        return (nl if isinstance(nl, list) else None) == predicted.get('listed') and native.get('compile', '').startswith('ok') == predicted.get('comp_ok')

    def is_violation(self, case, j, native):
        nl = native.get('listed')
        if not isinstance(nl, list):
            return native.get('compile', '').startswith('ok')
        if any(f not in nl for f in native.get('influences', [])):
            return True                       # a file whose removal changes the compilation is not listed
        for n in nl:
            d, f = n.split('/', 1)
            if not j['exists'].get(n) or (d == 'd1' and j['exists'].get('d0/' + f)):
                return True
        return False

    def oracle(self, case, j):
        return 'every file whose removal changes the native compilation is listed; every listed name is the first match in search order'

    def vectors(self, case, rnd):
        fs = self.files(case)
        vs = [{p: True for p in fs}, {p: p.startswith('d1') for p in fs}]
        for v in vs:
            for p, b in (case.get('pin') or {}).items():
                v[p] = b
        return [dict(exists=v) for v in vs]

    def witness_classes(self, case, inp, out):
        return [('compiles', z3.BoolVal(out['comp_ok'])), ('does_not_compile', z3.BoolVal(not out['comp_ok'])),
                ('lists_something', z3.BoolVal(bool(out['listed'])))]

    def required_witnesses(self, tier):
        return ['compiles', 'does_not_compile', 'lists_something']
