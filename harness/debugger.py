"""C12: the debugger's stepping loop (compiler::cldb::CldbRun::step over run_step) against the consensus evaluator.

Programs are the emitted CLVM of C01 templates (concrete, compiled from MIR and cross-checked) run on symbolic
arguments.  CldbRun is built the way `cldb` builds it (CldbRunEnv with no overrides, start_step) and stepped to the end
from MIR.  Printing of values into the row map is replaced by an opaque text (the printers are decided under C09); what
is checked is the *content* the rows are made from: the RunStep values the loop goes through."""
import re
import z3
from mirsym.driver import Harness, ev, sym_bytes, conc_bytes
from mirsym.engine import (Cell, Ref, Struct, Enum, Vec, mkint, mkbool, NONE, Some, Unsupported, PathEnd, concrete)
from mirsym.models_clvm import tree_to_json, tree_from_json, atom_node, pair_node, nil_node
from harness.codec import tree_eq
from harness.convert import tls
from harness import rich
from harness.pipeline import (compiled_program, arg_tree, arg_bytes, arg_json, TEMPLATES, SIGILS, list_value)

USED = ('arith', 'defun_if', 'if_lazy', 'cmp_ops', 'recursion', 'destructure')
MAX_STEPS = 600


class TaggedText(Vec):
    """the text a value was printed to, remembering the value (the printers themselves are decided under C09)"""
    def __init__(self, src):
        Vec.__init__(self, [mkint(0x3f, 'u8')])
        self.src = src


def tagged_text(eng, m, args, fr, dty):
    v = eng.deref(args[0], fr)
    while isinstance(v, Cell):
        v = v.v
    return TaggedText(v)


class TraceFaithful(Harness):
    name = 'trace_faithful'
    prop = 'C12'
    kernel = 'cldb_trace'
    with_clvmr = True
    loop_bound = 4000
    max_paths = 20000
    functions = ['cldb::CldbRun::{new, step, is_ended, final_result}', 'cldb::CldbRunEnv::{new, add_context, add_function, get_override}', 'clvm::{start_step, run_step, combine, eval_args, apply_op, ...}',
                 'cldb::improve_presentation', 'clvm::convert_from_clvm_rs / convert_to_clvm_rs', 'clvmr run_program (MIR) as the oracle, also for every (operator, arguments, value) triple']
    assumptions = ['the program is the emitted CLVM of one of three (thorough: six) C01 templates (cl21, concrete; compiled from MIR and cross-checked), the arguments are symbolic',
                   'the text put into the row map (to_string of values and locations) is replaced by an opaque string that remembers the value it was made from: the printers are decided under C09; the check reads the row maps that step() returns',
                   'at most %d steps per run (a longer run ends as `bound`)' % MAX_STEPS]
    outside = 'programs other than the six; hex input form; symbol-table driven function rows; row text'

    classes = {'apply_row_with_if_arguments': lambda case, inp: z3.BoolVal(case.get('part') == 'mixed')}

    def cases(self, tier):
        used = USED if tier == 'thorough' else ('defun_if', 'if_lazy', 'destructure')
        for name, src, specs in TEMPLATES:
            if name in used:
                for k in range(len(specs)):
                    yield dict(t=name, spec=k, part='rows')
        # the known finding is exhibited by one dedicated case, so that it suppresses nothing else
        yield dict(t='defun_if', spec=0, part='mixed')

    def native_checks(self, case):
        return [('compile', case['t'], 'cl21', False)]

    def tmpl(self, case):
        for name, src, specs in TEMPLATES:
            if name == case['t']:
                return src.replace('{S}', SIGILS['cl21']), specs[case['spec']]
        raise KeyError(case['t'])

    def sym_inputs(self, case):
        src, spec = self.tmpl(case)
        return dict(b=sym_bytes('a', arg_bytes(spec)))

    def conc_inputs(self, case, j):
        return dict(b=conc_bytes(j['b']))

    def inputs_json(self, case, inp, model):
        return dict(b=[ev(model, x.e) for x in inp['b']])

    def program_and_args(self, eng, case, inp):
        src, spec = self.tmpl(case)
        cp = compiled_program(src, False)
        if cp['end'] != 'ok' or not cp['agrees']:
            raise Unsupported('compilation under mirsym: %s' % cp['end'])
        return tree_from_json(cp['compiled']), arg_tree(spec, iter(inp['b']))

    def run(self, eng, case, inp):
        prog, args = self.program_and_args(eng, case, inp)
        eng.env['tls'] = tls(True)
        eng.env['stubs'] = [(re.compile(r'^<(Rc<compiler::sexp::SExp>|compiler::sexp::SExp|Srcloc|BigInt|usize) as ToString>::to_string$'), tagged_text)]
        alloc = Ref(Cell(Struct('Allocator', [])))
        dialect = Ref(Cell(Struct('ChiaDialect', [mkint(0x0102, 'u32')])))
        cons = eng.call('run_program::run_program', [alloc, dialect, prog, args, mkint(0, 'u64')])
        rp = eng.call('compiler::clvm::convert_from_clvm_rs', [alloc, rich.loc(), prog]).fields[0]
        ra = eng.call('compiler::clvm::convert_from_clvm_rs', [alloc, rich.loc(), args]).fields[0]
        pm = eng.call('compiler::prims::prim_map', [])
        runner = Cell(Struct('DefaultProgramRunner', []), 'rc')
        step0 = eng.call('compiler::clvm::start_step', [rp, ra])
        override = Cell(Struct('CldbNoOverride', []), 'box')
        env = Cell(eng.call('cldb::CldbRunEnv::new', [NONE(), Cell(Vec([]), 'rc'), override]), 'box')
        run_ = Cell(eng.call('cldb::CldbRun::new', [runner, pm, env, step0]))
        rows = 0
        triples = []
        pending = None
        steps = 0
        failed = False
        while True:
            ended = eng.call('cldb::CldbRun::is_ended', [Ref(run_)])
            if ended.c if ended.c is not None else eng.branch_bool(ended.e):
                break
            steps += 1
            if steps > MAX_STEPS:
                raise PathEnd('bound', 'debugger run longer than %d steps' % MAX_STEPS)
            r = eng.call('cldb::CldbRun::step', [Ref(run_), alloc])
            if r.variant == 'Some':
                rows += 1
                row = {}
                for k, c in r.fields[0].entries:
                    key = bytes(b.c if b.c is not None else 63 for b in eng.deref(k, None).items).decode('latin1')
                    row[key] = getattr(c.v, 'src', None)
                if all(row.get(k) is not None for k in ('Operator', 'Arguments', 'Value')):
                    triples.append((row['Operator'], row['Arguments'], row['Value']))
        final = eng.call('cldb::CldbRun::final_result', [Ref(run_)])
        return dict(cons=cons, final=final, rows=rows, triples=triples, alloc=alloc, dialect=dialect, steps=steps)

    def obligations(self, eng, case, inp, out):
        cons, final = out['cons'], out['final']
        obs = []
        if cons.variant != 'Ok':
            obs.append(('a_failure_entry_exactly_when_the_consensus_evaluator_fails', z3.BoolVal(final.variant == 'None')))
            return obs
        if final.variant != 'Some':
            return [('the_run_ends_with_a_final_value_when_the_consensus_evaluator_returns', z3.BoolVal(False))]
        ft = eng.call('compiler::clvm::convert_to_clvm_rs', [out['alloc'], final.fields[0]])
        if ft.variant != 'Ok':
            return [('final_value_is_a_clvm_value', z3.BoolVal(False))]
        obs.append(('final_value_is_the_consensus_result', tree_eq(ft.fields[0], cons.fields[0].fields[1])))
        # every (operator, evaluated arguments, value) the rows were built from is true of the consensus evaluator
        for k, (op, a, x) in enumerate(out['triples']):
            opt = eng.call('compiler::clvm::convert_to_clvm_rs', [out['alloc'], op if isinstance(op, Cell) else Cell(op, 'rc')])
            at = eng.call('compiler::clvm::convert_to_clvm_rs', [out['alloc'], a if isinstance(a, Cell) else Cell(a, 'rc')])
            xt = eng.call('compiler::clvm::convert_to_clvm_rs', [out['alloc'], x if isinstance(x, Cell) else Cell(x, 'rc')])
            if 'Err' in (opt.variant, at.variant, xt.variant):
                obs.append(('row_%d_values_are_clvm_values' % k, z3.BoolVal(False)))
                continue
            opb = [b.c if b.c is not None else concrete(b.e) for b in opt.fields[0].atom] if opt.fields[0].kind == 'atom' else None
            mixed = (opb == [2])           # an apply row never gets an Arguments entry of its own (CldbRunEnv::add_context)
            if case.get('part') == 'mixed':
                if mixed:
                    obs.append(('row_%d_reports_one_operator_with_its_own_arguments' % k, z3.BoolVal(False)))
                continue
            if mixed:
                continue
            # (OP (q . a1) (q . a2) ...) in the empty environment
            quoted = self.quote_list(at.fields[0])
            if quoted is None:
                continue                  # improper argument list: the operator call itself is what fails, no value row follows
            r = eng.call('run_program::run_program', [out['alloc'], out['dialect'], pair_node(opt.fields[0], quoted), nil_node(), mkint(0, 'u64')])
            if r.variant != 'Ok':
                obs.append(('row_%d_operator_returns_for_the_consensus_evaluator' % k, z3.BoolVal(False)))
            else:
                obs.append(('row_%d_value_is_what_the_operator_gives' % k, tree_eq(r.fields[0].fields[1], xt.fields[0])))
        return obs

    @staticmethod
    def quote_list(t):
        items = []
        while t.kind == 'pair':
            items.append(t.a)
            t = t.b
        if len(t.atom) != 0:
            return None
        return list_value([pair_node(atom_node([mkint(1, 'u8')]), x) for x in items])

    def output_json(self, eng, case, inp, out, model):
        f = out['final']
        return dict(rows=out['rows'], steps=out['steps'], ended_with_value=f.variant == 'Some', triples=len(out['triples']))

    def native_inputs(self, case, j):
        src, spec = self.tmpl(case)
        return dict(source=src, optimize=False, args=arg_json(spec, iter(j['b'])))

    def native_matches(self, case, j, native, predicted):
        return True

    def is_violation(self, case, j, native):
        # the native kernel re-reads every printed row that has Operator, Arguments and Value and asks clvmr about it
        if case.get('part') == 'mixed':
            return bool(native.get('mixed_rows'))
        cons = native.get('consensus', {})
        if 'ok' in cons:
            if native.get('final') is None or native.get('final_matches') is False:
                return True
        elif native.get('final') is not None:
            return True
        return bool(native.get('false_rows'))

    def oracle(self, case, j):
        return 'clvmr run_program on the same program and arguments, and on every (operator, arguments) pair the rows report'

    def witness_classes(self, case, inp, out):
        return [('returns', z3.BoolVal(out['cons'].variant == 'Ok')), ('fails', z3.BoolVal(out['cons'].variant != 'Ok')),
                ('has_rows', z3.BoolVal(len(out['triples']) > 0))]

    def required_witnesses(self, tier):
        return ['returns', 'has_rows']


def operator_headed(lsh):
    """every list in program position has an atom as its head (a pair there is the known finding F9, recorded under C06)"""
    if not isinstance(lsh, list):
        return True
    if isinstance(lsh[0], list):
        return False
    t = lsh[1]
    while isinstance(t, list):
        if not operator_headed(t[0]):
            return False
        t = t[1]
    return True


class RawTrace(TraceFaithful):
    """C12 on raw CLVM: every operator-headed program tree of the stated size over {q,a,i,c,f,r,l,x,=,+,-,paths,nil},
    stepped to the end by the debugger loop on a symbolic environment.  Part `final`: the whole alphabet, final value /
    failure entry against the consensus evaluator.  Part `rows`: the alphabet without `a` and `i` (whose rows are the
    known finding F19), every (operator, arguments, value) row as well."""
    name = 'raw_trace'
    functions = TraceFaithful.functions
    assumptions = ['the program is an arbitrary operator-headed tree of <=3 (thorough <=4) leaves plus the proper lists (OP A B C [D]); leaves are nil or one byte of {1..9,16,17}; environment leaves are arbitrary single bytes, except bytes that spell an operator name when the program can apply data (F10, recorded under C06)',
                   'part `rows` leaves `a` (2) and `i` (3) out of the alphabet: their rows are the known finding F19, exhibited by trace_faithful',
                   'the text put into the row map is replaced by an opaque string that remembers the value it was made from (as in trace_faithful)']
    outside = 'larger raw programs; a pair in operator position (F9, C06); operators outside the alphabet; row text; hex input form'
    classes = {}
    FOCUS = [['A', ['A', ['A', 'N']]], ['A', ['A', ['A', ['A', 'N']]]], ['A', ['A', ['A', ['A', ['A', 'N']]]]]]
    ENVS = {'quick': (['L', 'L'],), 'thorough': ('L', ['L', ['L', 'L']])}

    def cases(self, tier):
        from harness.stepper import prog_shapes, label_leaves
        import itertools
        seen = set()
        out = []
        for k in ((1, 2, 3) if tier == 'quick' else (1, 2, 3, 4)):
            for sh in prog_shapes(k):
                for mask in range(1 << k):
                    lsh = label_leaves(sh, mask, itertools.count())
                    if operator_headed(lsh) and repr(lsh) not in seen:
                        seen.add(repr(lsh))
                        out.append(lsh)
        for lsh in out:
            for env in self.ENVS[tier]:
                for part in ('final', 'rows'):
                    yield dict(raw=lsh, env=env, part=part)
        # proper lists (OP A B [C [D]]): argument-count handling lives there; split by the operator so the shards run in parallel
        for lsh in (self.FOCUS if tier == 'thorough' else self.FOCUS[:1]):
            if repr(lsh) not in seen:
                for part in ('final', 'rows'):
                    for op0 in self.alphabet(dict(part=part)):
                        yield dict(raw=lsh, env=self.ENVS[tier][-1], part=part, op0=op0)

    def native_checks(self, case):
        return []

    def alphabet(self, case):
        from harness.stepper import ALPHABET
        return [v for v in ALPHABET if case['part'] == 'final' or v not in (2, 3)]

    def sym_inputs(self, case):
        from harness.stepper import count_a
        from harness.codec import count_leaves
        return dict(atoms=sym_bytes('p', count_a(case['raw'])), env=[sym_bytes('e%d' % i, 1) for i in range(count_leaves(case['env']))])

    def conc_inputs(self, case, j):
        return dict(atoms=conc_bytes(j['atoms']), env=[conc_bytes(x) for x in j['env']])

    def inputs_json(self, case, inp, model):
        return dict(atoms=[ev(model, b.e) for b in inp['atoms']], env=[[ev(model, b.e) for b in x] for x in inp['env']])

    def program_and_args(self, eng, case, inp):
        from harness.stepper import build_prog, CoreEval
        from harness.codec import build_tree
        alpha = self.alphabet(case)
        for b in inp['atoms']:
            if b.c is None:
                eng.assume(z3.Or(*[b.e == v for v in alpha]))
        if case.get('op0') is not None and inp['atoms'][0].c is None:
            eng.assume(inp['atoms'][0].e == case['op0'])
        if 2 in alpha:
            for x in inp['env']:
                if x[0].c is None:
                    eng.assume(z3.And(*[x[0].e != c for c in CoreEval.NAME_CHARS]))
        return build_prog(case['raw'], iter(inp['atoms'])), build_tree(case['env'], iter(inp['env']))

    def obligations(self, eng, case, inp, out):
        if case['part'] == 'final':
            out = dict(out, triples=[])
        return TraceFaithful.obligations(self, eng, case, inp, out)

    def native_inputs(self, case, j):
        from harness.stepper import prog_json
        from harness.codec import json_tree
        return dict(prog=prog_json(case['raw'], iter(j['atoms'])), args=json_tree(case['env'], iter(j['env'])))

    def is_violation(self, case, j, native):
        if case['part'] == 'final':
            native = dict(native, false_rows=[])
        return TraceFaithful.is_violation(self, case, j, native)

    def vectors(self, case, rnd):
        from harness.stepper import count_a, CoreEval
        from harness.codec import count_leaves
        alpha = self.alphabet(case)
        ok = [0, 1, 2, 0x7f, 0x80, 0xff]
        vs = [dict(atoms=[rnd.choice(alpha) for _ in range(count_a(case['raw']))], env=[[rnd.choice(ok)] for _ in range(count_leaves(case['env']))])
              for _ in range(2 if case.get('op0') is None else 1)]
        if case.get('op0') is not None:
            for v in vs:
                v['atoms'][0] = case['op0']
        return vs

    def witness_classes(self, case, inp, out):
        return TraceFaithful.witness_classes(self, case, inp, out)

    def required_witnesses(self, tier):
        return ['returns', 'fails', 'has_rows']
