"""Constructors / converters for the compiler's rich SExp values (compiler::sexp::SExp) in mirsym."""
import z3
from mirsym.engine import Cell, Ref, Enum, Struct, Vec, Int, Big, Opaque, mkint, Some, NONE
from mirsym.models import from_signed

SEXP = 'compiler::sexp::SExp'


def loc(line=1, col=1):
    fname = Cell(Vec([mkint(b, 'u8') for b in b'*t*']), 'rc')
    return Struct('Srcloc', [fname, mkint(line, 'usize'), mkint(col, 'usize'), NONE()])


def nil():
    return Enum(SEXP, 'Nil', [loc()])


def atom(items):
    return Enum(SEXP, 'Atom', [loc(), Vec(list(items))])


def qs(items, q=0x22):
    return Enum(SEXP, 'QuotedString', [loc(), mkint(q, 'u8'), Vec(list(items))])


def integer(big_e):
    return Enum(SEXP, 'Integer', [loc(), Big(big_e)])


def cons(a, b):
    return Enum(SEXP, 'Cons', [loc(), rc(a), rc(b)])


def rc(v):
    return v if isinstance(v, Cell) else Cell(v, 'rc')


def unrc(v):
    return v.v if isinstance(v, Cell) else v


def from_json(j, bigw):
    """{"nil":1} | {"int": "dec"} | {"atom": [..]} | {"qs": [..]} | {"cons": [a, b]} -> rich value"""
    if 'nil' in j:
        return nil()
    if 'int' in j:
        return integer(z3.BitVecVal(int(j['int']), bigw))
    if 'atom' in j:
        return atom([mkint(b, 'u8') for b in j['atom']])
    if 'qs' in j:
        return qs([mkint(b, 'u8') for b in j['qs']])
    return cons(from_json(j['cons'][0], bigw), from_json(j['cons'][1], bigw))


def env_from_tree_json(t):
    """clvm tree json ([bytes] | {'p':[l,r]}) -> rich value with Atom leaves (nil for empty)"""
    if isinstance(t, dict):
        return cons(env_from_tree_json(t['p'][0]), env_from_tree_json(t['p'][1]))
    if not t:
        return nil()
    return atom([mkint(b, 'u8') for b in t])
