"""C19: atomic_write_file / gentle_overwrite executed from MIR against a nondeterministic file-system model.
Every primitive step is logged with the state of the target path after it, so a crash after any step leaves the
target in one of the logged states."""
import json
import os
import re
import subprocess
import tempfile
import z3
from mirsym.driver import Harness, sym_bytes, conc_bytes, ev_bytes, ev
from mirsym.engine import (Cell, Ref, Slice, Some, NONE, Enum, Struct, Vec, Int, Bool, Opaque, mkint, mkbool, PathEnd,
                           concrete, Ok, Err, UNIT, Unsupported)
from mirsym.models import items_of
from mirsym import models as _models


class FS:
    def __init__(self, prev, old):
        self.prev = prev              # 'absent' | 'present'
        self.old = old                # list of byte terms (contents when present)
        self.target = ('old',)        # ('old',) | ('data', items, complete: bool) | ('clobbered',)
        self.steps = []               # [(step name, target state)]
        self.temps = []

    def log(self, name):
        self.steps.append((name, self.target))


class PathV:
    def __init__(self, what, of=None):
        self.what, self.of = what, of      # 'path' | 'parent'

    def __repr__(self):
        return 'PathV(%s)' % self.what


class TempV:
    def __init__(self, dir_):
        self.dir = dir_
        self.items = []
        self.complete = False
        self.alive = True
        self.installed = False        # renamed over the target: the open file *is* the target now


def fs_of(eng):
    return eng.env['fs']


def nondet(eng, *labels):
    return eng.choose([(l, z3.BoolVal(True)) for l in labels])


def s_path_new(eng, m, args, fr, dty):
    return PathV('path', items_of(eng, args[0], fr))


def s_path_parent(eng, m, args, fr, dty):
    p = args[0]
    if nondet(eng, 'some', 'none') == 'none':
        return NONE()
    return Some(PathV('parent', p))


def s_new_in(eng, m, args, fr, dty):
    d = eng.deref(args[0], fr)
    fs = fs_of(eng)
    if nondet(eng, 'ok', 'err') == 'err':
        fs.log('tempfile_create_failed')
        return Err(Opaque('io::Error'))
    t = TempV(d)
    fs.temps.append(t)
    fs.log('tempfile_created')
    return Ok(Struct('NamedTempFile', [t]))


def temp_of(eng, v, fr):
    v = eng.deref(v, fr)
    while isinstance(v, Cell):
        v = v.v
    if isinstance(v, Struct) and v.ty in ('NamedTempFile', 'File', 'TempPath'):
        return v.fields[0]
    if isinstance(v, Struct) and v.ty == 'BufWriter':
        return temp_of(eng, v.fields[0], fr)
    raise Unsupported('not a temp file: %r' % (v,))


def file_write(eng, t, data, may_fail=True):
    """bytes reach the open file t; when t has been renamed over the target they change the target in place"""
    fs = fs_of(eng)
    k = nondet(eng, *(['ok'] + (['fail_after_%d' % i for i in range(len(data))] if may_fail else []))) if data else 'ok'
    n = len(data) if k == 'ok' else int(k.rsplit('_', 1)[1])
    t.items = t.items + data[:n]
    t.complete = (k == 'ok') and not getattr(t, 'pending', None)
    if t.installed:
        fs.target = ('data', list(t.items), False)      # written in place, a reader can see any prefix
        fs.log('target_written_in_place_after_rename')
        if k == 'ok':
            fs.target = ('data', list(t.items), t.complete)
            fs.log('target_in_place_write_finished')
    else:
        fs.log('temp_written' if k == 'ok' else 'temp_write_failed_after_%d' % n)
    return k == 'ok'


def s_into_parts(eng, m, args, fr, dty):
    t = temp_of(eng, args[0], fr)
    return Struct('()', [Struct('File', [t]), Struct('TempPath', [t])])


def s_bufwriter_new(eng, m, args, fr, dty):
    return Struct('BufWriter', [args[0], []])


def s_buf_write_all(eng, m, args, fr, dty):
    w = eng.deref(args[0], fr)
    while isinstance(w, Cell):
        w = w.v
    data = list(items_of(eng, args[1], fr))
    t = temp_of(eng, w, fr)
    # std's BufWriter keeps anything smaller than its 8 KiB buffer in memory until flush or drop
    w.fields[1] = w.fields[1] + data
    t.pending = bool(w.fields[1])
    if not t.pending and not t.items:
        t.complete = True                  # write_all(&[]) with an empty buffer: nothing is owed to the file
    fs_of(eng).log('buffered_in_memory')
    return Ok(UNIT)


def buf_flush(eng, w, fr, may_fail):
    t = temp_of(eng, w, fr)
    data, w.fields[1] = w.fields[1], []
    t.pending = False
    if not data:
        return True
    return file_write(eng, t, data, may_fail)


def s_buf_flush(eng, m, args, fr, dty):
    w = eng.deref(args[0], fr)
    while isinstance(w, Cell):
        w = w.v
    return Ok(UNIT) if buf_flush(eng, w, fr, True) else Err(Opaque('io::Error'))


def s_drop_bufwriter(eng, v, fr):
    buf_flush(eng, v, fr, True)            # errors are ignored by Drop


def s_file_write_all(eng, m, args, fr, dty):
    t = temp_of(eng, args[0], fr)
    return Ok(UNIT) if file_write(eng, t, list(items_of(eng, args[1], fr))) else Err(Opaque('io::Error'))


def s_file_ok(eng, m, args, fr, dty):
    return Ok(UNIT)


def s_temp_path(eng, m, args, fr, dty):
    return Opaque('temp path')


def s_write_all(eng, m, args, fr, dty):
    t = temp_of(eng, args[0], fr)
    data = list(items_of(eng, args[1], fr))
    # write_all(&[]) performs no write and cannot fail; otherwise it fails after any proper prefix
    if not data:
        t.complete = True
        fs_of(eng).log('temp_written')
        return Ok(UNIT)
    return Ok(UNIT) if file_write(eng, t, data) else Err(Opaque('io::Error'))


def same_dir(t, path_items_or_pathv):
    """temp was created in the parent directory of the path it is renamed to"""
    d = t.dir
    return isinstance(d, PathV) and d.what == 'parent'


def s_persist(eng, m, args, fr, dty):
    t = temp_of(eng, args[0], fr)
    fs = fs_of(eng)
    if nondet(eng, 'ok', 'err') == 'err':
        fs.log('rename_failed')
        v = eng.deref(args[0], fr)
        while isinstance(v, Cell):
            v = v.v
        if isinstance(v, Struct) and v.ty == 'TempPath':
            return Err(Struct('PathPersistError', [Opaque('io::Error'), Struct('TempPath', [t])]))
        return Err(Struct('PersistError', [Opaque('io::Error'), Struct('NamedTempFile', [t])]))
    if not same_dir(t, args[1]):
        fs.target = ('clobbered',)          # cross-directory persist is not an atomic rename
    else:
        fs.target = ('data', list(t.items), t.complete)
    t.alive = False
    t.installed = True
    fs.log('renamed_over_target')
    return Ok(Opaque('File'))


def s_read_to_string(eng, m, args, fr, dty):
    fs = fs_of(eng)
    if fs.prev == 'absent':
        return Err(Opaque('io::Error'))
    if nondet(eng, 'ok', 'err') == 'err':
        return Err(Opaque('io::Error'))
    fs.log('read_ok')
    return Ok(Vec(list(fs.old)))


def s_direct_write(eng, m, args, fr, dty):
    fs = fs_of(eng)
    fs.target = ('clobbered',)
    fs.log('direct_write_to_a_path:' + m.group(0)[:40])
    return Ok(UNIT) if 'remove' in m.group(0) or 'write' in m.group(0) else Ok(Opaque('file'))


def s_drop_temp(eng, v, fr):
    t = v.fields[0]
    if isinstance(t, TempV) and t.alive:
        t.alive = False
        fs_of(eng).log('temp_removed')


_models.DROP_MODELS['NamedTempFile'] = s_drop_temp
_models.DROP_MODELS['TempPath'] = s_drop_temp
_models.DROP_MODELS['PathPersistError'] = lambda eng, v, fr: s_drop_temp(eng, v.fields[1], fr)
_models.DROP_MODELS['BufWriter'] = s_drop_bufwriter
_models.DROP_MODELS['PersistError'] = lambda eng, v, fr: s_drop_temp(eng, v.fields[1], fr)

STUBS = [
    (re.compile(r'^(std::path::)?Path::new::<.*>$'), s_path_new),
    (re.compile(r'^(std::path::)?Path::parent$'), s_path_parent),
    (re.compile(r'^(tempfile::)?NamedTempFile::new_in::<.*>$'), s_new_in),
    (re.compile(r'^(tempfile::)?NamedTempFile::new$|^(tempfile::)?(tempfile|tempdir|Builder::.*)$'),
     lambda eng, m, args, fr, dty: s_new_in(eng, m, [Ref(Cell(PathV('system temp dir')))], fr, dty)),
    (re.compile(r'^(tempfile::)?NamedTempFile::path$'), s_temp_path),
    (re.compile(r'^<(tempfile::)?NamedTempFile as (std::io::)?Write>::write_all$'), s_write_all),
    (re.compile(r'^(tempfile::)?NamedTempFile::persist::<.*>$'), s_persist),
    (re.compile(r'^(tempfile::)?TempPath::persist::<.*>$'), s_persist),
    (re.compile(r'^(tempfile::)?NamedTempFile::into_parts$'), s_into_parts),
    (re.compile(r'^(std::io::)?BufWriter::<.*>::new$'), s_bufwriter_new),
    (re.compile(r'^<(std::io::)?BufWriter<.*> as (std::io::)?Write>::write_all$'), s_buf_write_all),
    (re.compile(r'^<(std::io::)?BufWriter<.*> as (std::io::)?Write>::flush$'), s_buf_flush),
    (re.compile(r'^<(std::fs::)?File as (std::io::)?Write>::write_all$'), s_file_write_all),
    (re.compile(r'^<(std::fs::)?File as (std::io::)?Write>::flush$|^(std::fs::)?File::sync_(all|data)$|^<(tempfile::)?NamedTempFile as (std::io::)?Write>::flush$'), s_file_ok),
    (re.compile(r'^(std::)?fs::read_to_string::<.*>$'), s_read_to_string),
    (re.compile(r'^(std::)?fs::(write|copy|rename|remove_file|File::create|OpenOptions::open)(::<.*>)?$|^(std::fs::)?File::create::<.*>$'), s_direct_write),
]


class AtomicWrite(Harness):
    name = 'atomic_write'
    prop = 'C19'
    kernel = 'strace'
    follow_unwind = True
    functions = ['util::atomic_write_file', 'util::gentle_overwrite', 'their four closures']
    assumptions = ['file system model: NamedTempFile::new_in(dir) creates a fresh file in dir or fails; write_all writes everything or fails after any prefix; persist is an atomic rename when the temp file is in the target\'s directory and may fail leaving the target untouched; dropping a temp file removes it; any other fs call that can write is treated as clobbering the target',
                   'trusted: POSIX rename atomicity, O_EXCL temp names (tempfile crate)',
                   'concurrency is argued from the invariant (the only step that changes the target installs complete new contents), not explored']
    outside = 'interleavings of several writers (sequential engine); data longer than the stated length'

    def cases(self, tier):
        for fn in ('atomic_write_file', 'gentle_overwrite'):
            for prev in ('absent', 'present'):
                for n in ((0, 1, 2) if tier == 'quick' else (0, 1, 2, 3)):
                    for mlen in ((0, 1, 2) if prev == 'present' else (0,)):
                        yield dict(fn=fn, prev=prev, n=n, m=mlen)
                    if fn == 'gentle_overwrite' and prev == 'present':
                        yield dict(fn=fn, prev=prev, n=n, m=n, same=True)

    def sym_inputs(self, case):
        new = sym_bytes('new', case['n'])
        return dict(new=new, old=list(new) if case.get('same') else sym_bytes('old', case['m']))

    def conc_inputs(self, case, j):
        return dict(new=conc_bytes(j['new']), old=conc_bytes(j['new'] if case.get('same') else j['old']))

    def inputs_json(self, case, inp, model):
        return dict(new=ev_bytes(model, inp['new']), old=ev_bytes(model, inp['old']))

    def run(self, eng, case, inp):
        for b in inp['new'] + inp['old']:
            eng.assume(z3.ULT(b.e, 128))          # &str contents: ASCII in the model
        fs = FS(case['prev'], inp['old'])
        eng.env['fs'] = fs
        eng.env['stubs'] = STUBS
        sl = lambda items: Slice(Ref(Cell(Vec(list(items)))), 0, len(items))
        try:
            r = eng.call('util::' + case['fn'], [sl(conc_bytes(b'in.clsp')), sl(conc_bytes(b'out.hex')), sl(inp['new'])])
            panicked = False
        except PathEnd as p:
            if p.kind != 'panic':
                raise
            r, panicked = None, True
        return dict(res=r, fs=fs, panicked=panicked)

    def state_ok(self, st, inp):
        if st[0] == 'old':
            return z3.BoolVal(True)
        if st[0] == 'clobbered':
            return z3.BoolVal(False)
        _, items, complete = st
        if not complete or len(items) != len(inp['new']):
            return z3.BoolVal(False)
        return z3.And(*[a.e == b.e for a, b in zip(items, inp['new'])]) if items else z3.BoolVal(True)

    def obligations(self, eng, case, inp, out):
        fs = out['fs']
        obs = []
        for k, (name, st) in enumerate(fs.steps):
            obs.append(('target_old_or_complete_new_after_step_%d_%s' % (k, name[:40]), self.state_ok(st, inp)))
        if out['panicked']:
            obs.append(('no_panic', z3.BoolVal(False)))
            return obs
        r = out['res']
        # success means the new contents are installed
        if r.variant == 'Ok' and case['fn'] == 'atomic_write_file':
            installed = fs.target[0] == 'data'
            obs.append(('ok_means_installed', z3.BoolVal(installed)))
        if case['fn'] == 'gentle_overwrite' and case.get('same') and any(n == 'read_ok' for n, _ in fs.steps):
            # equal contents (and the previous file was readable) => Ok whatever failed afterwards
            obs.append(('equal_contents_succeed_even_if_rewrite_fails', z3.BoolVal(r.variant == 'Ok')))
        return obs or [('no_steps', z3.BoolVal(True))]

    def output_json(self, eng, case, inp, out, model):
        return dict(steps=[n for n, _ in out['fs'].steps], result=None if out['res'] is None else out['res'].variant)

    # ---- native judgement through strace: the real function is run on a real directory
    def run_native(self, items):
        from mirsym import driver
        if driver.NATIVE.bin is None:
            driver.NATIVE.build()
        outs = []
        for it in items:
            outs.append(strace_run(driver.NATIVE.bin, it['case'], it['inputs']))
        return outs

    def native_matches(self, case, j, native, predicted):
        return True

    def native_inputs_pred(self, case, j, predicted):
        d = dict(j)
        steps = (predicted or {}).get('steps', []) if isinstance(predicted, dict) else []
        faults = []
        if any(s_.startswith('temp_write_failed') for s_ in steps):
            faults.append('write')
        if 'rename_failed' in steps:
            faults.append('rename')
        d['faults'] = faults
        return d

    def is_violation(self, case, j, native):
        return bool(native.get('problems'))

    def oracle(self, case, j):
        return 'target only ever replaced by rename of a complete temp file created in its directory'

    def vectors(self, case, rnd):
        return [dict(new=[0x61] * case['n'], old=[0x62] * case['m'])]

    def witness_classes(self, case, inp, out):
        return [('renamed', z3.BoolVal(any(n == 'renamed_over_target' for n, _ in out['fs'].steps))),
                ('write_failed', z3.BoolVal(any(n.startswith('temp_write_failed') for n, _ in out['fs'].steps)))]

    def required_witnesses(self, tier):
        return ['renamed', 'write_failed']


def strace_run(binpath, case, inputs):
    """run the real routine on a scratch directory under strace and inspect the system calls touching the target"""
    d = tempfile.mkdtemp(prefix='verif_c19_')
    try:
        target = os.path.join(d, 'out.hex')
        old = bytes(inputs.get('old', []))
        new = bytes(inputs.get('new', []))
        if case['prev'] == 'present':
            with open(target, 'wb') as f:
                f.write(old)
        log = os.path.join(d, 'strace.log')
        req = json.dumps([dict(case=case, inputs=dict(target=target, new=list(new)))])
        inject = []
        if 'write' in inputs.get('faults', []):
            inject += ['-e', 'inject=write:error=EIO:when=1']      # the first write of the process is to the temp file
        if 'rename' in inputs.get('faults', []):
            inject += ['-e', 'inject=rename,renameat,renameat2,link,linkat:error=EACCES']
        p = subprocess.run(['strace', '-f', '-o', log, '-e', 'trace=open,openat,creat,rename,renameat,renameat2,link,linkat,unlink,unlinkat,write,truncate,ftruncate'] + inject +
                           [binpath, 'atomic_write'], input=req, stdout=subprocess.PIPE, stderr=subprocess.PIPE, text=True, timeout=120)
        problems = []
        try:
            res = json.loads(p.stdout.strip().split('\n')[-1])[0]
        except Exception:
            res = {'error': p.stderr[-300:]}
        lines = open(log).read().split('\n') if os.path.exists(log) else []
        renamed_from = None
        for l in lines:
            if target in l and re.search(r'\b(open|openat|creat)\(', l) and re.search(r'O_WRONLY|O_RDWR|O_TRUNC|O_CREAT|creat\(', l):
                problems.append('target opened for writing: ' + l.strip()[:160])
            if re.search(r'\b(truncate)\(', l) and target in l:
                problems.append('target truncated: ' + l.strip()[:160])
            mw = re.search(r'\bwrite\((\d+),', l)
            if mw and int(mw.group(1)) >= 3 and renamed_from is not None:
                problems.append('a file is written after it was renamed over the target (the target is incomplete in between): ' + l.strip()[:120])
            m = re.search(r'rename(?:at2?|)\((?:AT_FDCWD, )?"([^"]+)", (?:AT_FDCWD, )?"([^"]+)"', l)
            if m and m.group(2) == target and '= 0' in l.rsplit(')', 1)[-1]:
                renamed_from = m.group(1)
                if os.path.dirname(m.group(1)) != os.path.dirname(target):
                    problems.append('renamed from another directory: ' + m.group(1))
        final = open(target, 'rb').read() if os.path.exists(target) else None
        if res.get('result') == 'Ok':
            if renamed_from is None and not (case['fn'] == 'gentle_overwrite' and case['prev'] == 'present' and old.strip() == new.strip()):
                problems.append('returned Ok without renaming a file over the target')
            kept_old = (case['fn'] == 'gentle_overwrite' and case['prev'] == 'present' and final == old and old.strip() == new.strip())
            if final != new and not kept_old:
                problems.append('final contents are neither the new contents nor (for equal programs) the untouched old file')
        else:
            if final not in (None if case['prev'] == 'absent' else old, new):
                problems.append('after an error the target is neither old nor new')
        if case['fn'] == 'gentle_overwrite' and case['prev'] == 'present' and old.strip() == new.strip() and res.get('result') != 'Ok':
            problems.append('gentle_overwrite failed although the contents are equal')
        return dict(result=res.get('result'), problems=problems, renamed_from=bool(renamed_from))
    finally:
        subprocess.run(['rm', '-rf', d])
