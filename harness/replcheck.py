"""C16: the REPL / partial evaluator against the compiler.

Phase 1 (concrete, cached per source key): an interactive session - definitions, then an expression with free
variables - is run through compiler::repl::Repl::process_line from MIR (frontend, Evaluator::shrink_bodyform); the
printed results must equal the native build's.  Two programs are then compiled from MIR as under C01:
(mod (FREE...) DEFS EXPR) and (mod (FREE...) DEFS RESIDUAL).
Phase 2: both run on symbolic arguments; whenever the original returns a value the residual returns the same value.
For sessions without free variables the REPL's constant must be the value of (mod () DEFS EXPR)."""
import hashlib
import json
import os
import time
import z3
from mirsym.driver import Harness, ev, slice_of, conc_bytes, sym_bytes
from mirsym.engine import (Engine, Cell, Ref, Struct, Vec, mkint, Unsupported)
from mirsym.models_clvm import tree_to_json, tree_from_json
from harness.codec import tree_eq
from harness.convert import tls
from harness import pipeline
from harness.pipeline import (compiled_program, arg_tree, arg_bytes, arg_json, bytes_of_items, RefEval, RefFail, RefOutside,
                              read_forms, engine_key, ROOT)

SIG = '(include *standard-cl-21*)'

# (name, definitions, expression, free variables, argument spec or None)
SESSIONS = [
    ('if_partly_known', ['(defun F (A B) (if A (+ A B) (* B 2)))'], '(F X 3)', ['X'], [('list', 'B'), ('list', 'E')]),
    ('inline_and_let', ['(defun-inline G (A) (let ((Z (+ A 1))) (c Z A)))'], '(G (- X 2))', ['X'], [('list', 'B')]),
    ('two_free', ['(defun H (P Q) (if (= P 1) (c P Q) (c Q P)))'], '(H X Y)', ['X', 'Y'], [('list', 'B', 'B')]),
    ('list_building', ['(defun K (L) (if L (c (+ (f L) 1) (K (r L))) ()))'], '(K (list X 2 Y))', ['X', 'Y'], [('list', 'B', 'B')]),
    ('at_capture_if', ['(defun pass (A (@ Z (B D)) E) (if A B (c D Z)))'], '(pass () P 3)', ['P'], [('list', ('list', 'B', 'B', 'B')), ('list', ('list', 'B', 'B'))]),
    ('constant_result', ['(defun F (A B) (if A (+ A B) (* B 2)))'], '(F 5 3)', [], [('list',)]),
    ('constant_through_recursion', ['(defun sum (L) (if L (+ (f L) (sum (r L))) 0))'], '(sum (list 1 2 3 4))', [], [('list',)]),
]


def session_from_mir(lines):
    from mirsym import driver
    fs, key, roots = driver.funcs(True)
    eng = Engine(fs, roots, bigw=264, loop_bound=200000, query_timeout_ms=20000)
    eng.max_depth = 20000

    def run(e):
        e.env['tls'] = tls(True)
        e.env['exact_fmt'] = True
        alloc = Ref(Cell(Struct('Allocator', [])))
        name = slice_of(conc_bytes(list(b'*repl*')))
        opts = e.call('DefaultCompilerOpts::new', [name])
        runner = Cell(Struct('DefaultProgramRunner', []), 'rc')
        repl = Cell(e.call('repl::Repl::new', [Cell(opts, 'rc'), runner]))
        outs = []
        for ln in lines:
            r = e.call('repl::Repl::process_line', [Ref(repl), alloc, Vec(conc_bytes(list(ln.encode())))])
            if r.variant == 'Ok' and r.fields[0].variant == 'Some':
                bf = r.fields[0].fields[0]
                sx = e.call('BodyForm::to_sexp', [Ref(bf) if isinstance(bf, Cell) else bf])
                txt = e.do_call('<Rc<compiler::sexp::SExp> as ToString>::to_string', [Ref(Cell(sx))], None)
                outs.append(bytes_of_items(txt).decode('latin1'))
            elif r.variant == 'Ok':
                outs.append('Ok:None')
            else:
                outs.append('Err')
        return outs
    t0 = time.time()
    res = list(eng.explore(run, max_paths=2))
    out = dict(wall_s=round(time.time() - t0, 1), functions=dict(eng.encoded))
    if len(res) != 1 or res[0][0] != 'done':
        out.update(end=res[0][0] if res else 'none', msg=str(res[0][2])[:600] if res else '', outputs=None)
    else:
        out.update(end='ok', outputs=res[0][2])
    return out


def session(lines):
    from mirsym import driver
    fs, key, roots = driver.funcs(True)
    d = os.path.join(ROOT, '.cache', 'compiled', '%s-%s' % (key[:12], engine_key()))
    os.makedirs(d, exist_ok=True)
    path = os.path.join(d, 'repl-' + hashlib.sha256(json.dumps(lines).encode()).hexdigest()[:24] + '.json')
    if os.path.exists(path):
        try:
            return json.load(open(path))
        except Exception:
            pass
    res = session_from_mir(lines)
    nat = driver.NATIVE.run('repl', [dict(case={}, inputs=dict(lines=lines))])[0]
    res['native_outputs'] = nat.get('outputs')
    res['agrees'] = res.get('outputs') is not None and [o if not o.startswith('Err') else 'Err' for o in nat.get('outputs', [])] == res['outputs']
    tmp = path + '.%d.tmp' % os.getpid()
    json.dump(res, open(tmp, 'w'))
    os.rename(tmp, path)
    return res


class ReplAgrees(Harness):
    name = 'repl_agrees'
    prop = 'C16'
    kernel = 'compile_text'
    with_clvmr = True
    loop_bound = 4000
    max_paths = 20000
    functions = ['repl::Repl::{new, process_line}', 'frontend', 'Evaluator::{new, add_helper, shrink_bodyform, ...}', 'BodyForm::to_sexp',
                 'clvmc::compile_clvm_text_maybe_opt (original and residual programs)', 'clvmr run_program (MIR)']
    assumptions = ['the session (definitions, expression) is one of the stated ones, concrete; its printed results under mirsym must equal the native build\'s',
                   'free variables of the expression become the parameters of both programs; every atom leaf of the stated argument shape is symbolic',
                   'both programs are compiled (from MIR, cross-checked) with the cl21 sigil']
    outside = 'sessions other than the stated ones; the REPL\'s own error handling and multi-line input'

    def cases(self, tier):
        for name, defs, expr, free, specs in SESSIONS:
            for k in range(len(specs)):
                yield dict(s=name, spec=k)

    def native_checks(self, case):
        return [('repl-session', case['s']), ('compile', 'repl-original:' + case['s']), ('compile', 'repl-residual:' + case['s'])]

    def sess(self, case):
        for row in SESSIONS:
            if row[0] == case['s']:
                return row
        raise KeyError(case['s'])

    def sym_inputs(self, case):
        name, defs, expr, free, specs = self.sess(case)
        return dict(b=sym_bytes('a', arg_bytes(specs[case['spec']])))

    def conc_inputs(self, case, j):
        return dict(b=conc_bytes(j['b']))

    def inputs_json(self, case, inp, model):
        return dict(b=[ev(model, x.e) for x in inp['b']])

    def programs(self, case, residual):
        name, defs, expr, free, specs = self.sess(case)
        head = '(mod (%s) %s %s ' % (' '.join(free), SIG, ' '.join(defs))
        return head + expr + ')', head + residual + ')'

    def run(self, eng, case, inp):
        name, defs, expr, free, specs = self.sess(case)
        ses = session(defs + [expr])
        for k, v in ses.get('functions', {}).items():
            eng.encoded.setdefault(k, v)
        if ses['end'] != 'ok' or not ses['agrees']:
            raise Unsupported('REPL session under mirsym: end=%s mirsym=%s native=%s %s' % (ses['end'], ses.get('outputs'), ses.get('native_outputs'), ses.get('msg', '')))
        residual = ses['outputs'][-1]
        if residual in ('Err', 'Ok:None'):
            return dict(no_reduction=True)
        p_orig, p_res = self.programs(case, residual)
        cps = []
        for src in (p_orig, p_res):
            cp = compiled_program(src, False)
            if cp['end'] not in ('ok', 'err') or not cp['agrees']:
                raise Unsupported('compilation under mirsym: %s %s' % (cp['end'], cp.get('msg', '')))
            cps.append(cp['compiled'])
        if cps[0] is None:
            return dict(no_reduction=True)
        if cps[1] is None:
            return dict(residual_does_not_compile=True, residual=residual)
        eng.env['tls'] = tls(True)
        alloc = Ref(Cell(Struct('Allocator', [])))
        dialect = Ref(Cell(Struct('ChiaDialect', [mkint(0x0102, 'u32')])))
        args = arg_tree(specs[case['spec']], iter(inp['b']))
        r0 = eng.call('run_program::run_program', [alloc, dialect, tree_from_json(cps[0]), args, mkint(0, 'u64')])
        r1 = eng.call('run_program::run_program', [alloc, dialect, tree_from_json(cps[1]), args, mkint(0, 'u64')])
        return dict(r0=r0, r1=r1, residual=residual, constant=not free)

    def obligations(self, eng, case, inp, out):
        if out.get('no_reduction'):
            return []
        if out.get('residual_does_not_compile'):
            return [('the_residual_compiles', z3.BoolVal(False))]
        r0, r1 = out['r0'], out['r1']
        if r0.variant != 'Ok':
            return []                      # the original does not return a value: nothing is required (the evaluator may be lazier)
        if r1.variant != 'Ok':
            return [('the_residual_returns_a_value_where_the_original_does', z3.BoolVal(False))]
        return [('the_residual_returns_what_the_original_returns', tree_eq(r0.fields[0].fields[1], r1.fields[0].fields[1]))]

    def output_json(self, eng, case, inp, out, model):
        if 'r0' not in out:
            return dict(note='no reduction' if out.get('no_reduction') else 'residual does not compile', residual=out.get('residual'))
        return dict(residual=out['residual'], res=[tree_to_json(model, r.fields[0].fields[1], ev) if r.variant == 'Ok' else None for r in (out['r0'], out['r1'])])

    def native_inputs_pred(self, case, j, predicted):
        name, defs, expr, free, specs = self.sess(case)
        residual = (predicted or {}).get('residual') or session(defs + [expr])['outputs'][-1]
        p_orig, p_res = self.programs(case, residual)
        return dict(source=p_orig, optimize=False, source_b=p_res, optimize_b=False, args=arg_json(specs[case['spec']], iter(j['b'])))

    def native_inputs(self, case, j):
        return self.native_inputs_pred(case, j, None)

    def native_matches(self, case, j, native, predicted):
        if not isinstance(predicted, dict) or 'res' not in predicted:
            return True
        return [native.get('result', {}).get('ok'), native.get('result_b', {}).get('ok')] == predicted['res']

    def is_violation(self, case, j, native):
        ra, rb = native.get('result', {}), native.get('result_b', {})
        return 'ok' in ra and ra.get('ok') != rb.get('ok')

    def oracle(self, case, j):
        return 'the program compiled from the same definitions and the original expression, on the same arguments'

    def witness_classes(self, case, inp, out):
        return [('reduced', z3.BoolVal('r0' in out)), ('original_returns', z3.BoolVal('r0' in out and out['r0'].variant == 'Ok'))]

    def required_witnesses(self, tier):
        return ['reduced', 'original_returns']
