/* CPython 3.11 allocates its 16 KiB frame data-stack chunks with mmap and returns them with munmap every time the call
 * depth crosses a chunk boundary; a deeply recursive interpreter such as mirsym does that hundreds of thousands of times
 * per run, and in this sandbox page faults are expensive and serialise across processes.  This arena allocator keeps a
 * free list of such chunks; everything else is mmap/munmap exactly as the default allocator does. */
#include <sys/mman.h>
#include <stddef.h>
#define CHUNK 16384
#define MAXCACHE 65536
static void *cache[MAXCACHE];
static int ncache = 0;
void *vp_alloc(void *ctx, size_t size) {
    (void)ctx;
    if (size == CHUNK && ncache > 0) return cache[--ncache];
    void *p = mmap(NULL, size, PROT_READ | PROT_WRITE, MAP_PRIVATE | MAP_ANONYMOUS, -1, 0);
    return p == MAP_FAILED ? NULL : p;
}
void vp_free(void *ctx, void *ptr, size_t size) {
    (void)ctx;
    if (size == CHUNK && ncache < MAXCACHE) { cache[ncache++] = ptr; return; }
    munmap(ptr, size);
}
