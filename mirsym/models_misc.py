"""Models of small third-party helpers: binascii::{hex2bin,bin2hex}, hex::{encode,decode}."""
import z3
from .engine import (Int, Bool, Struct, Enum, Vec, Cell, Ref, Slice, Opaque, mkint, mkbool, concrete, Unsupported,
                     PathEnd, Ok, Err, UNIT)
from .models import model, items_of, as_slice


def hexval(eng, d):
    """fork on the digit class of byte term d -> 4-bit-in-8 value term, or None if not a hex digit"""
    e = d.e
    if eng.branch_bool(z3.And(z3.UGE(e, 0x30), z3.ULE(e, 0x39))):
        return e - 0x30
    if eng.branch_bool(z3.And(z3.UGE(e, 0x61), z3.ULE(e, 0x66))):
        return e - 0x61 + 10
    if eng.branch_bool(z3.And(z3.UGE(e, 0x41), z3.ULE(e, 0x46))):
        return e - 0x41 + 10
    return None


@model(r'^(binascii::)?hex2bin$')
def _hex2bin(eng, m, args, fr, dty):
    inp = items_of(eng, args[0], fr)
    out = as_slice(eng, args[1], fr)
    if len(inp) % 2:
        return Err(Enum('ConvertError', 'InvalidInputLength'))
    if len(inp) // 2 > out.length:
        return Err(Enum('ConvertError', 'InvalidOutputLength'))
    base = eng.deref(out.ref, fr)
    for k in range(len(inp) // 2):
        hi = hexval(eng, inp[2 * k])
        if hi is None:
            return Err(Enum('ConvertError', 'InvalidInput'))
        lo = hexval(eng, inp[2 * k + 1])
        if lo is None:
            return Err(Enum('ConvertError', 'InvalidInput'))
        base.items[out.start + k] = Int((hi << 4) | lo, 8, False)
    return Ok(Slice(out.ref, out.start, len(inp) // 2))


def hexdigit(nib):
    return z3.If(z3.ULT(nib, 10), nib + 0x30, nib + 0x57)


@model(r'^(binascii::)?bin2hex$')
def _bin2hex(eng, m, args, fr, dty):
    inp = items_of(eng, args[0], fr)
    out = as_slice(eng, args[1], fr)
    if out.length < 2 * len(inp):
        return Err(Enum('ConvertError', 'InvalidOutputLength'))
    base = eng.deref(out.ref, fr)
    for k, b in enumerate(inp):
        base.items[out.start + 2 * k] = Int(hexdigit(z3.LShR(b.e, 4)), 8, False)
        base.items[out.start + 2 * k + 1] = Int(hexdigit(b.e & 0x0f), 8, False)
    return Ok(Slice(out.ref, out.start, 2 * len(inp)))


@model(r'^(hex::)?encode::<.*>$')
def _hex_encode(eng, m, args, fr, dty):
    inp = items_of(eng, args[0], fr)
    out = []
    for b in inp:
        if hasattr(b, 'pre'):
            from .models_sha import HashByte
            out.append(HashByte(b.pre, 1000 + 2 * b.i))          # hex digits of a digest byte: compared structurally
            out.append(HashByte(b.pre, 1001 + 2 * b.i))
            continue
        out.append(Int(hexdigit(z3.LShR(b.e, 4)), 8, False))
        out.append(Int(hexdigit(b.e & 0x0f), 8, False))
    return Vec(out)


@model(r'^(hex::)?decode::<.*>$')
def _hex_decode(eng, m, args, fr, dty):
    inp = items_of(eng, args[0], fr)
    if len(inp) % 2:
        return Err(Opaque('FromHexError::OddLength'))
    out = []
    for k in range(len(inp) // 2):
        hi = hexval(eng, inp[2 * k])
        if hi is None:
            return Err(Opaque('FromHexError::InvalidHexCharacter'))
        lo = hexval(eng, inp[2 * k + 1])
        if lo is None:
            return Err(Opaque('FromHexError::InvalidHexCharacter'))
        out.append(Int((hi << 4) | lo, 8, False))
    return Ok(Vec(out))
