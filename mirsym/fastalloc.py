"""install a chunk-caching arena allocator into CPython (see native/arena.c); silently does nothing if it cannot"""
import ctypes
import os
import subprocess
import sys

_HERE = os.path.dirname(os.path.abspath(__file__))
_SO = os.path.join(os.path.dirname(_HERE), '.cache', 'arena_%d%d.so' % sys.version_info[:2])
_keep = []


class _Arena(ctypes.Structure):
    _fields_ = [('ctx', ctypes.c_void_p), ('alloc', ctypes.c_void_p), ('free', ctypes.c_void_p)]


def install():
    if _keep or os.environ.get('VERIF_NO_FASTALLOC'):
        return bool(_keep)
    try:
        if not os.path.exists(_SO):
            os.makedirs(os.path.dirname(_SO), exist_ok=True)
            tmp = _SO + '.%d.tmp' % os.getpid()
            subprocess.run(['cc', '-O2', '-shared', '-fPIC', '-o', tmp, os.path.join(_HERE, 'native', 'arena.c')],
                           check=True, stdout=subprocess.DEVNULL, stderr=subprocess.DEVNULL)
            os.rename(tmp, _SO)
        lib = ctypes.CDLL(_SO)
        a = _Arena(None, ctypes.cast(lib.vp_alloc, ctypes.c_void_p), ctypes.cast(lib.vp_free, ctypes.c_void_p))
        ctypes.pythonapi.PyObject_SetArenaAllocator(ctypes.byref(a))
        _keep.extend([lib, a])
        return True
    except Exception:
        return False
