"""Build and run the native replay binary (/verif/replay) against /repo's current tree."""
import json
import os
import subprocess
import sys

from . import cache

CRATE = os.path.join(cache.VERIF, 'replay')
TARGET = os.path.join(cache.CACHE, 'replay_target')
TOOLCHAIN = 'stable-x86_64-unknown-linux-gnu'


def _env():
    env = dict(os.environ)
    env['CARGO_NET_OFFLINE'] = 'true'
    env['CARGO_TARGET_DIR'] = TARGET
    env['RUSTUP_TOOLCHAIN'] = TOOLCHAIN
    env.pop('RUSTFLAGS', None)
    return env


def build(profile='dev'):
    with cache._Lock('replaybuild'):
        lock_src = os.path.join(cache.REPO, 'Cargo.lock')
        lock_dst = os.path.join(CRATE, 'Cargo.lock')
        cmd = ['cargo', 'build', '--offline', '-q']
        if profile == 'release':
            cmd.append('--release')
        r = subprocess.run(cmd, cwd=CRATE, env=_env(), stdout=subprocess.PIPE, stderr=subprocess.STDOUT, text=True)
        if r.returncode != 0:
            sys.stderr.write(r.stdout[-6000:])
            raise RuntimeError('replay crate does not build against the current tree')
    return os.path.join(TARGET, 'release' if profile == 'release' else 'debug', 'verif-replay')


def run(binpath, kernel, items, timeout=600):
    if not items:
        return []
    p = subprocess.run([binpath, kernel], input=json.dumps(items), stdout=subprocess.PIPE,
                       stderr=subprocess.PIPE, text=True, timeout=timeout)
    if p.returncode != 0:
        raise RuntimeError('replay binary failed on kernel %s: rc=%d %s' % (kernel, p.returncode, p.stderr[-2000:]))
    out = json.loads(p.stdout.strip().split('\n')[-1])
    if len(out) != len(items):
        raise RuntimeError('replay output count mismatch')
    return out
