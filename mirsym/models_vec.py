"""Models for Vec<T>, slices, String/&str, slice iterators (concrete length, symbolic contents)."""
import re
import z3
from .engine import (Int, Big, Bool, Struct, Enum, Vec, Cell, Ref, Slice, Opaque, Closure, FnItem,
                     mkint, mkbool, concrete, Unsupported, PathEnd, INT_TYPES, deep_copy,
                     Some, NONE, Ok, Err, UNIT, Tup)
from .models import model, items_of, vec_ref, as_slice, default_for

SEQ = r'(?:Vec<.*>|\[.*\]|&\[.*\]|&mut \[.*\]|\[.*; \d+\]|String|std::string::String|str|&str|std::vec::Vec<.*>)'


def the_vec(eng, r, fr):
    v = eng.deref(r, fr)
    if isinstance(v, Slice):
        raise Unsupported('mutating through a slice')
    if not isinstance(v, Vec):
        raise Unsupported('not a Vec: %r' % (v,))
    return v


@model(r'^Vec::<.*>::new$|^<Vec<.*> as (std::default::)?Default>::default$|^(std::string::)?String::new$|^<(std::string::)?String as Default>::default$|^Vec::<.*>::with_capacity$|^(std::string::)?String::with_capacity$')
def _vec_new(eng, m, args, fr, dty):
    return Vec([])


@model(r'^Vec::<.*>::len$|^core::slice::<impl \[.*\]>::len$|^(std::string::)?String::len$|^core::str::<impl str>::len$')
def _len(eng, m, args, fr, dty):
    v = args[0]
    if isinstance(v, Slice):
        return mkint(v.length, 'usize')
    t = eng.deref(v, fr)
    if isinstance(t, Slice):
        return mkint(t.length, 'usize')
    if isinstance(t, Vec):
        if t.symlen is not None:
            return t.symlen
        return mkint(len(t.items), 'usize')
    raise Unsupported('len of %r' % (t,))


@model(r'^Vec::<.*>::is_empty$|^core::slice::<impl \[.*\]>::is_empty$|^(std::string::)?String::is_empty$|^core::str::<impl str>::is_empty$')
def _is_empty(eng, m, args, fr, dty):
    n = _len(eng, m, args, fr, dty)
    return Bool(n.e == 0)


@model(r'^<Vec<.*> as (Deref|DerefMut|AsRef<.*>|Borrow<.*>)>::(deref|deref_mut|as_ref|borrow)$|^Vec::<.*>::(as_slice|as_mut_slice)$|^<(std::string::)?String as (Deref|AsRef<.*>|Borrow<.*>)>::(deref|as_ref|borrow)$|^(std::string::)?String::(as_str|as_bytes)$|^core::str::<impl str>::as_bytes$|^<\[.*\] as AsRef<.*>>::as_ref$|^<str as AsRef<.*>>::as_ref$|^<Cow<.*> as (Deref|AsRef<.*>)>::(deref|as_ref)$|^core::array::<impl .*>::as_slice$|^<\[.*; \d+\] as AsRef<.*>>::as_ref$')
def _as_slice(eng, m, args, fr, dty):
    v = args[0]
    t = eng.deref(v, fr)
    if isinstance(t, Enum) and t.ty == 'Cow':
        inner = t.fields[0]
        if isinstance(inner, (Slice, Ref)):
            return as_slice(eng, inner, fr)
        return as_slice(eng, Ref(Cell(inner)), fr)
    if isinstance(t, Vec) and t.symlen is not None:
        return vec_ref(eng, v, fr)
    return as_slice(eng, v, fr)


@model(r'^(std|core)::slice::<impl \[.*\]>::to_vec$|^<Vec<.*> as Clone>::clone$|^<\[.*\] as ToOwned>::to_owned$|^core::slice::<impl \[.*\]>::to_owned$|^<Vec<.*> as From<&\[.*\]>>::from$|^<Vec<.*> as From<&\[.*; \d+\]>>::from$|^<Vec<.*> as From<\[.*; \d+\]>>::from$|^core::str::<impl str>::(to_string|to_owned)$|^<(std::string::)?String as From<&(std::string::)?String>>::from$|^<Cow<.*> as ToString>::to_string$|^Cow::<.*>::into_owned$|^<(std::string::)?String as ToString>::to_string$|^(std::string::)?String::into_bytes$|^<Vec<u8> as From<(std::string::)?String>>::from$|^<Vec<u8> as From<&str>>::from$|^<\[.*; \d+\] as Clone>::clone$')
def _to_vec(eng, m, args, fr, dty):
    v = args[0]
    t = eng.deref(v, fr)
    if isinstance(t, Opaque):
        return Opaque(t.what)
    if isinstance(t, Enum) and t.ty == 'Cow':
        return Vec([deep_copy(x) for x in items_of(eng, t.fields[0], fr)])
    if isinstance(t, Vec) and t.symlen is not None:
        return Vec([], t.symlen)
    return Vec([deep_copy(x) for x in items_of(eng, v, fr)])


@model(r'^Vec::<.*>::push$|^(std::string::)?String::push$')
def _push(eng, m, args, fr, dty):
    v = the_vec(eng, args[0], fr)
    x = args[1]
    if 'String' in m.group(0):
        # char -> UTF-8; ASCII only in the model
        if isinstance(x, Int) and x.w == 32:
            if not eng.branch_bool(z3.ULT(x.e, 128)):
                raise PathEnd('bound', 'String::push of non-ASCII char not modelled')
            x = Int(z3.Extract(7, 0, x.e), 8, False)
    v.items.append(x)
    return UNIT


@model(r'^(std::string::)?String::push_str$|^Vec::<.*>::extend_from_slice$|^<(std::string::)?String as AddAssign<&str>>::add_assign$')
def _push_str(eng, m, args, fr, dty):
    v = the_vec(eng, args[0], fr)
    v.items.extend(deep_copy(x) for x in items_of(eng, args[1], fr))
    return UNIT


@model(r'^<(std::string::)?String as Add<&str>>::add$')
def _str_add(eng, m, args, fr, dty):
    a = args[0]
    if not isinstance(a, Vec):
        raise Unsupported('String add on %r' % (a,))
    return Vec(list(a.items) + list(items_of(eng, args[1], fr)))


@model(r'^Vec::<.*>::pop$')
def _pop(eng, m, args, fr, dty):
    v = the_vec(eng, args[0], fr)
    if not v.items:
        return NONE()
    return Some(v.items.pop())


@model(r'^Vec::<.*>::append$')
def _append(eng, m, args, fr, dty):
    v = the_vec(eng, args[0], fr)
    o = the_vec(eng, args[1], fr)
    v.items.extend(o.items)
    o.items = []
    return UNIT


@model(r'^Vec::<.*>::insert$')
def _insert(eng, m, args, fr, dty):
    v = the_vec(eng, args[0], fr)
    k = eng.concretize(args[1], 0, len(v.items) + 1)
    if k > len(v.items):
        raise PathEnd('panic', 'insert index out of bounds')
    v.items.insert(k, args[2])
    return UNIT


@model(r'^Vec::<.*>::remove$')
def _remove(eng, m, args, fr, dty):
    v = the_vec(eng, args[0], fr)
    k = eng.concretize(args[1], 0, len(v.items) + 1)
    if k >= len(v.items):
        raise PathEnd('panic', 'remove index out of bounds')
    return v.items.pop(k)


@model(r'^Vec::<.*>::(truncate|clear)$|^(std::string::)?String::(truncate|clear)$')
def _truncate(eng, m, args, fr, dty):
    v = the_vec(eng, args[0], fr)
    if 'clear' in m.group(0):
        v.items = []
        return UNIT
    k = eng.concretize(args[1], 0, len(v.items) + 1)
    v.items = v.items[:k]
    return UNIT


@model(r'^Vec::<.*>::reverse$|^core::slice::<impl \[.*\]>::reverse$')
def _reverse(eng, m, args, fr, dty):
    v = args[0]
    if isinstance(v, Slice):
        base = eng.deref(v.ref, fr)
        base.items[v.start:v.start + v.length] = list(reversed(base.items[v.start:v.start + v.length]))
        return UNIT
    t = the_vec(eng, v, fr)
    t.items.reverse()
    return UNIT


@model(r'^Vec::<.*>::(first|last)$|^core::slice::<impl \[.*\]>::(first|last)$')
def _first_last(eng, m, args, fr, dty):
    s = as_slice(eng, args[0], fr)
    if s.length == 0:
        return NONE()
    i = 0 if 'first' in m.group(0) else s.length - 1
    return Some(Ref(s.ref.cell, s.ref.proj + (('cindex', s.start + i, False),)))


@model(r'^core::slice::<impl \[.*\]>::get::<usize>$|^Vec::<.*>::get::<usize>$')
def _get(eng, m, args, fr, dty):
    s = as_slice(eng, args[0], fr)
    k = eng.concretize(args[1], 0, s.length)
    if k >= s.length:
        return NONE()
    return Some(Ref(s.ref.cell, s.ref.proj + (('cindex', s.start + k, False),)))


@model(r'^<Vec<.*> as (std::ops::)?(Index|IndexMut)<usize>>::(index|index_mut)$|^<\[.*\] as (std::ops::)?(Index|IndexMut)<usize>>::(index|index_mut)$|^core::slice::index::<impl (std::ops::)?(Index|IndexMut)<usize> for \[.*\]>::(index|index_mut)$')
def _index(eng, m, args, fr, dty):
    r, i = args
    t = eng.deref(r, fr)
    if isinstance(t, Vec) and t.symlen is not None:
        hook = eng.env.get('symvec_index')
        if hook is None:
            raise Unsupported('index into symbolic-length vec')
        return hook(eng, t, i)
    s = as_slice(eng, r, fr)
    k = eng.concretize(i, 0, s.length)
    if k >= s.length:
        raise PathEnd('panic', 'index out of bounds')
    return Ref(s.ref.cell, s.ref.proj + (('cindex', s.start + k, False),))


def _range_bounds(eng, rv, n):
    """-> (start, end) concrete for Range/RangeFrom/RangeTo/RangeFull/RangeInclusive"""
    ty = rv.ty if isinstance(rv, Struct) else ''
    if ty == 'Range':
        a = eng.concretize(rv.fields[0], 0, n + 1)
        b = eng.concretize(rv.fields[1], 0, n + 1)
    elif ty == 'RangeFrom':
        a = eng.concretize(rv.fields[0], 0, n + 1); b = n
    elif ty == 'RangeTo':
        a = 0; b = eng.concretize(rv.fields[0], 0, n + 1)
    elif ty == 'RangeFull' or isinstance(rv, Opaque) or (isinstance(rv, FnItem) and rv.name.endswith('RangeFull')):
        a, b = 0, n
    elif ty == 'RangeInclusive':
        a = eng.concretize(rv.fields[0], 0, n + 1)
        b = eng.concretize(rv.fields[1], 0, n + 1) + 1
    elif ty == 'RangeToInclusive':
        a = 0; b = eng.concretize(rv.fields[0], 0, n + 1) + 1
    else:
        raise Unsupported('range %r' % (rv,))
    return a, b


@model(r'^<(Vec<.*>|\[.*\]|str|String|std::string::String) as (std::ops::)?(Index|IndexMut)<(std::ops::)?Range(From|To|Full|Inclusive|ToInclusive)?(<usize>)?>>::(index|index_mut)$|^core::slice::index::<impl (std::ops::)?(Index|IndexMut)<(std::ops::)?Range(From|To|Full|Inclusive)?(<usize>)?> for \[.*\]>::(index|index_mut)$|^core::str::traits::<impl (std::ops::)?Index<(std::ops::)?Range(From|To|Full|Inclusive)?(<usize>)?> for str>::index$')
def _slice_range(eng, m, args, fr, dty):
    s = as_slice(eng, args[0], fr)
    a, b = _range_bounds(eng, args[1], s.length)
    if a > b or b > s.length:
        raise PathEnd('panic', 'slice range out of bounds')
    return Slice(s.ref, s.start + a, b - a)


@model(r'^core::slice::<impl \[.*\]>::(split_at|split_first|split_last)$')
def _split_at(eng, m, args, fr, dty):
    s = as_slice(eng, args[0], fr)
    op = m.group(1)
    if op == 'split_at':
        k = eng.concretize(args[1], 0, s.length + 1)
        if k > s.length:
            raise PathEnd('panic', 'split_at out of bounds')
        return Tup(Slice(s.ref, s.start, k), Slice(s.ref, s.start + k, s.length - k))
    if s.length == 0:
        return NONE()
    if op == 'split_first':
        return Some(Tup(Ref(s.ref.cell, s.ref.proj + (('cindex', s.start, False),)), Slice(s.ref, s.start + 1, s.length - 1)))
    return Some(Tup(Ref(s.ref.cell, s.ref.proj + (('cindex', s.start + s.length - 1, False),)), Slice(s.ref, s.start, s.length - 1)))


@model(r'^Vec::<.*>::drain::<.*>$')
def _drain(eng, m, args, fr, dty):
    v = the_vec(eng, args[0], fr)
    a, b = _range_bounds(eng, args[1], len(v.items))
    out = v.items[a:b]
    del v.items[a:b]
    return IterV([Cell(x) for x in out], owned=True)


@model(r'^Vec::<.*>::resize$')
def _resize(eng, m, args, fr, dty):
    v = the_vec(eng, args[0], fr)
    k = eng.concretize(args[1], 0, 4096)
    if k <= len(v.items):
        v.items = v.items[:k]
    else:
        v.items.extend(deep_copy(args[2]) for _ in range(k - len(v.items)))
    return UNIT


@model(r'^(std::vec::)?from_elem::<.*>$')
def _from_elem(eng, m, args, fr, dty):
    k = eng.concretize(args[1], 0, 4096)
    return Vec([deep_copy(args[0]) for _ in range(k)])


@model(r'^core::slice::<impl \[.*\]>::(concat|join)::<.*>$|^(std::)?slice::<impl \[.*\]>::(concat|join)::<.*>$')
def _concat(eng, m, args, fr, dty):
    out = []
    parts = items_of(eng, args[0], fr)
    sep = items_of(eng, args[1], fr) if len(args) > 1 else []
    for i, p in enumerate(parts):
        if i and sep:
            out.extend(sep)
        out.extend(items_of(eng, p, fr) if not isinstance(p, Vec) else p.items)
    return Vec(out)


@model(r'^core::slice::<impl \[.*\]>::(starts_with|ends_with)$|^core::str::<impl str>::(starts_with|ends_with)::<&str>$')
def _starts_with(eng, m, args, fr, dty):
    a, b = items_of(eng, args[0], fr), items_of(eng, args[1], fr)
    if len(b) > len(a):
        return mkbool(False)
    seg = a[:len(b)] if 'starts' in m.group(0) else a[len(a) - len(b):]
    if not b:
        return mkbool(True)
    return Bool(z3.And(*[x.e == y.e for x, y in zip(seg, b)]))


@model(r'^core::slice::<impl \[.*\]>::contains$')
def _contains(eng, m, args, fr, dty):
    a = items_of(eng, args[0], fr)
    x = eng.deref(args[1], fr)
    if not a:
        return mkbool(False)
    if isinstance(x, Int):
        return Bool(z3.Or(*[y.e == x.e for y in a]))
    if isinstance(x, (Vec, Slice)):
        xs = items_of(eng, x, fr)
        return Bool(z3.Or(*[items_eq(eng, items_of(eng, y, fr), xs) for y in a]))
    from .models_last import struct_eq
    return Bool(z3.Or(*[struct_eq(eng, y, x, fr) for y in a]))


# ---- Box<[T;N]>::new_uninit / vec! lowering
@model(r'^Box::<\[.*; \d+\]>::new_uninit$')
def _box_new_uninit(eng, m, args, fr, dty):
    cell = Cell(Struct('MaybeUninit', [None, Struct('ManuallyDrop', [Struct('MaybeDangling', [None])])]), 'box')
    return Struct('Box', [Struct('Unique', [Ref(cell)])])


@model(r'^(std::boxed::)?box_assume_init_into_vec_unsafe::<.*>$')
def _box_into_vec(eng, m, args, fr, dty):
    ptr = args[0].fields[0].fields[0]
    arr = ptr.cell.v.fields[1].fields[0].fields[0]
    return Vec(list(arr.items))


@model(r'^(std::slice::)?<impl \[.*\]>::into_vec::<.*>$|^std::slice::<impl \[.*\]>::into_vec::<.*>$')
def _into_vec(eng, m, args, fr, dty):
    b = args[0]
    if isinstance(b, Cell):
        return b.v
    if isinstance(b, Struct) and b.ty == 'Box':
        ptr = b.fields[0].fields[0]
        return Vec(list(ptr.cell.v.fields[1].fields[0].fields[0].items))
    raise Unsupported('into_vec of %r' % (b,))


# ---- equality on sequences
def seq_eq(eng, a, b, fr):
    xa, xb = items_of(eng, a, fr), items_of(eng, b, fr)
    return items_eq(eng, xa, xb)


def items_eq(eng, xa, xb, _memo=None):
    if len(xa) != len(xb):
        return z3.BoolVal(False)
    if not xa:
        return z3.BoolVal(True)
    memo = {} if _memo is None else _memo
    conj = []
    seen = set()
    for p, q in zip(xa, xb):
        if isinstance(p, Int) and isinstance(q, Int):
            conj.append(p.e == q.e)
        elif hasattr(p, 'pre') and hasattr(q, 'pre'):
            if p.i != q.i:
                raise Unsupported('comparison of digest bytes at different offsets')
            k = (id(p.pre), id(q.pre))
            if k in seen:
                continue
            seen.add(k)
            if k not in memo:
                memo[k] = items_eq(eng, p.pre, q.pre, memo)
            conj.append(memo[k])
        elif hasattr(p, 'pre') or hasattr(q, 'pre'):
            raise Unsupported('comparison of a digest byte with an ordinary byte')
        elif isinstance(p, Vec) and isinstance(q, Vec):
            conj.append(items_eq(eng, p.items, q.items, memo))
        else:
            raise Unsupported('element equality of %r / %r' % (p, q))
    return z3.And(*conj) if len(conj) > 1 else conj[0]


@model(r'^<' + SEQ + r' as PartialEq(<.*>)?>::(eq|ne)$|^core::array::equality::<impl PartialEq(<.*>)? for \[.*\]>::(eq|ne)$|^core::str::traits::<impl PartialEq for str>::(eq|ne)$|^std::string::<impl PartialEq<.*> for .*>::(eq|ne)$|^<impl PartialEq<.*> for .*>::(eq|ne)$')
def _seq_eq(eng, m, args, fr, dty):
    try:
        e = seq_eq(eng, args[0], args[1], fr)
    except Unsupported:
        # elements of a user type: compare lengths, then element-wise with the type's own PartialEq (from MIR) if it has
        # one, structurally otherwise (what derive(PartialEq) does)
        mm = re.match(r'^<(?:std::vec::)?Vec<(.*)> as PartialEq|^<&?\[(.*?)(?:; \d+)?\] as PartialEq', m.group(0))
        if not mm:
            return NotImplemented
        elty = mm.group(1) or mm.group(2)
        xa, xb = items_of(eng, args[0], fr), items_of(eng, args[1], fr)
        if len(xa) != len(xb):
            e = z3.BoolVal(False)
        else:
            from .models_last import struct_eq
            name = '<%s as PartialEq>::eq' % elty
            has = eng.resolve(name) is not None
            parts = []
            for p, q in zip(xa, xb):
                if has:
                    parts.append(eng.do_call(name, [Ref(Cell(p)), Ref(Cell(q))], fr, None).e)
                else:
                    parts.append(struct_eq(eng, p, q, fr))
            e = z3.And(*parts) if parts else z3.BoolVal(True)
    ne = m.group(0).endswith('::ne')
    return Bool(z3.Not(e) if ne else e)


def lex_cmp(eng, xa, xb):
    """fork into Less/Equal/Greater for two concrete-length sequences of unsigned ints"""
    for p, q in zip(xa, xb):
        if eng.branch_bool(z3.ULT(p.e, q.e)):
            return 'Less'
        if eng.branch_bool(z3.UGT(p.e, q.e)):
            return 'Greater'
    if len(xa) < len(xb):
        return 'Less'
    if len(xa) > len(xb):
        return 'Greater'
    return 'Equal'


@model(r'^<' + SEQ + r' as (Ord|PartialOrd)(<.*>)?>::(cmp|partial_cmp)$')
def _seq_cmp(eng, m, args, fr, dty):
    r = Enum('Ordering', lex_cmp(eng, items_of(eng, args[0], fr), items_of(eng, args[1], fr)))
    return Some(r) if m.group(3) == 'partial_cmp' else r


# ---- iterators over slices / vecs
class IterV:
    """iterator state: list of element handles (Refs for borrowed, Cells for owned)"""
    def __init__(self, elems, owned=False, adapters=()):
        self.elems = list(elems)
        self.pos = 0
        self.owned = owned
        self.adapters = list(adapters)     # [('map', clo) | ('enumerate',) | ('copied',) ...]
        self.count = 0

    def __repr__(self):
        return 'IterV(%d/%d,%r)' % (self.pos, len(self.elems), self.adapters)


def elem_refs(eng, v, fr):
    s = as_slice(eng, v, fr)
    return [Ref(s.ref.cell, s.ref.proj + (('cindex', s.start + i, False),)) for i in range(s.length)]


@model(r'^<&(mut )?(\[.*\]|Vec<.*>|\[.*; \d+\]) as IntoIterator>::into_iter$|^core::slice::<impl \[.*\]>::(iter|iter_mut)$|^Vec::<.*>::(iter|iter_mut)$')
def _slice_iter(eng, m, args, fr, dty):
    return IterV(elem_refs(eng, args[0], fr))


@model(r'^<Vec<.*> as IntoIterator>::into_iter$|^<\[.*; \d+\] as IntoIterator>::into_iter$')
def _vec_into_iter(eng, m, args, fr, dty):
    v = args[0]
    return IterV([Cell(x) for x in v.items], owned=True)


@model(r'^core::str::<impl str>::bytes$')
def _str_bytes(eng, m, args, fr, dty):
    return IterV([Cell(x) for x in items_of(eng, args[0], fr)], owned=True)


@model(r'^core::str::<impl str>::chars$')
def _str_chars(eng, m, args, fr, dty):
    items = items_of(eng, args[0], fr)
    for b in items:
        if not eng.branch_bool(z3.ULT(b.e, 128)):
            raise PathEnd('bound', 'non-ASCII through str::chars (model covers ASCII only)')
    return IterV([Cell(Int(z3.ZeroExt(24, x.e), 32, False)) for x in items], owned=True)


ITER = r'(?:std::slice::Iter(?:Mut)?<.*>|std::vec::IntoIter<.*>|std::vec::Drain<.*>|Rev<.*>|Map<.*>|Enumerate<.*>|Copied<.*>|Cloned<.*>|Skip<.*>|Take<.*>|Zip<.*>|Chars<.*>|std::str::Chars<.*>|std::str::Bytes<.*>|Bytes<.*>|Peekable<.*>|Filter<.*>|Chain<.*>|std::array::IntoIter<.*>|StepBy<.*>|std::collections::(?:hash_map|hash_set|btree_map|btree_set)::\w+<.*>|FilterMap<.*>|SkipWhile<.*>|TakeWhile<.*>|Flatten<.*>|FlatMap<.*>)'


@model(r'^<' + ITER + r' as IntoIterator>::into_iter$')
def _iter_into_iter(eng, m, args, fr, dty):
    return args[0]


@model(r'^<' + ITER + r' as (Iterator|DoubleEndedIterator)>::rev$')
def _iter_rev(eng, m, args, fr, dty):
    it = args[0]
    if it.adapters:
        it = materialise(eng, it, fr)
    n = IterV(list(reversed(it.elems[it.pos:])), it.owned)
    return n


@model(r'^<' + ITER + r' as Iterator>::(map|enumerate|copied|cloned|skip|take|filter|filter_map|flat_map|flatten|peekable|zip|chain|step_by|take_while|skip_while|map_while|inspect|fuse|by_ref)(::<.*>)?$')
def _iter_adapt(eng, m, args, fr, dty):
    it = args[0]
    op = m.group(1)
    if not isinstance(it, IterV):
        return NotImplemented
    if it.adapters and (op in ('skip', 'take', 'chain', 'step_by') or (op == 'enumerate' and any(a[0] in ('filter', 'enumerate') for a in it.adapters))):
        it = materialise(eng, it, fr)
    if op == 'chain' and isinstance(args[1], IterV) and args[1].adapters:
        args = [args[0], materialise(eng, args[1], fr)] + list(args[2:])
    if op == 'map':
        it.adapters.append(('map', args[1]))
    elif op == 'filter':
        it.adapters.append(('filter', args[1]))
    elif op == 'filter_map':
        it.adapters.append(('filter_map', args[1]))
    elif op in ('fuse', 'by_ref'):
        pass
    elif op in ('take_while', 'skip_while', 'map_while'):
        # evaluated now, in element order
        src_ = materialise(eng, it, fr) if it.adapters else it
        out = []
        skipping = (op == 'skip_while')
        while True:
            v = iter_next(eng, src_, fr)
            if v is None:
                break
            if op == 'map_while':
                r = eng.call_closure(args[1], [v])
                if r.variant == 'None':
                    break
                out.append(Cell(r.fields[0]))
                continue
            if op == 'take_while':
                if not eng.branch_bool(eng.call_closure(args[1], [Ref(Cell(v))]).e):
                    break
                out.append(Cell(v))
            else:
                if skipping and eng.branch_bool(eng.call_closure(args[1], [Ref(Cell(v))]).e):
                    continue
                skipping = False
                out.append(Cell(v))
        return IterV(out, owned=True)
    elif op in ('flat_map', 'flatten'):
        # evaluated now: every element (mapped by the closure for flat_map) is itself iterated to the end
        outer = materialise(eng, it, fr) if it.adapters else it
        out = []
        while True:
            v = iter_next(eng, outer, fr)
            if v is None:
                break
            if op == 'flat_map':
                v = eng.call_closure(args[1], [v])
            inner = v
            if isinstance(inner, Enum) and inner.variant in ('Some', 'None', 'Ok', 'Err'):
                if inner.variant in ('Some', 'Ok'):
                    out.append(Cell(inner.fields[0]))
                continue
            if not isinstance(inner, IterV):
                inner = eng.do_call('<%s as IntoIterator>::into_iter' % ('Vec<T>' if isinstance(eng.deref(inner, fr), Vec) else 'T'), [inner], fr, None)
            while True:
                w = iter_next(eng, inner, fr)
                if w is None:
                    break
                out.append(Cell(w))
        return IterV(out, owned=True)
    elif op == 'enumerate':
        it.adapters.append(('enumerate',))
    elif op in ('copied', 'cloned'):
        it.adapters.append(('copied',))
    elif op == 'skip':
        if it.adapters:
            raise Unsupported('skip after adapters')
        k = eng.concretize(args[1], 0, len(it.elems) + 1)
        it.pos = min(len(it.elems), it.pos + k)
    elif op == 'take':
        if it.adapters:
            raise Unsupported('take after adapters')
        k = eng.concretize(args[1], 0, len(it.elems) + 1)
        it.elems = it.elems[:it.pos + k]
    elif op == 'peekable':
        pass
    elif op == 'chain':
        o = args[1]
        if it.adapters or not isinstance(o, IterV) or o.adapters:
            raise Unsupported('chain with adapters')
        it.elems = it.elems[it.pos:] + o.elems[o.pos:]
        it.pos = 0
    elif op == 'zip':
        o = args[1]
        if not isinstance(o, IterV):
            o = IterV(elem_refs(eng, o, fr))
        it.adapters.append(('zip', o))
    else:
        raise Unsupported('iterator adapter ' + op)
    return it


def materialise(eng, it, fr):
    """evaluate a lazily adapted iterator now (closures run in element order, as they would lazily) and restart
    from the results; used when a further adapter needs positions of the adapted sequence"""
    out = []
    while True:
        v = iter_next(eng, it, fr)
        if v is None:
            break
        out.append(Cell(v))
    return IterV(out, owned=True)


def iter_next(eng, it, fr):
    while True:
        if it.pos >= len(it.elems):
            return None
        h = it.elems[it.pos]
        it.pos += 1
        v = h.v if (it.owned and isinstance(h, Cell)) else h
        skip = False
        for ad in it.adapters:
            if ad[0] == 'map':
                v = eng.call_closure(ad[1], [v])
            elif ad[0] == 'filter':
                keep = eng.call_closure(ad[1], [Ref(Cell(v))])
                if not eng.branch_bool(keep.e):
                    skip = True
                    break
            elif ad[0] == 'filter_map':
                r = eng.call_closure(ad[1], [v])
                if r.variant == 'None':
                    skip = True
                    break
                v = r.fields[0]
            elif ad[0] == 'enumerate':
                v = Tup(mkint(it.count, 'usize'), v)
            elif ad[0] == 'copied':
                v = deep_copy(eng.deref(v, fr))
            elif ad[0] == 'zip':
                o = iter_next(eng, ad[1], fr)
                if o is None:
                    return None
                v = Tup(v, o)
        if skip:
            continue
        it.count += 1
        return v


@model(r'^<' + ITER + r' as Iterator>::next$')
def _iter_next(eng, m, args, fr, dty):
    it = eng.deref(args[0], fr)
    if not isinstance(it, IterV):
        return NotImplemented
    v = iter_next(eng, it, fr)
    return NONE() if v is None else Some(v)


@model(r'^Peekable::<.*>::peek$')
def _peek(eng, m, args, fr, dty):
    it = eng.deref(args[0], fr)
    if it.adapters:
        raise Unsupported('peek with adapters')
    if it.pos >= len(it.elems):
        return NONE()
    h = it.elems[it.pos]
    return Some(Ref(h) if isinstance(h, Cell) else Ref(Cell(h)))


def drain(eng, it, fr):
    out = []
    while True:
        v = iter_next(eng, it, fr)
        if v is None:
            return out
        out.append(v)


@model(r'^<' + ITER + r' as Iterator>::collect::<(.*)>$')
def _collect(eng, m, args, fr, dty):
    it = args[0]
    if not isinstance(it, IterV):
        return NotImplemented
    target = m.group(1)
    vals = drain(eng, it, fr)
    if target.startswith(('Vec<', 'std::vec::Vec<')):
        return Vec(vals)
    if target.startswith(('String', 'std::string::String')):
        out = []
        for c in vals:
            c = eng.deref(c, fr)
            if isinstance(c, Int) and c.w == 32:
                if not eng.branch_bool(z3.ULT(c.e, 128)):
                    raise PathEnd('bound', 'collect::<String> of non-ASCII char not modelled')
                out.append(Int(z3.Extract(7, 0, c.e), 8, False))
            else:
                raise Unsupported('collect String of %r' % (c,))
        return Vec(out)
    if target.startswith(('Result<Vec<', 'std::result::Result<Vec<', 'std::result::Result<std::vec::Vec<')):
        out = []
        for r in vals:
            if r.variant == 'Err':
                return r
            out.append(r.fields[0])
        return Ok(Vec(out))
    if target.startswith(('Option<Vec<', 'std::option::Option<Vec<')):
        out = []
        for r in vals:
            if r.variant == 'None':
                return r
            out.append(r.fields[0])
        return Some(Vec(out))
    if target.startswith(('HashSet<', 'std::collections::HashSet<', 'BTreeSet<', 'std::collections::BTreeSet<')):
        from .models_hash import MapV, lookup
        mp = MapV(is_set=True)
        for x in vals:
            k = eng.deref(x, fr)
            if lookup(eng, mp, k, fr) is None:
                mp.entries.append((k, Cell(UNIT)))
        return mp
    if target.startswith(('HashMap<', 'std::collections::HashMap<', 'BTreeMap<', 'std::collections::BTreeMap<')):
        from .models_hash import MapV, lookup
        mp = MapV()
        for x in vals:
            x = eng.deref(x, fr) if isinstance(x, Ref) else x
            k, v = x.fields
            i = lookup(eng, mp, k, fr)
            if i is None:
                mp.entries.append((k, Cell(v)))
            else:
                mp.entries[i] = (mp.entries[i][0], Cell(v))
        return mp
    if target.startswith(('Vec<()>',)):
        return Vec(vals)
    hook = eng.env.get('collect')
    if hook is not None:
        return hook(eng, target, vals, fr)
    raise Unsupported('collect into ' + target)


@model(r'^<' + ITER + r' as Iterator>::(any|all|position|find|count|fold|for_each|last|sum|max|min|find_map|nth|partition|unzip)(::<.*>)?$')
def _iter_consume(eng, m, args, fr, dty):
    it = args[0] if isinstance(args[0], IterV) else eng.deref(args[0], fr)
    if not isinstance(it, IterV):
        return NotImplemented
    op = m.group(1)
    if op in ('any', 'all'):
        while True:
            v = iter_next(eng, it, fr)
            if v is None:
                return mkbool(op == 'all')
            r = eng.call_closure(args[1], [v])
            t = eng.branch_bool(r.e)
            if op == 'any' and t:
                return mkbool(True)
            if op == 'all' and not t:
                return mkbool(False)
    if op == 'position':
        k = 0
        while True:
            v = iter_next(eng, it, fr)
            if v is None:
                return NONE()
            r = eng.call_closure(args[1], [v])
            if eng.branch_bool(r.e):
                return Some(mkint(k, 'usize'))
            k += 1
    if op == 'find':
        while True:
            v = iter_next(eng, it, fr)
            if v is None:
                return NONE()
            r = eng.call_closure(args[1], [Ref(Cell(v))])
            if eng.branch_bool(r.e):
                return Some(v)
    if op == 'find_map':
        while True:
            v = iter_next(eng, it, fr)
            if v is None:
                return NONE()
            r = eng.call_closure(args[1], [v])
            if r.variant == 'Some':
                return r
    if op == 'count':
        return mkint(len(drain(eng, it, fr)), 'usize')
    if op == 'last':
        vals = drain(eng, it, fr)
        return Some(vals[-1]) if vals else NONE()
    if op == 'nth':
        k = eng.concretize(args[1], 0, len(it.elems) + 1)
        v = None
        for _ in range(k + 1):
            v = iter_next(eng, it, fr)
            if v is None:
                return NONE()
        return Some(v)
    if op == 'fold':
        acc = args[1]
        while True:
            v = iter_next(eng, it, fr)
            if v is None:
                return acc
            acc = eng.call_closure(args[2], [acc, v])
    if op == 'for_each':
        while True:
            v = iter_next(eng, it, fr)
            if v is None:
                return UNIT
            eng.call_closure(args[1], [v])
    if op == 'partition':
        yes, no = [], []
        for v in drain(eng, it, fr):
            (yes if eng.branch_bool(eng.call_closure(args[1], [Ref(Cell(v))]).e) else no).append(v)
        return Tup(Vec(yes), Vec(no))
    if op == 'unzip':
        a_, b_ = [], []
        for v in drain(eng, it, fr):
            a_.append(v.fields[0]); b_.append(v.fields[1])
        return Tup(Vec(a_), Vec(b_))
    if op == 'sum':
        ty = (m.group(2) or '')[3:-1]
        vals = [eng.deref(v, fr) if isinstance(v, Ref) else v for v in drain(eng, it, fr)]
        if ty not in INT_TYPES:
            return NotImplemented
        acc = mkint(0, ty)
        for v in vals:
            acc = eng.binop('Add', acc, v)
        return acc
    if op in ('max', 'min'):
        vals = [eng.deref(v, fr) if isinstance(v, Ref) else v for v in drain(eng, it, fr)]
        if not vals:
            return NONE()
        if not all(isinstance(v, Int) for v in vals):
            return NotImplemented
        best = vals[0]
        for v in vals[1:]:
            gt = eng.binop('Gt' if op == 'max' else 'Lt', v, best)
            # max returns the last of equal maxima, min the first: ties do not matter for integers
            if eng.branch_bool(gt.e):
                best = v
        return Some(best)
    return NotImplemented


@model(r'^<' + ITER + r' as (ExactSizeIterator|Iterator)>::len$')
def _iter_len(eng, m, args, fr, dty):
    it = eng.deref(args[0], fr)
    return mkint(len(it.elems) - it.pos, 'usize')


@model(r'^<Vec<.*> as Extend<.*>>::extend::<.*>$|^<(std::string::)?String as Extend<.*>>::extend::<.*>$')
def _extend(eng, m, args, fr, dty):
    v = the_vec(eng, args[0], fr)
    src = args[1]
    if isinstance(src, IterV):
        vals = drain(eng, src, fr)
    elif isinstance(src, Vec):
        vals = src.items
    else:
        vals = [deep_copy(eng.deref(x, fr)) for x in elem_refs(eng, src, fr)]
    for x in vals:
        x = eng.deref(x, fr) if isinstance(x, Ref) else x
        v.items.append(x)
    return UNIT


@model(r'^<Vec<.*> as FromIterator<.*>>::from_iter::<.*>$')
def _from_iter(eng, m, args, fr, dty):
    src = args[0]
    if isinstance(src, IterV):
        return Vec(drain(eng, src, fr))
    return NotImplemented


# ---- strings / chars
@model(r'^(std::string::)?String::from_utf8_lossy$')
def _from_utf8_lossy(eng, m, args, fr, dty):
    items = items_of(eng, args[0], fr)
    conc_ = []
    for b in items:
        c_ = b.conc() if hasattr(b, 'conc') else (b.c if b.c is not None else concrete(b.e))
        if c_ is None:
            conc_ = None
            break
        conc_.append(c_)
    if conc_ is not None and any(c_ >= 128 for c_ in conc_):
        # fully concrete bytes: do the real lossy conversion (invalid sequences become U+FFFD)
        out_ = bytes(conc_).decode('utf-8', errors='replace').encode('utf-8')
        return Enum('Cow', 'Owned', [Vec([mkint(x, 'u8') for x in out_])])
    for b in items:
        if hasattr(b, 'pre'):
            if b.i >= 1000:
                continue                   # a hex digit of a digest
            c = b.conc()
            if c is not None and c < 128:
                continue
            raise PathEnd('bound', 'digest bytes through from_utf8_lossy')
        if not eng.branch_bool(z3.ULT(b.e, 128)):
            raise PathEnd('bound', 'non-ASCII through from_utf8_lossy (model covers ASCII only)')
    return Enum('Cow', 'Borrowed', [as_slice(eng, args[0], fr)])


@model(r'^(std::string::)?String::from_utf8$|^(std::str::|core::str::)?from_utf8$|^core::str::converts::from_utf8$')
def _from_utf8(eng, m, args, fr, dty):
    v = args[0]
    items = items_of(eng, v, fr)
    for b in items:
        if not eng.branch_bool(z3.ULT(b.e, 128)):
            # multi-byte sequences: validity not modelled
            raise PathEnd('bound', 'non-ASCII through from_utf8 (model covers ASCII only)')
    if 'String' in m.group(0):
        return Ok(v if isinstance(v, Vec) else Vec(list(items)))
    return Ok(as_slice(eng, v, fr))


@model(r'^char::methods::<impl char>::(is_whitespace|is_ascii_whitespace|is_ascii_digit|is_ascii_hexdigit|is_ascii_alphabetic|is_alphabetic|is_numeric|is_ascii_punctuation|is_control|is_ascii_control|is_ascii|to_ascii_lowercase|to_ascii_uppercase|is_ascii_graphic|is_alphanumeric|is_ascii_alphanumeric|len_utf8)$|^core::num::<impl u8>::(is_ascii_whitespace|is_ascii_digit|is_ascii_hexdigit|is_ascii_alphabetic|is_ascii_punctuation|is_ascii_control|is_ascii|to_ascii_lowercase|to_ascii_uppercase|is_ascii_graphic|is_ascii_alphanumeric)$')
def _char_class(eng, m, args, fr, dty):
    op = m.group(1) or m.group(2)
    a = eng.deref(args[0], fr)
    c, w = a.e, a.w
    K = lambda k: z3.BitVecVal(k, w)
    rng_ = lambda lo, hi: z3.And(z3.UGE(c, K(lo)), z3.ULE(c, K(hi)))
    if op == 'is_whitespace':
        ws = [9, 10, 11, 12, 13, 32, 0x85, 0xA0, 0x1680, 0x2028, 0x2029, 0x202F, 0x205F, 0x3000] + list(range(0x2000, 0x200B))
        return Bool(z3.Or(*[c == K(k) for k in ws if k < (1 << w)]))
    if op == 'is_ascii_whitespace':
        return Bool(z3.Or(*[c == K(k) for k in (9, 10, 12, 13, 32)]))
    if op == 'is_ascii_digit':
        return Bool(rng_(48, 57))
    if op == 'is_ascii_hexdigit':
        return Bool(z3.Or(rng_(48, 57), rng_(65, 70), rng_(97, 102)))
    if op == 'is_ascii_alphabetic':
        return Bool(z3.Or(rng_(65, 90), rng_(97, 122)))
    if op == 'is_ascii_alphanumeric':
        return Bool(z3.Or(rng_(48, 57), rng_(65, 90), rng_(97, 122)))
    if op == 'is_ascii':
        return Bool(z3.ULT(c, K(128)))
    if op == 'is_ascii_graphic':
        return Bool(rng_(33, 126))
    if op in ('is_control', 'is_ascii_control'):
        if op == 'is_control' and w == 32:
            return Bool(z3.Or(z3.ULT(c, K(32)), rng_(127, 159)))
        return Bool(z3.Or(z3.ULT(c, K(32)), c == K(127)))
    if op == 'is_ascii_punctuation':
        return Bool(z3.Or(rng_(33, 47), rng_(58, 64), rng_(91, 96), rng_(123, 126)))
    if op == 'to_ascii_lowercase':
        return Int(z3.If(rng_(65, 90), c + K(32), c), w, False)
    if op == 'to_ascii_uppercase':
        return Int(z3.If(rng_(97, 122), c - K(32), c), w, False)
    if op in ('is_alphabetic', 'is_numeric', 'is_alphanumeric'):
        if not eng.branch_bool(z3.ULT(c, K(128))):
            raise PathEnd('bound', 'unicode classification of non-ASCII char not modelled')
        if op == 'is_alphabetic':
            return Bool(z3.Or(rng_(65, 90), rng_(97, 122)))
        if op == 'is_numeric':
            return Bool(rng_(48, 57))
        return Bool(z3.Or(rng_(48, 57), rng_(65, 90), rng_(97, 122)))
    if op == 'len_utf8':
        if not eng.branch_bool(z3.ULT(c, K(128))):
            raise PathEnd('bound', 'len_utf8 of non-ASCII char not modelled')
        return mkint(1, 'usize')
    return NotImplemented


@model(r'^char::methods::<impl char>::to_digit$')
def _to_digit(eng, m, args, fr, dty):
    c = args[0].e
    radix = concrete(args[1].e)
    K = lambda k: z3.BitVecVal(k, 32)
    if radix == 10:
        if eng.branch_bool(z3.And(z3.UGE(c, K(48)), z3.ULE(c, K(57)))):
            return Some(Int(c - K(48), 32, False))
        return NONE()
    if radix == 16:
        if eng.branch_bool(z3.And(z3.UGE(c, K(48)), z3.ULE(c, K(57)))):
            return Some(Int(c - K(48), 32, False))
        if eng.branch_bool(z3.And(z3.UGE(c, K(97)), z3.ULE(c, K(102)))):
            return Some(Int(c - K(87), 32, False))
        if eng.branch_bool(z3.And(z3.UGE(c, K(65)), z3.ULE(c, K(70)))):
            return Some(Int(c - K(55), 32, False))
        return NONE()
    raise Unsupported('to_digit radix %r' % radix)


@model(r'^(std::char::|core::char::)?from_u32$|^char::methods::<impl char>::from_u32$|^<char as TryFrom<u32>>::try_from$')
def _char_from_u32(eng, m, args, fr, dty):
    c = args[0].e
    ok = z3.And(z3.ULT(c, 0x110000), z3.Or(z3.ULT(c, 0xD800), z3.UGT(c, 0xDFFF)))
    if eng.branch_bool(ok):
        v = Int(c, 32, False)
        return Ok(v) if 'TryFrom' in m.group(0) else Some(v)
    return Err(Opaque('CharTryFromError')) if 'TryFrom' in m.group(0) else NONE()


@model(r'^<char as From<u8>>::from$')
def _char_from_u8(eng, m, args, fr, dty):
    return Int(z3.ZeroExt(24, args[0].e), 32, False)


@model(r'^<char as ToString>::to_string$|^<(std::string::)?String as From<char>>::from$')
def _char_to_string(eng, m, args, fr, dty):
    c = eng.deref(args[0], fr)
    if not eng.branch_bool(z3.ULT(c.e, 128)):
        raise PathEnd('bound', 'char::to_string of non-ASCII not modelled')
    return Vec([Int(z3.Extract(7, 0, c.e), 8, False)])


@model(r'^core::str::<impl str>::(trim|trim_start|trim_end)$')
def _trim(eng, m, args, fr, dty):
    s = as_slice(eng, args[0], fr)
    items = items_of(eng, s, fr)
    ws = lambda b: z3.Or(*[b.e == k for k in (9, 10, 11, 12, 13, 32)])
    a, b = 0, len(items)
    for x in items:
        if not eng.branch_bool(z3.ULT(x.e, 128)):
            raise PathEnd('bound', 'trim of non-ASCII not modelled')
    op = m.group(1)
    if op in ('trim', 'trim_start'):
        while a < b and eng.branch_bool(ws(items[a])):
            a += 1
    if op in ('trim', 'trim_end'):
        while b > a and eng.branch_bool(ws(items[b - 1])):
            b -= 1
    return Slice(s.ref, s.start + a, b - a)


def _ordering_less(eng, r):
    """is an Ordering value Less? (forks if it depends on symbolic data)"""
    return r.variant == 'Less'


@model(r'^(?:std|core|alloc)::slice::<impl \[(.*)\]>::(sort_by|sort_unstable_by|sort|sort_unstable|sort_by_key|sort_unstable_by_key|sort_by_cached_key)(::<.*>)?$|^Vec::<(.*)>::(sort_by|sort|sort_by_key|dedup)(::<.*>)?$')
def _slice_sort(eng, m, args, fr, dty):
    """stable insertion sort driven by the real comparator (closure, or the element type's Ord::cmp)"""
    v = args[0]
    op = m.group(2) or m.group(5)
    elty = m.group(1) or m.group(4)
    if isinstance(v, Slice):
        base = eng.deref(v.ref, fr)
        lo, hi = v.start, v.start + v.length
    else:
        base = the_vec(eng, v, fr)
        lo, hi = 0, len(base.items)
    items = base.items[lo:hi]
    if op == 'dedup':
        raise Unsupported('Vec::dedup')

    def less(a, b):
        if op in ('sort_by', 'sort_unstable_by'):
            r = eng.call_closure(args[1], [Ref(Cell(a)), Ref(Cell(b))])
        elif op in ('sort_by_key', 'sort_unstable_by_key', 'sort_by_cached_key'):
            ka = eng.call_closure(args[1], [Ref(Cell(a))])
            kb = eng.call_closure(args[1], [Ref(Cell(b))])
            r = _cmp_values(eng, ka, kb, fr)
        else:
            r = _cmp_values(eng, a, b, fr, elty)
        return r.variant == 'Less'
    out = []
    for x in items:
        k = len(out)
        while k > 0 and less(x, out[k - 1]):
            k -= 1
        out.insert(k, x)
    base.items[lo:hi] = out
    return UNIT


def _cmp_values(eng, a, b, fr, ty=None):
    if isinstance(a, Int) and isinstance(b, Int):
        return eng.binop('Cmp', a, b)
    if isinstance(a, (Vec, Slice)) and isinstance(b, (Vec, Slice)):
        ia, ib = items_of(eng, a, fr), items_of(eng, b, fr)
        for x, y in zip(ia, ib):
            r = eng.binop('Cmp', x, y)
            if r.variant != 'Equal':
                return r
        return eng.binop('Cmp', mkint(len(ia), 'usize'), mkint(len(ib), 'usize'))
    if ty:
        return eng.do_call('<%s as Ord>::cmp' % ty, [Ref(Cell(a)), Ref(Cell(b))], fr, None)
    raise Unsupported('ordering of %r / %r' % (a, b))
