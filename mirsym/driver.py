"""Check driver: runs harnesses over their cases (in parallel), discharges
obligations with z3, replays counterexamples natively, applies the
known-findings file, writes evidence and decides the exit code.

Exit codes: 0 all obligations explored were discharged; 1 replay-confirmed
violation not listed in known_findings.jsonl; 2 machinery failure
(conformance mismatch, non-reproducing counterexample, unsupported code on a
path that the harness declares must be supported).
"""
import json
import multiprocessing
import os
import random
import sys
import time
import traceback

import z3

from . import cache
from .engine import (Engine, Int, Big, Bool, Struct, Enum, Vec, Cell, Ref, Slice, Opaque,
                     mkint, concrete, Unsupported, PathEnd)

VERIF = cache.VERIF
EVIDENCE_DIR = os.path.join(VERIF, 'evidence')
FINDINGS = os.path.join(VERIF, 'known_findings.jsonl')

_FUNCS = {}          # loaded once in the parent, inherited by forked workers


def funcs(with_clvmr=False):
    k = bool(with_clvmr)
    if k not in _FUNCS:
        _FUNCS[k] = cache.load(with_clvmr=k)
    return _FUNCS[k]


# ---------------------------------------------------------------- helpers for harnesses
def sym_bytes(name, n):
    return [Int(z3.BitVec('%s_%d' % (name, i), 8), 8, False) for i in range(n)]


def conc_bytes(bs):
    return [mkint(b, 'u8') for b in bs]


def ev(model, e):
    if model is None:
        c = concrete(e)
        if c is None:
            raise ValueError('non-concrete term without a model')
        return c
    v = model.eval(e, model_completion=True)
    if z3.is_bv_value(v):
        return v.as_long()
    if z3.is_true(v):
        return True
    if z3.is_false(v):
        return False
    raise ValueError('cannot evaluate %s' % e)


def ev_bytes(model, items):
    return [ev(model, b.e) for b in items]


def slice_of(items):
    """fresh &[u8] over a new Vec holding items"""
    return Slice(Ref(Cell(Vec(list(items)))), 0, len(items))


def unsigned_of(items, w):
    if not items:
        return z3.BitVecVal(0, w)
    e = z3.Concat(*[b.e for b in items]) if len(items) > 1 else items[0].e
    if 8 * len(items) > w:
        raise ValueError('too wide')
    return z3.ZeroExt(w - 8 * len(items), e) if 8 * len(items) < w else e


class Harness:
    """Base class.  Subclasses define the methods below; see harness/*.py."""
    name = ''
    prop = ''
    kernel = None            # replay kernel (native side)
    with_clvmr = False
    bigw = {'quick': 136, 'thorough': 264}
    loop_bound = 80
    max_paths = 200000
    panic_is_violation = True
    unsupported_is_failure = True
    follow_unwind = False
    classes = {}             # known-finding class key -> fn(case, inp) -> z3 formula
    functions = []           # entry points (documentation / evidence)
    assumptions = []
    outside = ''

    def cases(self, tier):
        raise NotImplementedError

    def sym_inputs(self, case):
        raise NotImplementedError

    def conc_inputs(self, case, j):
        raise NotImplementedError

    def inputs_json(self, case, inp, model):
        raise NotImplementedError

    def run(self, eng, case, inp):
        raise NotImplementedError

    def obligations(self, eng, case, inp, out):
        return []

    def output_json(self, eng, case, inp, out, model):
        return None

    def oracle(self, case, j):
        """python reference: expected native output for concrete inputs j (or None)"""
        return None

    def native_matches(self, case, j, native, predicted):
        return native == predicted

    def is_violation(self, case, j, native):
        """given concrete inputs and the native output, does the real code break the property?"""
        exp = self.oracle(case, j)
        return exp is not None and native != exp

    def vectors(self, case, rnd):
        return []

    def witness_classes(self, case, inp, out):
        """[(class name, formula)] that should be reachable on some done path (vacuity guard)"""
        return []

    def native_inputs(self, case, j):
        """what the replay kernel receives for concrete inputs j"""
        return j

    def case_label(self, case):
        return json.dumps(case, sort_keys=True)


# ---------------------------------------------------------------- worker
def _worker_init(kinds):
    import threading
    from . import fastalloc
    fastalloc.install()
    threading.stack_size(512 * 1024 * 1024)
    sys.setrecursionlimit(200000)
    for k in kinds:
        funcs(k)


def _run_in_big_thread(fn, arg):
    import threading
    box = {}

    def target():
        try:
            box['r'] = fn(arg)
        except BaseException as e:      # noqa
            box['e'] = e
    t = threading.Thread(target=target)
    t.start()
    t.join()
    if 'e' in box:
        raise box['e']
    return box['r']


def run_case(args):
    """pool entry: deep MIR recursion needs a big stack, which only a new thread can have"""
    import threading
    if threading.current_thread() is threading.main_thread():
        return _run_in_big_thread(_run_case, args)
    return _run_case(args)


def _mk_engine(h, tier):
    fs, key, roots = funcs(h.with_clvmr)
    eng = Engine(fs, roots, bigw=h.bigw[tier], loop_bound=h.loop_bound,
                 query_timeout_ms=20000 if tier == 'quick' else 120000, follow_unwind=h.follow_unwind)
    return eng


def _run_case(args):
    """explore one (harness, case); returns a JSON-able summary"""
    h, case, tier, findings, deadline = args
    t0 = time.time()
    res = dict(harness=h.name, case=case, paths={}, obligations=0, discharged=0, queries=0, stmts=0,
               solver_s=0.0, violations=[], known=[], inconclusive=[], samples=[], encoded={},
               models=[], witnessed=[], wall_s=0.0, error=None)
    try:
        eng = _mk_engine(h, tier)
        inp = h.sym_inputs(case)
        excl = []
        for fd in findings:
            fn = h.classes.get(fd['class'])
            if fn is None:
                res['error'] = 'known finding refers to unknown class %s' % fd['class']
                return res
            excl.append((fd, fn))
        box = {}

        def body(e):
            return h.run(e, case, inp)
        chk = z3.Solver()
        chk.set('rlimit', (20000 if tier == 'quick' else 120000) * 4000)
        seen_known = set()
        witnessed = set()
        for kind, pc, out, dec, span in eng.explore(body, max_paths=h.max_paths, deadline=deadline):
            res['paths'][kind] = res['paths'].get(kind, 0) + 1
            if kind == 'infeasible':
                continue
            if kind == 'bound':
                continue
            if kind == 'unsupported':
                if len(res['inconclusive']) < 5:
                    res['inconclusive'].append(dict(reason='unsupported', what=str(out)[:300]))
                continue
            if kind == 'panic':
                if not h.panic_is_violation:
                    continue
                obs = [('no_panic:' + (span or str(out))[:120], z3.BoolVal(False))]
                outv = None
            else:
                obs = h.obligations(eng, case, inp, out)
                outv = out
                for cname, cf in h.witness_classes(case, inp, out):
                    if cname not in witnessed:
                        chk.reset(); chk.add(*pc); chk.add(cf)
                        if chk.check() == z3.sat:
                            witnessed.add(cname)
            if len(res['samples']) < 3 and kind == 'done':
                chk.reset(); chk.add(*pc)
                if chk.check() == z3.sat:
                    try:
                        res['samples'].append(dict(case=case, inputs=h.inputs_json(case, inp, chk.model()),
                                                   decisions=len(dec)))
                    except Exception:
                        pass
            for name, ob in obs:
                res['obligations'] += 1
                # known classes first
                nob = z3.Not(ob)
                classes = []
                for fd, fn in excl:
                    cf = fn(case, inp)
                    classes.append(cf)
                    if fd['key'] not in seen_known:
                        chk.reset(); chk.add(*pc); chk.add(nob); chk.add(cf)
                        res['queries'] += 1
                        if chk.check() == z3.sat:
                            mdl = chk.model()
                            j = h.inputs_json(case, inp, mdl)
                            pred = h.output_json(eng, case, inp, outv, mdl) if outv is not None else {'panic': True}
                            res['known'].append(dict(key=fd['key'], ob=name, inputs=j, predicted=pred))
                            seen_known.add(fd['key'])
                chk.reset(); chk.add(*pc); chk.add(nob)
                for cf in classes:
                    chk.add(z3.Not(cf))
                res['queries'] += 1
                r = chk.check()
                if r == z3.unsat:
                    res['discharged'] += 1
                elif r == z3.sat:
                    mdl = chk.model()
                    j = h.inputs_json(case, inp, mdl)
                    pred = h.output_json(eng, case, inp, outv, mdl) if outv is not None else {'panic': True, 'msg': str(out)[:200], 'span': span}
                    if len(res['violations']) < 8:
                        res['violations'].append(dict(ob=name, inputs=j, predicted=pred))
                else:
                    res['inconclusive'].append(dict(reason='solver unknown', what=name))
        res['witnessed'] = sorted(witnessed)
        res['queries'] += eng.stats['queries']
        res['stmts'] = eng.stats['stmts']
        res['solver_s'] = eng.stats['solver_s']
        res['encoded'] = dict(eng.encoded)
        res['models'] = sorted(eng.models_used)
    except TimeoutError:
        res['inconclusive'].append(dict(reason='deadline', what='exploration stopped at the tier time cap'))
    except Exception as e:
        res['error'] = '%s: %s\n%s' % (type(e).__name__, e, traceback.format_exc()[-1500:])
    res['wall_s'] = time.time() - t0
    return res


def run_concrete(h, case, j, tier='quick'):
    """execute the harness on fully concrete inputs (no solver involvement) -> output json or {'end': kind}"""
    eng = _mk_engine(h, tier)
    inp = h.conc_inputs(case, j)
    try:
        outs = list(eng.explore(lambda e: h.run(e, case, inp), max_paths=4))
    except Unsupported:
        return {'end': 'forked'}
    if len(outs) != 1:
        return {'end': 'forked', 'n': len(outs)}
    kind, pc, out, dec, span = outs[0]
    if kind != 'done':
        return {'end': kind, 'msg': str(out)[:600]}
    return h.output_json(eng, case, inp, out, None)


# ---------------------------------------------------------------- native replay
def nat_inputs(h, case, j, predicted=None):
    fn = getattr(h, 'native_inputs_pred', None)
    if fn is not None:
        return fn(case, j, predicted)
    return h.native_inputs(case, j)


def native_run(h, items):
    fn = getattr(h, 'run_native', None)
    if fn is not None:
        return fn(items)
    return NATIVE.run(h.kernel, items)


class Native:
    """batch interface to the replay binary (built from /repo's current tree)"""
    def __init__(self):
        self.bin = None

    def build(self):
        from . import replaybin
        self.bin = replaybin.build()

    def run(self, kernel, inputs_list, profile='release'):
        from . import replaybin
        if self.bin is None:
            self.build()
        return replaybin.run(self.bin, kernel, inputs_list)


NATIVE = Native()


# ---------------------------------------------------------------- check
def load_findings(prop):
    out = []
    if os.path.exists(FINDINGS):
        for line in open(FINDINGS):
            line = line.strip()
            if not line or line.startswith('#') or line.startswith('fixed:'):
                continue
            d = json.loads(line)
            if d.get('property') == prop:
                out.append(d)
    return out


def run_check(prop, harnesses, tier, seed, level_text='', jobs=None, time_cap=None, extra_evidence=None,
              post=None):
    t0 = time.time()
    rnd = random.Random(seed)
    findings = load_findings(prop)
    deadline = (t0 + time_cap) if time_cap else None
    for h in harnesses:
        funcs(h.with_clvmr)
    # 1. conformance: concrete vectors through mirsym and through the native build
    conf_total, conf_bad = 0, []
    for h in harnesses:
        if h.kernel is None:
            continue
        vecs = []
        for case in h.cases(tier):
            for j in h.vectors(case, rnd):
                vecs.append((case, j))
        if not vecs:
            continue
        natives = native_run(h, [dict(case=c, inputs=h.native_inputs(c, j)) for c, j in vecs])
        for (case, j), nat in zip(vecs, natives):
            try:
                mine = run_concrete(h, case, j, tier)
            except Exception as e:
                mine = {'end': 'exception', 'msg': '%s: %s' % (type(e).__name__, e)}
            conf_total += 1
            if isinstance(mine, dict) and mine.get('end') == 'panic' and isinstance(nat, dict) and nat.get('panic'):
                continue        # both panic: the model agrees with the build; the symbolic stage reports the panic itself
            if not h.native_matches(case, j, nat, mine):
                conf_bad.append(dict(harness=h.name, case=case, inputs=j, native=nat, mirsym=mine))
    if conf_bad:
        for b in conf_bad[:10]:
            print('CONFORMANCE-MISMATCH %s' % json.dumps(b))
        print('ERROR property=%s: mirsym disagrees with the native build on %d/%d concrete vectors; no verdict'
              % (prop, len(conf_bad), conf_total))
        write_evidence(prop, tier, seed, dict(states=0, transitions=0, traces_validated_against_impl=conf_total,
                                              samples=[b for b in conf_bad[:3]], conformance_mismatches=len(conf_bad)),
                       [], time.time() - t0, 0, level_text)
        return 2
    # 2. symbolic exploration
    tasks = []
    for h in harnesses:
        hf = [f for f in findings if f.get('harness') == h.name]
        for case in h.cases(tier):
            tasks.append((h, case, tier, hf, deadline))
    rnd.shuffle(tasks)
    jobs = jobs or min(16, max(1, len(tasks)))
    if jobs > 1 and len(tasks) > 1:
        # 'spawn', not 'fork': with forked workers half of the CPU time went to the kernel (copy-on-write faults on
        # the shared parsed-MIR heap, contended between 16 processes); each spawned worker parses the dump itself (~2 s)
        ctx = multiprocessing.get_context('spawn')
        with ctx.Pool(jobs, initializer=_worker_init, initargs=(sorted({bool(h.with_clvmr) for h in harnesses}),)) as pool:
            results = pool.map(run_case, tasks, chunksize=1)
    else:
        results = [run_case(t) for t in tasks]
    # 3. aggregate
    hmap = {h.name: h for h in harnesses}
    agg = dict(paths={}, obligations=0, discharged=0, queries=0, stmts=0, solver_s=0.0)
    encoded, models, samples, inconcl, errors = {}, set(), [], [], []
    viols, known_hits = [], {}
    witnessed = {}
    for r in results:
        for k, v in r['paths'].items():
            agg['paths'][k] = agg['paths'].get(k, 0) + v
        for k in ('obligations', 'discharged', 'queries', 'stmts', 'solver_s'):
            agg[k] += r[k]
        encoded.update(r['encoded'])
        models.update(r['models'])
        if len(samples) < 6:
            samples.extend(r['samples'][:1])
        inconcl.extend(dict(harness=r['harness'], case=r['case'], **i) for i in r['inconclusive'])
        if r['error']:
            errors.append((r['harness'], r['case'], r['error']))
        for v in r['violations']:
            viols.append((r['harness'], r['case'], v))
        for k in r['known']:
            known_hits.setdefault(k['key'], (r['harness'], r['case'], k))
        witnessed.setdefault(r['harness'], set()).update(r['witnessed'])
    code = 0
    if errors:
        for hn, case, e in errors[:5]:
            print('ERROR property=%s harness=%s case=%s %s' % (prop, hn, json.dumps(case), e))
        code = 2
    # vacuity
    if agg['paths'].get('done', 0) == 0 and not errors:
        print('ERROR property=%s: no harness path reached its end (vacuous)' % prop)
        code = 2
    for h in harnesses:
        need = set(getattr(h, 'required_witnesses', lambda t: [])(tier))
        miss = need - witnessed.get(h.name, set())
        if miss and not errors:
            print('ERROR property=%s harness=%s: classes never witnessed: %s (vacuity guard)' % (prop, h.name, sorted(miss)))
            code = 2
    # 4. known findings: must still reproduce natively to be printed
    replay_dir = os.path.join(EVIDENCE_DIR, 'replays')
    os.makedirs(replay_dir, exist_ok=True)
    n_replayed = 0
    for fd in findings:
        hit = known_hits.get(fd['key'])
        if hit is None:
            print('NOTE property=%s known finding %s no longer reproduces symbolically (nothing suppressed for it)'
                  % (prop, fd['key']))
            continue
        hn, case, k = hit
        h = hmap[hn]
        nat = native_run(h, [dict(case=case, inputs=nat_inputs(h, case, k['inputs'], k.get('predicted')))])[0] if h.kernel else None
        n_replayed += 1
        if h.kernel and not h.is_violation(case, k['inputs'], nat):
            print('ERROR property=%s known finding %s: symbolic counterexample %s does not reproduce natively (%s)'
                  % (prop, fd['key'], json.dumps(k['inputs']), json.dumps(nat)))
            code = 2
            continue
        print('KNOWN-FINDING: property=%s %s [%s] e.g. inputs=%s native=%s' % (prop, fd['what'], fd['key'],
                                                                               json.dumps(k['inputs']), json.dumps(nat)))
    # 5. new violations: replay natively before reporting
    reported = 0
    nviol = 0
    seen = set()
    for hn, case, v in viols:
        h = hmap[hn]
        sig = (hn, v['ob'])
        if sig in seen and reported >= 3:
            continue
        seen.add(sig)
        if h.kernel is None:
            nat, genuine, agrees = None, True, True
        else:
            nat = native_run(h, [dict(case=case, inputs=nat_inputs(h, case, v['inputs'], v.get('predicted')))])[0]
            n_replayed += 1
            genuine = h.is_violation(case, v['inputs'], nat)
            agrees = h.native_matches(case, v['inputs'], nat, v['predicted'])
        if genuine:
            nviol += 1
            path = os.path.join(replay_dir, '%s-%s-%d.json' % (prop, hn, nviol))
            with open(path, 'w') as f:
                json.dump(dict(property=prop, harness=hn, kernel=h.kernel, case=case, inputs=v['inputs'],
                               obligation=v['ob'], predicted=v['predicted'], native=nat,
                               native_inputs=nat_inputs(h, case, v['inputs'], v.get('predicted')),
                               oracle=h.oracle(case, v['inputs'])), f, indent=1)
            print('VIOLATION property=%s replay=%s' % (prop, path))
            print('  harness=%s obligation=%s inputs=%s native=%s expected=%s' % (
                hn, v['ob'], json.dumps(v['inputs']), json.dumps(nat), json.dumps(h.oracle(case, v['inputs']))))
            reported += 1
            code = max(code, 1) if code != 2 else 2
        else:
            print('ERROR property=%s harness=%s: counterexample does not reproduce natively: inputs=%s predicted=%s native=%s (encoding or model wrong; no verdict)'
                  % (prop, hn, json.dumps(v['inputs']), json.dumps(v['predicted']), json.dumps(nat)))
            code = 2
    # 6. inconclusive
    uns = [i for i in inconcl]
    shown = set()
    for i in uns:
        key = (i['harness'], i['reason'], i['what'][:80])
        if key in shown:
            continue
        shown.add(key)
        if len(shown) <= 8:
            print('INCONCLUSIVE property=%s harness=%s reason=%s:%s' % (prop, i['harness'], i['reason'], i['what'][:200]))
    for h in harnesses:
        if h.unsupported_is_failure and any(i['harness'] == h.name and i['reason'] == 'unsupported' for i in uns):
            print('ERROR property=%s harness=%s: code on an explored path has neither MIR body nor model' % (prop, h.name))
            code = 2 if code == 0 else code
    # phase-1 results of the pipeline harnesses (compilations, REPL sessions, unused-argument reports executed from MIR)
    # are compared byte for byte with the native build's before anything is explored: each distinct one is a trace
    # validated against the implementation
    n_crosschecked = 0
    if code != 2:
        keys = set()
        for h_, case_, *_ in tasks:
            for k_ in getattr(h_, 'native_checks', lambda c: [])(case_):
                keys.add(k_)
        n_crosschecked = len(keys)
    wall = time.time() - t0
    cov = dict(
        states=agg['paths'].get('done', 0) + agg['paths'].get('panic', 0),
        transitions=agg['stmts'],
        traces_validated_against_impl=conf_total + n_replayed + n_crosschecked,
        samples=samples or [dict(note='no completed path')],
        obligations=agg['obligations'], discharged=agg['discharged'], queries=agg['queries'],
        solver_s=round(agg['solver_s'], 2), paths_by_end=agg['paths'],
        harnesses=[dict(name=h.name, functions=h.functions, cases=sum(1 for _ in h.cases(tier)),
                        bigint_bits=h.bigw[tier], loop_bound=h.loop_bound, assumptions=h.assumptions,
                        outside_claim=h.outside, witnessed=sorted(witnessed.get(h.name, [])))
                   for h in harnesses],
        functions_encoded=[dict(name=k, mir_lines=v) for k, v in sorted(encoded.items())],
        models_used=sorted(models),
        inconclusive=len(uns), known_findings=[f['key'] for f in findings],
        exhaustive=False,
        source_key=funcs(harnesses[0].with_clvmr)[1] if harnesses else '',
    )
    if extra_evidence:
        cov.update(extra_evidence)
    assumptions = []
    for h in harnesses:
        assumptions.extend(h.assumptions)
    assumptions.append('library models listed in coverage.models_used are the trusted base (mirsym/models*.py)')
    write_evidence(prop, tier, seed, cov, assumptions, wall, nviol, level_text)
    print('SUMMARY property=%s tier=%s paths=%s obligations=%d discharged=%d queries=%d solver_s=%.1f conformance=%d wall=%.1fs exit=%d'
          % (prop, tier, json.dumps(agg['paths']), agg['obligations'], agg['discharged'], agg['queries'],
             agg['solver_s'], conf_total, wall, code))
    return code


def write_evidence(prop, tier, seed, coverage, assumptions, wall, violations, level_text=''):
    os.makedirs(EVIDENCE_DIR, exist_ok=True)
    ev_ = dict(property_id=prop, tier=tier, seed=seed, level='model_checking', coverage=coverage,
               assumptions=sorted(set(assumptions)), wall_s=round(wall, 2), violations=violations)
    tmp = os.path.join(EVIDENCE_DIR, prop + '.json.tmp')
    with open(tmp, 'w') as f:
        json.dump(ev_, f, indent=1, default=str)
    os.rename(tmp, os.path.join(EVIDENCE_DIR, prop + '.json'))
