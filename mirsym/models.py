"""Library models for mirsym — the trusted base.

Every model replaces a function whose body is not in the crate's MIR dump
(std, num-bigint, clvmr's Allocator, sha2, ...).  BigInt is a signed
bit-vector of width eng.bigw; any operation whose exact result does not fit
ends the path as 'bound' (outside the stated bound), never as a verdict.
Model signature: fn(eng, match, args, frame, dest_type) -> value | NotImplemented
"""
import re
import z3
from .engine import (Int, Big, Bool, Struct, Enum, Vec, Cell, Ref, Slice, Opaque, Closure, FnItem,
                     mkint, mkbool, concrete, Unsupported, PathEnd, INT_TYPES, deep_copy,
                     Some, NONE, Ok, Err, UNIT, Tup)

MODELS = []
CONST_MODELS = []
DROP_MODELS = {}


def model(pattern):
    def deco(fn):
        MODELS.append((re.compile(pattern), fn))
        return fn
    return deco


def const_model(pattern):
    def deco(fn):
        CONST_MODELS.append((re.compile(pattern), fn))
        return fn
    return deco


def bigval(eng, n):
    return Big(z3.BitVecVal(n, eng.bigw))


def items_of(eng, v, fr=None):
    """python list of element values behind a Vec / Slice / &Vec / &[T;N] / String"""
    v0 = v
    if isinstance(v, Slice):
        base = eng.deref(v.ref, fr)
        if not isinstance(base, Vec):
            raise Unsupported('slice over %r' % (base,))
        if base.symlen is not None:
            raise Unsupported('contents of symbolic-length vec')
        return base.items[v.start:v.start + v.length]
    v = eng.deref(v, fr)
    if isinstance(v, Slice):
        return items_of(eng, v, fr)
    if isinstance(v, Vec):
        if v.symlen is not None:
            raise Unsupported('contents of symbolic-length vec')
        return v.items
    raise Unsupported('not a sequence: %r' % (v0,))


def vec_ref(eng, r, fr=None):
    """normalise a reference chain to a Ref whose target is the Vec itself"""
    if isinstance(r, Slice):
        return r
    while isinstance(r, Ref):
        t = eng.walk(r.cell.v, r.proj, fr)
        if isinstance(t, (Ref, Slice)):
            r = t
        else:
            break
    return r


def as_slice(eng, r, fr=None):
    r = vec_ref(eng, r, fr)
    if isinstance(r, Slice):
        return r
    if isinstance(r, Ref):
        return Slice(r, 0, len(items_of(eng, r, fr)))
    if isinstance(r, Vec):
        return Slice(Ref(Cell(r)), 0, len(r.items))
    raise Unsupported('as_slice of %r' % (r,))


def big_guard(eng, exact_wide, w2):
    W = eng.bigw
    res = z3.Extract(W - 1, 0, exact_wide)
    fits = z3.SignExt(w2 - W, res) == exact_wide
    if not eng.branch_bool(fits):
        raise PathEnd('bound', 'BigInt value exceeds %d bits' % W)
    return Big(res)


def as_big(eng, v, fr=None):
    v = eng.deref(v, fr)
    if isinstance(v, Big):
        return v.e
    if isinstance(v, Int):
        if v.w > eng.bigw:
            raise Unsupported('int wider than BigInt model')
        return (z3.SignExt if v.signed else z3.ZeroExt)(eng.bigw - v.w, v.e)
    raise Unsupported('not a number: %r' % (v,))


# ---------------------------------------------------------------- BigInt
@model(r'^(classic::clvm::__type_compatibility__::)?bi_one$|^<BigInt as One>::one$|^(num_traits::)?one::<BigInt>$')
def _bi_one(eng, m, args, fr, dty):
    return bigval(eng, 1)


@model(r'^(classic::clvm::__type_compatibility__::)?bi_zero$|^<BigInt as Zero>::zero$|^<BigInt as Default>::default$|^(num_traits::)?zero::<BigInt>$')
def _bi_zero(eng, m, args, fr, dty):
    return bigval(eng, 0)


@model(r'^<BigInt as Zero>::is_zero$')
def _bi_is_zero(eng, m, args, fr, dty):
    return Bool(as_big(eng, args[0], fr) == 0)


@model(r'^<BigInt as Clone>::clone$')
def _big_clone(eng, m, args, fr, dty):
    return eng.deref(args[0], fr)


@model(r'^<&?BigInt as (PartialOrd|PartialEq)(<.*>)?>::(lt|le|gt|ge|eq|ne)$')
def _big_cmp(eng, m, args, fr, dty):
    a, b = as_big(eng, args[0], fr), as_big(eng, args[1], fr)
    op = m.group(3)
    return Bool({'lt': a < b, 'le': a <= b, 'gt': a > b, 'ge': a >= b, 'eq': a == b, 'ne': a != b}[op])


@model(r'^<BigInt as Ord>::cmp$|^<BigInt as PartialOrd>::partial_cmp$')
def _big_ord(eng, m, args, fr, dty):
    a, b = as_big(eng, args[0], fr), as_big(eng, args[1], fr)
    if eng.branch_bool(a < b):
        r = Enum('Ordering', 'Less')
    elif eng.branch_bool(a == b):
        r = Enum('Ordering', 'Equal')
    else:
        r = Enum('Ordering', 'Greater')
    return Some(r) if 'partial' in m.group(0) else r


def big_arith(eng, op, a, b):
    W = eng.bigw
    w2 = 2 * W
    if op in ('add', 'sub'):
        aa, bb = z3.SignExt(1, a), z3.SignExt(1, b)
        return big_guard(eng, aa + bb if op == 'add' else aa - bb, W + 1)
    if op == 'mul':
        ca, cb = concrete(a), concrete(b)
        if cb is not None and cb in (2, 1, 0, 256):
            sh = {2: 1, 1: 0, 256: 8}.get(cb)
            if cb == 0:
                return Big(z3.BitVecVal(0, W))
            return big_guard(eng, z3.SignExt(8, a) << sh, W + 8)
        if ca is not None and ca in (2, 1, 256):
            sh = {2: 1, 1: 0, 256: 8}[ca]
            return big_guard(eng, z3.SignExt(8, b) << sh, W + 8)
        return big_guard(eng, z3.SignExt(W, a) * z3.SignExt(W, b), w2)
    if op == 'bitand': return Big(a & b)
    if op == 'bitor': return Big(a | b)
    if op == 'bitxor': return Big(a ^ b)
    if op in ('div', 'rem'):
        if eng.branch_bool(b == 0):
            raise PathEnd('panic', 'BigInt division by zero')
        return Big(a / b) if op == 'div' else Big(z3.SRem(a, b))   # truncating, like num-bigint
    raise Unsupported('bigint op ' + op)


@model(r'^<(&?)BigInt as (Add|Sub|Mul|Div|Rem|BitAnd|BitOr|BitXor)(<.*>)?>::(add|sub|mul|div|rem|bitand|bitor|bitxor)$')
def _big_bin(eng, m, args, fr, dty):
    return big_arith(eng, m.group(4), as_big(eng, args[0], fr), as_big(eng, args[1], fr))


@model(r'^<BigInt as (Add|Sub|Mul|Div|Rem|BitAnd|BitOr|BitXor)Assign(<.*>)?>::(add|sub|mul|div|rem|bitand|bitor|bitxor)_assign$')
def _big_bin_assign(eng, m, args, fr, dty):
    ref = args[0]
    cur = eng.deref(ref, fr)
    res = big_arith(eng, m.group(3), cur.e, as_big(eng, args[1], fr))
    eng.set_at(ref.cell, ref.proj, res, fr)
    return UNIT


@model(r'^<(&?)BigInt as Neg>::neg$')
def _big_neg(eng, m, args, fr, dty):
    a = as_big(eng, args[0], fr)
    return big_guard(eng, -z3.SignExt(1, a), eng.bigw + 1)


def big_shift(eng, a, n, left):
    W = eng.bigw
    k = eng.concretize(n, 0, W)
    if left:
        return big_guard(eng, z3.SignExt(W, a) << k, 2 * W)
    return Big(a >> k)           # arithmetic shift = floor division, like num-bigint


@model(r'^<(&?)BigInt as (Shl|Shr)<(\w+)>>::(shl|shr)$')
def _big_sh(eng, m, args, fr, dty):
    return big_shift(eng, as_big(eng, args[0], fr), args[1], m.group(4) == 'shl')


@model(r'^<BigInt as (Shl|Shr)Assign<(\w+)>>::(shl|shr)_assign$')
def _big_sh_assign(eng, m, args, fr, dty):
    ref = args[0]
    res = big_shift(eng, eng.deref(ref, fr).e, args[1], m.group(3) == 'shl')
    eng.set_at(ref.cell, ref.proj, res, fr)
    return UNIT


@model(r'^<(\w+) as (Into<BigInt>|ToBigInt)>::(into|to_bigint)$')
def _to_bigint(eng, m, args, fr, dty):
    b = Big(as_big(eng, args[0], fr))
    if m.group(3) == 'to_bigint':
        return Some(b)
    return b


@model(r'^<BigInt as From<(\w+)>>::from$')
def _big_from(eng, m, args, fr, dty):
    return Big(as_big(eng, args[0], fr))


@model(r'^<BigInt as ToPrimitive>::to_(u8|u16|u32|u64|usize|i8|i16|i32|i64|isize)$|^<(u8|u16|u32|u64|usize|i32|i64) as TryFrom<&?BigInt>>::try_from$')
def _big_to_prim(eng, m, args, fr, dty):
    ty = m.group(1) or m.group(2)
    w, sg = INT_TYPES[ty]
    a = as_big(eng, args[0], fr)
    W = eng.bigw
    if sg:
        lo, hi = -(1 << (w - 1)), (1 << (w - 1)) - 1
    else:
        lo, hi = 0, (1 << w) - 1
    fits = z3.And(a >= z3.BitVecVal(lo, W), a <= z3.BitVecVal(hi, W))
    ok = eng.branch_bool(fits)
    if m.group(1):
        return Some(Int(z3.Extract(w - 1, 0, a), w, sg)) if ok else NONE()
    return Ok(Int(z3.Extract(w - 1, 0, a), w, sg)) if ok else Err(Opaque('TryFromBigIntError'))


def signed_len_options(eng, e):
    """(n, cond): minimal two's complement length n bytes of BigInt term e (n>=1)"""
    W = eng.bigw
    opts = []
    for n in range(1, W // 8 + 1):
        lo, hi = -(1 << (8 * n - 1)), (1 << (8 * n - 1)) - 1
        c = z3.And(e >= z3.BitVecVal(lo, W), e <= z3.BitVecVal(hi, W))
        if n > 1:
            plo, phi = -(1 << (8 * (n - 1) - 1)), (1 << (8 * (n - 1) - 1)) - 1
            c = z3.And(c, z3.Or(e < z3.BitVecVal(plo, W), e > z3.BitVecVal(phi, W)))
        opts.append((n, c))
    return opts


def byte_of(e, n, i):
    """i-th most significant byte of the low n bytes of e"""
    return Int(z3.Extract(8 * (n - i) - 1, 8 * (n - i - 1), e), 8, False)


@model(r'^BigInt::to_signed_bytes_be$')
def _to_signed_be(eng, m, args, fr, dty):
    e = eng.deref(args[0], fr).e
    c = concrete(e)
    if c is not None:
        W = eng.bigw
        if c >= 1 << (W - 1):
            c -= 1 << W
        n = 1
        while not (-(1 << (8 * n - 1)) <= c <= (1 << (8 * n - 1)) - 1):
            n += 1
    else:
        n = eng.choose(signed_len_options(eng, e))      # num-bigint: 0 -> [0]
    return Vec([byte_of(e, n, i) for i in range(n)])


@model(r'^BigInt::to_signed_bytes_le$')
def _to_signed_le(eng, m, args, fr, dty):
    v = _to_signed_be(eng, m, args, fr, dty)
    return Vec(list(reversed(v.items)))


def from_signed(eng, items):
    W = eng.bigw
    n = len(items)
    if n == 0:
        return z3.BitVecVal(0, W)
    if 8 * n > W:
        raise PathEnd('bound', 'byte string longer than BigInt model width')
    e = z3.Concat(*[b.e for b in items]) if n > 1 else items[0].e
    return z3.SignExt(W - 8 * n, e) if 8 * n < W else e


def from_unsigned(eng, items):
    W = eng.bigw
    n = len(items)
    if n == 0:
        return z3.BitVecVal(0, W)
    if 8 * n >= W:
        raise PathEnd('bound', 'byte string longer than BigInt model width')
    e = z3.Concat(*[b.e for b in items]) if n > 1 else items[0].e
    return z3.ZeroExt(W - 8 * n, e)


@model(r'^BigInt::from_signed_bytes_be$')
def _from_signed_be(eng, m, args, fr, dty):
    return Big(from_signed(eng, items_of(eng, args[0], fr)))


@model(r'^BigInt::from_signed_bytes_le$')
def _from_signed_le(eng, m, args, fr, dty):
    return Big(from_signed(eng, list(reversed(items_of(eng, args[0], fr)))))


@model(r'^BigInt::from_bytes_be$')
def _from_bytes_be(eng, m, args, fr, dty):
    sign = args[0]
    mag = from_unsigned(eng, items_of(eng, args[1], fr))
    if sign.variant == 'Minus':
        return Big(-mag)
    if sign.variant == 'NoSign':
        return bigval(eng, 0)
    return Big(mag)


def magnitude_bytes(eng, mag):
    W = eng.bigw
    c = concrete(mag)
    if c is not None:
        n = (c.bit_length() + 7) // 8
    else:
        opts = [(0, mag == 0)]
        for n in range(1, W // 8 + 1):
            hi = z3.ULT(mag, z3.BitVecVal(1 << (8 * n), W)) if 8 * n < W else z3.BoolVal(True)
            opts.append((n, z3.And(z3.UGE(mag, z3.BitVecVal(1 << (8 * (n - 1)), W)), hi)))
        n = eng.choose(opts)
    return n


@model(r'^BigInt::to_bytes_be$')
def _to_bytes_be(eng, m, args, fr, dty):
    e = eng.deref(args[0], fr).e
    neg = eng.branch_bool(e < 0)
    mag = -e if neg else e
    n = magnitude_bytes(eng, mag)
    sign = Enum('Sign', 'Minus' if neg else ('NoSign' if n == 0 else 'Plus'), [])
    items = [byte_of(mag, n, i) for i in range(n)] if n else [mkint(0, 'u8')]
    return Tup(sign, Vec(items))


@model(r'^BigInt::bits$')
def _big_bits(eng, m, args, fr, dty):
    e = eng.deref(args[0], fr).e
    neg = eng.branch_bool(e < 0)
    mag = -e if neg else e
    W = eng.bigw
    c = concrete(mag)
    if c is not None:
        return mkint(c.bit_length(), 'u64')
    opts = [(0, mag == 0)]
    for n in range(1, W):
        opts.append((n, z3.And(z3.UGE(mag, z3.BitVecVal(1 << (n - 1), W)), z3.ULT(mag, z3.BitVecVal(1 << n, W)))))
    return mkint(eng.choose(opts), 'u64')


@model(r'^BigInt::sign$')
def _big_sign(eng, m, args, fr, dty):
    e = eng.deref(args[0], fr).e
    if eng.branch_bool(e < 0):
        return Enum('Sign', 'Minus')
    if eng.branch_bool(e == 0):
        return Enum('Sign', 'NoSign')
    return Enum('Sign', 'Plus')


# ---------------------------------------------------------------- Option / Result
def is_opt(v, name):
    return isinstance(v, Enum) and v.variant == name


@model(r'^(std::option::)?Option::<.*>::(unwrap|expect)$|^(std::result::)?Result::<.*>::(unwrap|expect)$')
def _unwrap(eng, m, args, fr, dty):
    v = args[0]
    if v.variant in ('None', 'Err'):
        raise PathEnd('panic', 'unwrap on ' + v.variant)
    return v.fields[0]


@model(r'^(std::option::)?Option::<.*>::is_(some|none)$')
def _opt_is(eng, m, args, fr, dty):
    v = eng.deref(args[0], fr)
    return mkbool((v.variant == 'Some') == (m.group(2) == 'some'))


@model(r'^(std::result::)?Result::<.*>::is_(ok|err)$')
def _res_is(eng, m, args, fr, dty):
    v = eng.deref(args[0], fr)
    return mkbool((v.variant == 'Ok') == (m.group(2) == 'ok'))


@model(r'^(std::option::)?Option::<.*>::map::<.*>$')
def _opt_map(eng, m, args, fr, dty):
    v, clo = args
    if v.variant == 'None':
        return NONE()
    return Some(eng.call_closure(clo, [v.fields[0]]))


@model(r'^(std::option::)?Option::<.*>::and_then::<.*>$')
def _opt_and_then(eng, m, args, fr, dty):
    v, clo = args
    if v.variant == 'None':
        return NONE()
    return eng.call_closure(clo, [v.fields[0]])


@model(r'^(std::option::)?Option::<.*>::(unwrap_or_else|map_or_else)::<.*>$')
def _opt_unwrap_or_else(eng, m, args, fr, dty):
    if m.group(2) == 'unwrap_or_else':
        v, clo = args
        if v.variant == 'Some':
            return v.fields[0]
        return eng.call_closure(clo, [])
    v, dflt, clo = args
    if v.variant == 'Some':
        return eng.call_closure(clo, [v.fields[0]])
    return eng.call_closure(dflt, [])


@model(r'^(std::option::)?Option::<.*>::(unwrap_or|map_or)(::<.*>)?$')
def _opt_unwrap_or(eng, m, args, fr, dty):
    if m.group(2) == 'unwrap_or':
        v, d = args
        return v.fields[0] if v.variant == 'Some' else d
    v, d, clo = args
    return eng.call_closure(clo, [v.fields[0]]) if v.variant == 'Some' else d


@model(r'^(std::option::)?Option::<.*>::unwrap_or_default$')
def _opt_unwrap_or_default(eng, m, args, fr, dty):
    v = args[0]
    if v.variant == 'Some':
        return v.fields[0]
    return default_for(eng, dty)


def default_for(eng, ty):
    if ty is None:
        raise Unsupported('default of unknown type')
    t = ty.strip()
    if t in INT_TYPES:
        return mkint(0, t)
    if t == 'bool':
        return mkbool(False)
    if t.startswith(('std::vec::Vec<', 'Vec<', 'std::string::String', 'String')):
        return Vec([])
    if 'BigInt' in t:
        return Big(z3.BitVecVal(0, eng.bigw))
    raise Unsupported('default of ' + ty)


@model(r'^(std::option::)?Option::<.*>::ok_or(_else)?(::<.*>)?$')
def _opt_ok_or(eng, m, args, fr, dty):
    v, e = args
    if v.variant == 'Some':
        return Ok(v.fields[0])
    return Err(eng.call_closure(e, []) if m.group(2) else e)


@model(r'^(std::option::)?Option::<.*>::(as_ref|as_mut)$')
def _opt_as_ref(eng, m, args, fr, dty):
    r = args[0]
    v = eng.deref(r, fr)
    if v.variant == 'None':
        return NONE()
    r = vec_ref(eng, r, fr)
    return Some(Ref(r.cell, r.proj + (('field', 0),)))


@model(r'^(std::option::)?Option::<&.*>::(cloned|copied)$')
def _opt_cloned(eng, m, args, fr, dty):
    v = args[0]
    if v.variant == 'None':
        return NONE()
    return Some(deep_copy(eng.deref(v.fields[0], fr)))


@model(r'^(std::option::)?Option::<.*>::take$')
def _opt_take(eng, m, args, fr, dty):
    r = args[0]
    v = eng.deref(r, fr)
    eng.set_at(r.cell, r.proj, NONE(), fr)
    return v


@model(r'^(std::option::)?Option::<.*>::or_else::<.*>$')
def _opt_or_else(eng, m, args, fr, dty):
    v, clo = args
    if v.variant == 'Some':
        return v
    return eng.call_closure(clo, [])


@model(r'^(std::option::)?Option::<.*>::filter::<.*>$')
def _opt_filter(eng, m, args, fr, dty):
    v, clo = args
    if v.variant == 'None':
        return v
    keep = eng.call_closure(clo, [Ref(Cell(v.fields[0]))])
    return v if eng.branch_bool(keep.e) else NONE()


@model(r'^(std::result::)?Result::<.*>::map::<.*>$')
def _res_map(eng, m, args, fr, dty):
    v, clo = args
    if v.variant == 'Err':
        return v
    return Ok(eng.call_closure(clo, [v.fields[0]]))


@model(r'^(std::result::)?Result::<.*>::map_err::<.*>$')
def _res_map_err(eng, m, args, fr, dty):
    v, clo = args
    if v.variant == 'Ok':
        return v
    return Err(eng.call_closure(clo, [v.fields[0]]))


@model(r'^(std::result::)?Result::<.*>::and_then::<.*>$')
def _res_and_then(eng, m, args, fr, dty):
    v, clo = args
    if v.variant == 'Err':
        return v
    return eng.call_closure(clo, [v.fields[0]])


@model(r'^(std::result::)?Result::<.*>::ok$')
def _res_ok(eng, m, args, fr, dty):
    v = args[0]
    return Some(v.fields[0]) if v.variant == 'Ok' else NONE()


@model(r'^(std::result::)?Result::<.*>::(unwrap_or_else|or_else)::<.*>$')
def _res_unwrap_or_else(eng, m, args, fr, dty):
    v, clo = args
    if v.variant == 'Ok':
        return v.fields[0] if m.group(2) == 'unwrap_or_else' else v
    return eng.call_closure(clo, [v.fields[0]])


@model(r'^(std::result::)?Result::<.*>::unwrap_or(_default)?$')
def _res_unwrap_or(eng, m, args, fr, dty):
    v = args[0]
    if v.variant == 'Ok':
        return v.fields[0]
    return args[1] if len(args) > 1 else default_for(eng, dty)


@model(r'^<(std::result::)?Result<.*> as (std::ops::)?Try>::branch$')
def _res_branch(eng, m, args, fr, dty):
    v = args[0]
    if v.variant == 'Ok':
        return Enum('ControlFlow', 'Continue', [v.fields[0]])
    return Enum('ControlFlow', 'Break', [Err(v.fields[0])])


@model(r'^<(std::option::)?Option<.*> as (std::ops::)?Try>::branch$')
def _opt_branch(eng, m, args, fr, dty):
    v = args[0]
    if v.variant == 'Some':
        return Enum('ControlFlow', 'Continue', [v.fields[0]])
    return Enum('ControlFlow', 'Break', [NONE()])


@model(r'^<(std::result::)?Result<.*> as (std::ops::)?FromResidual<.*>>::from_residual$')
def _res_from_residual(eng, m, args, fr, dty):
    v = args[0]
    e = v.fields[0]
    # From<E> conversions: identity unless a user From impl exists
    mm = re.search(r'FromResidual<(?:std::result::)?Result<Infallible, (.+)>>$', m.group(0).rsplit('>::from_residual', 1)[0])
    return Err(e)


@model(r'^<(std::option::)?Option<.*> as (std::ops::)?FromResidual<.*>>::from_residual$')
def _opt_from_residual(eng, m, args, fr, dty):
    return NONE()


# ---------------------------------------------------------------- misc std
@model(r'^<str as ToString>::to_string$|^<(std::string::)?String as From<&str>>::from$|^<str as ToOwned>::to_owned$|^<(std::string::)?String as Clone>::clone$|^core::str::<impl str>::to_owned$')
def _str_to_string(eng, m, args, fr, dty):
    v = eng.deref(args[0], fr)
    if isinstance(v, Opaque):
        return Opaque(v.what)          # an opaque (formatted) message stays opaque
    return Vec(list(items_of(eng, args[0], fr)))


@model(r'^format$|^std::fmt::format$|^alloc::fmt::format$|^format::<.*>$|^std::fmt::format::.*$')
def _format(eng, m, args, fr, dty):
    return Opaque('formatted string')


@model(r'^core::fmt::rt::.*$|^Arguments::<.*>::.*$|^core::fmt::.*$|^std::fmt::Arguments::<.*>::.*$|^std::fmt::Arguments::.*$|^must_use::<.*>$')
def _fmt(eng, m, args, fr, dty):
    if m.group(0).startswith('must_use'):
        return args[0]
    return Opaque('fmt')


@model(r'^panic$|^core::panicking::.*$|^std::rt::begin_panic.*$|^std::rt::panic_fmt$|^panic_fmt$|^core::panicking::panic_fmt$|^std::process::abort$|^unreachable_display.*$')
def _panic(eng, m, args, fr, dty):
    raise PathEnd('panic', 'explicit panic: ' + m.group(0))


@model(r'^(std::mem::|core::mem::)?(swap|replace|take)::<.*>$')
def _mem(eng, m, args, fr, dty):
    op = m.group(2)
    if op == 'swap':
        a, b = args
        va, vb = eng.deref(a, fr), eng.deref(b, fr)
        eng.set_at(a.cell, a.proj, vb, fr)
        eng.set_at(b.cell, b.proj, va, fr)
        return UNIT
    a = args[0]
    old = eng.deref(a, fr)
    if op == 'replace':
        eng.set_at(a.cell, a.proj, args[1], fr)
    else:
        eng.set_at(a.cell, a.proj, default_like(eng, old), fr)
    return old


def default_like(eng, v):
    if isinstance(v, Vec):
        return Vec([])
    if isinstance(v, Int):
        return Int(z3.BitVecVal(0, v.w), v.w, v.signed)
    if isinstance(v, Enum) and v.ty == 'Option':
        return NONE()
    raise Unsupported('default like %r' % (v,))


@model(r'^(std::mem::|core::mem::)?drop::<.*>$|^(std::mem::)?forget::<.*>$')
def _drop(eng, m, args, fr, dty):
    return UNIT


@model(r'^<(u8|u16|u32|u64|usize|i8|i16|i32|i64|isize|char|bool) as Clone>::clone$')
def _prim_clone(eng, m, args, fr, dty):
    return eng.deref(args[0], fr)


@model(r'^<(\w+) as (PartialEq|PartialOrd)(<.*>)?>::(eq|ne|lt|le|gt|ge)$')
def _prim_cmp(eng, m, args, fr, dty):
    a, b = eng.deref(args[0], fr), eng.deref(args[1], fr)
    if isinstance(a, Int) and isinstance(b, Int):
        op = {'eq': 'Eq', 'ne': 'Ne', 'lt': 'Lt', 'le': 'Le', 'gt': 'Gt', 'ge': 'Ge'}[m.group(4)]
        return eng.binop(op, a, b)
    if isinstance(a, Bool) and isinstance(b, Bool):
        return Bool(a.e == b.e) if m.group(4) == 'eq' else Bool(a.e != b.e)
    return NotImplemented


@model(r'^<(u8|u16|u32|u64|usize|i8|i16|i32|i64|isize|char) as Ord>::cmp$')
def _prim_ord(eng, m, args, fr, dty):
    return eng.binop('Cmp', eng.deref(args[0], fr), eng.deref(args[1], fr))


@model(r'^(std::cmp::)?(min|max)::<(\w+)>$|^<(\w+) as Ord>::(min|max)$')
def _minmax(eng, m, args, fr, dty):
    a, b = args
    if not isinstance(a, Int):
        return NotImplemented
    op = m.group(2) or m.group(5)
    lt = (a.e < b.e) if a.signed else z3.ULT(a.e, b.e)
    if op == 'min':
        return Int(z3.If(lt, a.e, b.e), a.w, a.signed)
    return Int(z3.If(lt, b.e, a.e), a.w, a.signed)


@model(r'^<(u8|u16|u32|u64|usize|u128|i8|i16|i32|i64|isize) as (From|Into)<(\w+)>>::(from|into)$|^<(\w+) as Into<(\w+)>>::into$')
def _int_from(eng, m, args, fr, dty):
    v = args[0]
    if m.group(1):
        to = m.group(1) if m.group(2) == 'From' else m.group(3)
    else:
        to = m.group(6)
    if to not in INT_TYPES or not isinstance(v, (Int, Bool)):
        return NotImplemented
    return eng.cast(v, to, 'IntToInt')


@model(r'^<(u8|u16|u32|u64|usize|i8|i16|i32|i64|isize) as TryFrom<(\w+)>>::try_from$|^<(\w+) as TryInto<(\w+)>>::try_into$')
def _int_try_from(eng, m, args, fr, dty):
    v = args[0]
    to = m.group(1) or m.group(4)
    if to not in INT_TYPES or not isinstance(v, Int):
        return NotImplemented
    w, sg = INT_TYPES[to]
    W = max(w, v.w) + 1
    wide = (z3.SignExt if v.signed else z3.ZeroExt)(W - v.w, v.e)
    lo, hi = (-(1 << (w - 1)), (1 << (w - 1)) - 1) if sg else (0, (1 << w) - 1)
    fits = z3.And(wide >= z3.BitVecVal(lo, W), wide <= z3.BitVecVal(hi, W))
    if eng.branch_bool(fits):
        return Ok(Int(z3.Extract(w - 1, 0, wide), w, sg))
    return Err(Opaque('TryFromIntError'))


@model(r'^core::num::<impl (\w+)>::(wrapping_add|wrapping_sub|wrapping_mul|checked_add|checked_sub|checked_mul|saturating_sub|pow|leading_zeros|trailing_zeros|count_ones|is_power_of_two|abs|overflowing_add|overflowing_sub)$')
def _num_methods(eng, m, args, fr, dty):
    op = m.group(2)
    a = args[0]
    w, sg = a.w, a.signed
    if op.startswith('wrapping_'):
        return eng.binop({'add': 'Add', 'sub': 'Sub', 'mul': 'Mul'}[op[9:]], a, args[1])
    if op.startswith('checked_') or op.startswith('overflowing_'):
        nm = op.split('_')[1]
        r = eng.binop({'add': 'AddWithOverflow', 'sub': 'SubWithOverflow', 'mul': 'MulWithOverflow'}[nm], a, args[1])
        if op.startswith('overflowing_'):
            return r
        if eng.branch_bool(r.fields[1].e):
            return NONE()
        return Some(r.fields[0])
    if op == 'saturating_sub' and not sg:
        b = args[1]
        return Int(z3.If(z3.ULT(a.e, b.e), z3.BitVecVal(0, w), a.e - b.e), w, sg)
    if op == 'leading_zeros':
        e = z3.BitVecVal(w, 32)
        for i in range(w):
            e = z3.If(z3.Extract(i, i, a.e) == 1, z3.BitVecVal(w - 1 - i, 32), e)
        return Int(e, 32, False)
    if op == 'trailing_zeros':
        e = z3.BitVecVal(w, 32)
        for i in reversed(range(w)):
            e = z3.If(z3.Extract(i, i, a.e) == 1, z3.BitVecVal(i, 32), e)
        return Int(e, 32, False)
    if op == 'count_ones':
        e = z3.BitVecVal(0, 32)
        for i in range(w):
            e = e + z3.ZeroExt(31, z3.Extract(i, i, a.e))
        return Int(e, 32, False)
    return NotImplemented


# ---------------------------------------------------------------- Rc / Box / RefCell
@model(r'^<Rc<.*> as (Borrow|Deref|AsRef)(<.*>)?>::(borrow|deref|as_ref)$|^<Box<.*> as (Deref|DerefMut|AsRef|Borrow)(<.*>)?>::(deref|deref_mut|as_ref|borrow)$|^<(std::rc::)?Rc<.*> as (std::borrow::)?Borrow<.*>>::borrow$')
def _rc_borrow(eng, m, args, fr, dty):
    rc = eng.deref(args[0], fr)
    if not isinstance(rc, Cell):
        raise Unsupported('Rc/Box borrow of %r' % (rc,))
    inner = rc.v
    if isinstance(inner, Vec) and dty and (dty.startswith('&[') or dty.startswith('&str') or dty.startswith('&mut [')):
        return Slice(Ref(rc), 0, len(inner.items))
    return Ref(rc)


@model(r'^<Rc<.*> as Clone>::clone$')
def _rc_clone(eng, m, args, fr, dty):
    return eng.deref(args[0], fr)


@model(r'^<Box<.*> as Clone>::clone$')
def _box_clone(eng, m, args, fr, dty):
    return deep_copy(eng.deref(args[0], fr))


@model(r'^Rc::<.*>::new$|^Rc::new$|^<Rc<.*> as From<.*>>::from$')
def _rc_new(eng, m, args, fr, dty):
    return Cell(args[0], 'rc')


@model(r'^Box::<.*>::new$|^Box::new$')
def _box_new(eng, m, args, fr, dty):
    return Cell(args[0], 'box')


@model(r'^Rc::<.*>::ptr_eq$')
def _rc_ptr_eq(eng, m, args, fr, dty):
    return mkbool(eng.deref(args[0], fr) is eng.deref(args[1], fr))


@model(r'^RefCell::<.*>::new$|^Cell::<.*>::new$')
def _refcell_new(eng, m, args, fr, dty):
    return Cell(args[0], 'refcell')


# atomics: a cell holding the value; every access is sequentially consistent in the model (one step of the
# harness's schedule at a time), which is what the orderings used in this crate ask for
@model(r'^(std::sync::atomic::)?(Atomic::<.*>|AtomicBool|AtomicUsize|AtomicU32|AtomicU64|AtomicI32|AtomicI64|AtomicIsize)::new$')
def _atomic_new(eng, m, args, fr, dty):
    return Cell(args[0], 'refcell')


@model(r'^(std::sync::atomic::)?(Atomic::<.*>|AtomicBool|AtomicUsize|AtomicU32|AtomicU64|AtomicI32|AtomicI64|AtomicIsize)::(load|store|swap|fetch_add|fetch_sub|into_inner)$')
def _atomic_op(eng, m, args, fr, dty):
    c = eng.deref(args[0], fr)
    if not isinstance(c, Cell):
        raise Unsupported('atomic op on %r' % (c,))
    op = m.group(3)
    old = c.v
    if op in ('load', 'into_inner'):
        return old
    if op == 'store':
        c.v = args[1]
        return UNIT
    if op == 'swap':
        c.v = args[1]
        return old
    c.v = eng.binop('Add' if op == 'fetch_add' else 'Sub', old, args[1])      # wraps, as the atomics do
    return old


@model(r'^RefCell::<.*>::(borrow|borrow_mut)$')
def _refcell_borrow(eng, m, args, fr, dty):
    c = eng.deref(args[0], fr)
    if not isinstance(c, Cell):
        raise Unsupported('RefCell borrow of %r' % (c,))
    return Struct('RefGuard', [Ref(c)])


@model(r'^<(std::cell::)?(Ref|RefMut)<.*> as (Deref|DerefMut)>::(deref|deref_mut)$')
def _refguard_deref(eng, m, args, fr, dty):
    g = eng.deref(args[0], fr)
    return g.fields[0]


@model(r'^RefCell::<.*>::(replace|set)$|^Cell::<.*>::(replace|set)$')
def _refcell_replace(eng, m, args, fr, dty):
    c = eng.deref(args[0], fr)
    old = c.v
    c.v = args[1]
    return old if 'replace' in m.group(0) else UNIT


@model(r'^Cell::<.*>::get$')
def _cell_get(eng, m, args, fr, dty):
    return eng.deref(args[0], fr).v


@model(r'^(std::thread::)?LocalKey::<.*>::new$')
def _localkey_new(eng, m, args, fr, dty):
    f = args[0]
    name = f.name if isinstance(f, FnItem) else str(f)
    return Struct('LocalKeyV', [name.replace('::{constant#0}', '')])


def tls_cell(eng, name):
    """the per-path cell behind a thread_local!; initial value from eng.env['tls'][short name] or its initialiser"""
    th = eng.env.get('thread')
    short = name.split('::')[-1]
    if th is not None:
        name = '%s@thread%s' % (name, th)          # one cell per (thread-local, logical thread)
    if name not in eng.statics:
        init = eng.env.get('tls', {}).get(short if th is None else (short, th), eng.env.get('tls', {}).get(short))
        if init is None:
            init = eng.const(name.split('@thread')[0] + '::__RUST_STD_INTERNAL_INIT')
            if isinstance(init, (FnItem, Opaque)):
                raise Unsupported('thread-local initialiser of ' + name)
        elif callable(init):
            init = init()
        eng.statics[name] = Cell(init, 'static')
    return eng.statics[name]


@model(r'^(std::thread::)?LocalKey::<.*>::with::<.*>$')
def _localkey_with(eng, m, args, fr, dty):
    key, clo = args
    key = eng.deref(key, fr)
    if isinstance(key, Struct) and key.ty == 'LocalKeyV':
        return eng.call_closure(clo, [Ref(tls_cell(eng, key.fields[0]))])
    raise Unsupported('LocalKey::with on %r' % (key,))


# ---------------------------------------------------------------- Range
def rng(v):
    return v.fields[0], v.fields[1]


@model(r'^<(std::ops::)?Range<(\w+)> as IntoIterator>::into_iter$')
def _range_into_iter(eng, m, args, fr, dty):
    return args[0]


@model(r'^<(std::ops::)?Range<(\w+)> as Iterator>::next$|^std::iter::range::<impl Iterator for (std::ops::)?Range<(\w+)>>::next$')
def _range_next(eng, m, args, fr, dty):
    r = eng.deref(args[0], fr)
    s, e = r.fields[0], r.fields[1]
    lt = (s.e < e.e) if s.signed else z3.ULT(s.e, e.e)
    if eng.branch_bool(lt):
        r.fields[0] = Int(s.e + 1, s.w, s.signed)
        return Some(s)
    return NONE()


@model(r'^<(std::ops::)?Range<(\w+)> as Iterator>::rev$|^<(std::ops::)?Range<(\w+)> as DoubleEndedIterator>::rev$')
def _range_rev(eng, m, args, fr, dty):
    return Struct('RevRange', [args[0]])


@model(r'^<Rev<(std::ops::)?Range<(\w+)>> as IntoIterator>::into_iter$')
def _revrange_into_iter(eng, m, args, fr, dty):
    return args[0]


@model(r'^<Rev<(std::ops::)?Range<(\w+)>> as Iterator>::next$')
def _revrange_next(eng, m, args, fr, dty):
    rr = eng.deref(args[0], fr)
    r = rr.fields[0]
    s, e = r.fields[0], r.fields[1]
    lt = (s.e < e.e) if s.signed else z3.ULT(s.e, e.e)
    if eng.branch_bool(lt):
        ne = Int(e.e - 1, e.w, e.signed)
        r.fields[1] = ne
        return Some(ne)
    return NONE()


@model(r'^(std::ops::)?RangeInclusive::<(\w+)>::new$')
def _rangeinc_new(eng, m, args, fr, dty):
    return Struct('RangeInclusive', [args[0], args[1], mkbool(False)])


@model(r'^<(std::ops::)?RangeInclusive<(\w+)> as IntoIterator>::into_iter$')
def _rangeinc_into_iter(eng, m, args, fr, dty):
    return args[0]


@model(r'^<(std::ops::)?RangeInclusive<(\w+)> as Iterator>::next$')
def _rangeinc_next(eng, m, args, fr, dty):
    r = eng.deref(args[0], fr)
    s, e, done = r.fields
    if concrete(done.e if done.c is None else z3.BoolVal(done.c)):
        return NONE()
    lt = (s.e < e.e) if s.signed else z3.ULT(s.e, e.e)
    if eng.branch_bool(lt):
        r.fields[0] = Int(s.e + 1, s.w, s.signed)
        return Some(s)
    if eng.branch_bool(s.e == e.e):
        r.fields[2] = mkbool(True)
        return Some(s)
    return NONE()


@model(r'^(std::ops::)?RangeInclusive::<(\w+)>::contains::<.*>$|^(std::ops::)?Range::<(\w+)>::contains::<.*>$')
def _range_contains(eng, m, args, fr, dty):
    r = eng.deref(args[0], fr)
    x = eng.deref(args[1], fr)
    lo, hi = r.fields[0], r.fields[1]
    ge = z3.UGE(x.e, lo.e) if not x.signed else (x.e >= lo.e)
    if 'RangeInclusive' in m.group(0):
        le = z3.ULE(x.e, hi.e) if not x.signed else (x.e <= hi.e)
    else:
        le = z3.ULT(x.e, hi.e) if not x.signed else (x.e < hi.e)
    return Bool(z3.And(ge, le))


# ---------------------------------------------------------------- decimal text <-> BigInt
def _dec_key(items):
    return tuple(b.e.get_id() for b in items)


@model(r'^<BigInt as Num>::from_str_radix$|^BigInt::parse_bytes$')
def _from_str_radix(eng, m, args, fr, dty):
    items = items_of(eng, args[0], fr)
    radix = concrete(args[1].e)
    W = eng.bigw
    if radix != 10:
        raise Unsupported('from_str_radix radix %r' % radix)
    err = Err(Opaque('ParseBigIntError'))
    if not items:
        return err
    memo = getattr(eng, 'dec_memo', None)
    if memo is not None:
        hit = memo.get(_dec_key(items))
        if hit is not None:
            # text produced by BigInt::to_string on this very path: parse . to_string = id (num-bigint contract)
            eng.models_used.add('assumption: BigInt::from_str_radix(BigInt::to_string(x)) == x')
            return Ok(Big(hit))
    neg = eng.branch_bool(items[0].e == 45)
    plus = (not neg) and eng.branch_bool(items[0].e == 43)
    digs = items[1:] if (neg or plus) else items
    if not digs:
        return err
    for b in digs:
        if not eng.branch_bool(z3.And(z3.UGE(b.e, 48), z3.ULE(b.e, 57))):
            if eng.branch_bool(b.e == 95):
                raise PathEnd('bound', "from_str_radix with '_' separator not modelled")
            return err
    if 10 ** len(digs) >= 1 << (W - 1):
        raise PathEnd('bound', 'decimal literal too long for BigInt model')
    w = max(8, (10 ** len(digs)).bit_length() + 1)  # narrow arithmetic: the value is < 10^len
    acc = z3.BitVecVal(0, w)
    for b in digs:
        acc = acc * 10 + z3.ZeroExt(w - 8, b.e - 48)
    acc = z3.ZeroExt(W - w, acc)
    return Ok(Big(-acc if neg else acc))


def decimal_digits(eng, mag, maxd=None):
    """fork on the number of decimal digits of a non-negative BigInt term; -> list of digit byte terms (ASCII)"""
    W = eng.bigw
    c = concrete(mag)
    if c is not None:
        return [Int(z3.BitVecVal(ord(ch), 8), 8, False) for ch in str(c)]
    maxd = maxd or len(str((1 << (W - 1)) - 1))
    opts = []
    for d in range(1, maxd + 1):
        lo = 0 if d == 1 else 10 ** (d - 1)
        hi = 10 ** d
        cond = z3.UGE(mag, z3.BitVecVal(lo, W))
        if hi < (1 << W):
            cond = z3.And(cond, z3.ULT(mag, z3.BitVecVal(hi, W)))
        opts.append((d, cond))
    d = eng.choose(opts)
    w = min(W, max(8, (10 ** d).bit_length() + 1))   # narrow arithmetic: mag < 10^d on this path
    mg = z3.Extract(w - 1, 0, mag)
    out = []
    for k in range(d):
        p = 10 ** (d - 1 - k)
        dig = z3.URem(z3.UDiv(mg, z3.BitVecVal(p, w)), z3.BitVecVal(10, w))
        out.append(Int(z3.Extract(7, 0, dig) + 48, 8, False))
    return out


@model(r'^<BigInt as ToString>::to_string$|^<BigInt as Display>::fmt_to_string$')
def _big_to_string(eng, m, args, fr, dty):
    e = eng.deref(args[0], fr).e
    neg = eng.branch_bool(e < 0)
    mag = -e if neg else e
    digs = decimal_digits(eng, mag)
    out = ([mkint(45, 'u8')] if neg else []) + digs
    if not hasattr(eng, 'dec_memo') or eng.dec_memo_path is not eng.pc:
        eng.dec_memo, eng.dec_memo_path = {}, eng.pc
    eng.dec_memo[_dec_key(out)] = e
    return Vec(out)


@model(r'^<Rc<.*> as PartialEq>::(eq|ne)$')
def _rc_eq(eng, m, args, fr, dty):
    a, b = eng.deref(args[0], fr), eng.deref(args[1], fr)
    if a is b:
        return mkbool(m.group(1) == 'eq')
    va, vb = a.v, b.v
    if isinstance(va, Vec) and isinstance(vb, Vec):
        from .models_vec import items_eq
        e = items_eq(eng, va.items, vb.items)
        return Bool(z3.Not(e) if m.group(1) == 'ne' else e)
    return NotImplemented
