"""SHA-256 as an injective uninterpreted function of its preimage stream.

update() accumulates the preimage (byte terms, possibly digest bytes of inner hashes);
finalize() yields 32 HashByte items.  Two digests are equal iff their preimages are equal
(collision freedom is the stated assumption); digest bytes are never compared with ordinary bytes."""
import hashlib
import z3
from .engine import (Int, Bool, Struct, Enum, Vec, Cell, Ref, Slice, Opaque, mkint, Unsupported, UNIT, concrete)
from .models import model, items_of, as_slice
from .models_vec import IterV, items_eq

SHA = r'<CoreWrapper<CtVariableCoreWrapper<Sha256VarCore, .*> as Digest>'


class HasherV:
    def __init__(self):
        self.pre = []


class HashByte:
    __slots__ = ('pre', 'i')

    def __init__(self, pre, i):
        self.pre, self.i = pre, i

    def eq_formula(self, eng, other):
        if not isinstance(other, HashByte):
            raise Unsupported('comparison of a digest byte with an ordinary byte')
        if self.i != other.i:
            raise Unsupported('comparison of digest bytes at different offsets')
        return items_eq(eng, self.pre, other.pre)

    def __repr__(self):
        return 'HashByte(%d of H(%d items))' % (self.i, len(self.pre))

    def conc(self):
        """the concrete value of this digest byte (or hex digit, i >= 1000) when the whole preimage is concrete, else None"""
        d = concrete_digest(self.pre)
        if d is None:
            return None
        if self.i >= 1000:
            k = self.i - 1000
            nib = (d[k // 2] >> 4) if k % 2 == 0 else (d[k // 2] & 15)
            return ord('0123456789abcdef'[nib])
        return d[self.i]


_DIGESTS = {}


def concrete_digest(pre):
    k = id(pre)
    hit = _DIGESTS.get(k)
    if hit is not None and hit[0] is pre:
        return hit[1]
    bs = bytearray()
    for it in pre:
        if isinstance(it, HashByte):
            c = it.conc()
        else:
            c = it.c if it.c is not None else concrete(it.e)
        if c is None:
            _DIGESTS[k] = (pre, None)
            return None
        bs.append(c)
    d = hashlib.sha256(bytes(bs)).digest()
    _DIGESTS[k] = (pre, d)
    return d


def digest_items(pre):
    pre = list(pre)
    return [HashByte(pre, i) for i in range(32)]


def eval_items(model_, items, ev):
    """concrete bytes of a list that may contain HashBytes"""
    out = []
    cache = {}
    for it in items:
        if isinstance(it, HashByte):
            k = id(it.pre)
            if k not in cache:
                cache[k] = hashlib.sha256(bytes(eval_items(model_, it.pre, ev))).digest()
            out.append(cache[k][it.i])
        else:
            out.append(ev(model_, it.e))
    return out


@model(r'^' + SHA + r'::new$')
def _sha_new(eng, m, args, fr, dty):
    return HasherV()


@model(r'^' + SHA + r'::update::<.*>$')
def _sha_update(eng, m, args, fr, dty):
    h = eng.deref(args[0], fr)
    h.pre.extend(items_of(eng, args[1], fr))
    return UNIT


@model(r'^' + SHA + r'::finalize$')
def _sha_finalize(eng, m, args, fr, dty):
    return Vec(digest_items(args[0].pre))


@model(r'^' + SHA + r'::digest::<.*>$')
def _sha_digest(eng, m, args, fr, dty):
    return Vec(digest_items(items_of(eng, args[0], fr)))


@model(r'^<GenericArray<u8, .*> as (Deref|AsRef<\[u8\]>)>::(deref|as_ref)$|^GenericArray::<u8, .*>::as_slice$')
def _ga_deref(eng, m, args, fr, dty):
    return as_slice(eng, args[0], fr)


@model(r'^<GenericArray<u8, .*> as IntoIterator>::into_iter$')
def _ga_into_iter(eng, m, args, fr, dty):
    return IterV([Cell(x) for x in args[0].items], owned=True)


@model(r'^<GenericArrayIter<u8, .*> as Iterator>::collect::<Vec<u8>>$')
def _ga_collect(eng, m, args, fr, dty):
    it = args[0]
    return Vec([c.v for c in it.elems[it.pos:]])
