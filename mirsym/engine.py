"""mirsym: forward symbolic execution of rustc MIR (text dump) with z3.

Shape-concrete / content-symbolic: container lengths, enum discriminants and
tree shapes are concrete on every path (the harness enumerates them, the
executor forks on them); bytes, machine integers and BigInt values are z3
bit-vector terms.  Library functions (num-bigint, Vec, slices, Option/Result
combinators, Rc, HashMap, ...) are replaced by models (models.py); functions
whose MIR body is in the dump are executed from that body.

Path exploration is DFS by re-execution with a decision prefix.  Every
switchInt/assert whose condition is not a constant asks the solver which
successors are feasible under the current path condition.
"""
import os
import re
import sys
import time
import glob
import threading

import z3

from . import mirparse
from .mirparse import MirSyntax, split_top, find_matching, compile_function

sys.setrecursionlimit(200000)
threading.stack_size(512 * 1024 * 1024)


class Unsupported(Exception):
    pass


_sg_cache = {}


def strip_generics(path):
    """remove every balanced ::<...> turbofish segment from a MIR path"""
    r = _sg_cache.get(path)
    if r is not None:
        return r
    out = []
    i, n = 0, len(path)
    while i < n:
        if path.startswith('::<', i):
            depth = 0
            j = i + 2
            while j < n:
                c = path[j]
                if c == '<':
                    depth += 1
                elif c == '>' and path[j - 1] not in '-=':
                    depth -= 1
                    if depth == 0:
                        break
                j += 1
            i = j + 1
            continue
        out.append(path[i])
        i += 1
    r = ''.join(out)
    _sg_cache[path] = r
    return r


class PathEnd(Exception):
    """path ended: kind in {'panic','bound','infeasible','unsupported'}"""
    def __init__(self, kind, msg='', span=''):
        Exception.__init__(self, kind, msg)
        self.kind, self.msg, self.span = kind, msg, span


# ---------------------------------------------------------------- values
class Int:
    """machine integer: z3 bit-vector term, or (fast path) a concrete python int in .c"""
    __slots__ = ('_e', 'w', 'signed', 'c')

    def __init__(self, e, w, signed, c=None):
        self._e, self.w, self.signed, self.c = e, w, signed, c

    @property
    def e(self):
        if self._e is None:
            self._e = _bvval(self.c, self.w)
        return self._e

    def __repr__(self):
        if self.c is not None:
            return 'Int(%d:%s%d)' % (self.c, 'i' if self.signed else 'u', self.w)
        return 'Int(%s:%s%d)' % (z3.simplify(self.e), 'i' if self.signed else 'u', self.w)


_bv_cache = {}


def _bvval(v, w):
    k = (v, w)
    r = _bv_cache.get(k)
    if r is None:
        r = z3.BitVecVal(v, w)
        if len(_bv_cache) < 200000:
            _bv_cache[k] = r
    return r


class Big:
    __slots__ = ('e',)

    def __init__(self, e):
        self.e = e

    def __repr__(self):
        return 'Big(%s)' % z3.simplify(self.e)


_TRUE = z3.BoolVal(True)
_FALSE = z3.BoolVal(False)


class Bool:
    __slots__ = ('_e', 'c')

    def __init__(self, e, c=None):
        self._e, self.c = e, c

    @property
    def e(self):
        if self._e is None:
            self._e = _TRUE if self.c else _FALSE
        return self._e

    def __repr__(self):
        if self.c is not None:
            return 'Bool(%s)' % self.c
        return 'Bool(%s)' % z3.simplify(self.e)


class Struct:
    __slots__ = ('ty', 'fields')

    def __init__(self, ty, fields):
        self.ty, self.fields = ty, list(fields)

    def __repr__(self):
        return 'Struct(%s,%r)' % (self.ty, self.fields)


def Tup(*fields):
    return Struct('()', list(fields))


UNIT = Struct('()', [])


class Enum:
    __slots__ = ('ty', 'variant', 'fields')

    def __init__(self, ty, variant, fields=()):
        self.ty, self.variant, self.fields = ty, variant, list(fields)

    def __repr__(self):
        return 'Enum(%s::%s,%r)' % (self.ty, self.variant, self.fields)


class Vec:                       # Vec<T>, String, [T;N]
    __slots__ = ('items', 'symlen')

    def __init__(self, items, symlen=None):
        self.items = list(items)
        self.symlen = symlen      # Int term: symbolic length (contents then abstract)

    def __repr__(self):
        return 'Vec(%r)' % (self.items,)


class Cell:
    __slots__ = ('v', 'kind')

    def __init__(self, v=None, kind='local'):
        self.v = v
        self.kind = kind          # local | rc | box | refcell | static

    def __repr__(self):
        return 'Cell<%s>(%r)' % (self.kind, self.v)


class Ref:                       # pointer to (cell, projection path)
    __slots__ = ('cell', 'proj')

    def __init__(self, cell, proj=()):
        self.cell, self.proj = cell, tuple(proj)

    def __repr__(self):
        return 'Ref(%r%r)' % (self.cell, self.proj)


class Slice:                     # &[T] / &str window over a Vec reachable through ref
    __slots__ = ('ref', 'start', 'length')

    def __init__(self, ref, start, length):
        self.ref, self.start, self.length = ref, start, length

    def __repr__(self):
        return 'Slice(%r,%d,%d)' % (self.ref, self.start, self.length)


class Opaque:                    # messages, ZSTs, things the property does not depend on
    __slots__ = ('what',)

    def __init__(self, what=''):
        self.what = what

    def __repr__(self):
        return 'Opaque(%s)' % self.what


class Closure:
    __slots__ = ('key', 'captures', 'creator', 'names', 'site', 'ordinal')

    def __init__(self, key, captures, creator=None):
        self.key, self.captures, self.creator = key, list(captures), creator
        self.names = ()
        self.site = ''
        self.ordinal = None

    @property
    def fields(self):
        return self.captures

    def __repr__(self):
        return 'Closure(%s)' % self.key


class FnItem:
    __slots__ = ('name',)

    def __init__(self, name):
        self.name = name

    def __repr__(self):
        return 'FnItem(%s)' % self.name


INT_TYPES = {'u8': (8, False), 'u16': (16, False), 'u32': (32, False), 'u64': (64, False),
             'usize': (64, False), 'u128': (128, False), 'i8': (8, True), 'i16': (16, True),
             'i32': (32, True), 'i64': (64, True), 'isize': (64, True), 'i128': (128, True),
             'char': (32, False)}

BUILTIN_ENUMS = {
    'Option': ['None', 'Some'],
    'Result': ['Ok', 'Err'],
    'Ordering': ['Less', 'Equal', 'Greater'],
    'Cow': ['Borrowed', 'Owned'],
    'ControlFlow': ['Continue', 'Break'],
    'Sign': ['Minus', 'NoSign', 'Plus'],
    'Bound': ['Included', 'Excluded', 'Unbounded'],
}


def mkint(v, ty):
    w, s = INT_TYPES[ty]
    return Int(None, w, s, v & ((1 << w) - 1))


def mkbool(b):
    return Bool(None, bool(b))


def _sgn(c, w):
    return c - (1 << w) if c >> (w - 1) else c


def concrete(e):
    if z3.is_bv_value(e):
        return e.as_long()
    if z3.is_true(e):
        return True
    if z3.is_false(e):
        return False
    e = z3.simplify(e)
    if z3.is_bv_value(e):
        return e.as_long()
    if z3.is_true(e):
        return True
    if z3.is_false(e):
        return False
    return None


def Some(v):
    return Enum('Option', 'Some', [v])


NONE = lambda: Enum('Option', 'None', [])


def Ok(v):
    return Enum('Result', 'Ok', [v])


def Err(v):
    return Enum('Result', 'Err', [v])


def deep_copy(v):
    if isinstance(v, Struct):
        return Struct(v.ty, [deep_copy(x) for x in v.fields])
    if isinstance(v, Enum):
        return Enum(v.ty, v.variant, [deep_copy(x) for x in v.fields])
    if isinstance(v, Vec):
        return Vec([deep_copy(x) for x in v.items], v.symlen)
    if isinstance(v, Cell) and v.kind == 'box':
        return Cell(deep_copy(v.v), 'box')
    if isinstance(v, Closure):
        c_ = Closure(v.key, [deep_copy(x) for x in v.captures], v.creator)
        c_.names = v.names
        c_.site = v.site
        c_.ordinal = v.ordinal
        return c_
    return v        # Int/Big/Bool immutable; Rc cell shared; Ref; Opaque


# ---------------------------------------------------------------- engine
class Engine:
    _index_cache = {}

    def __init__(self, funcs, srcroots, bigw=136, loop_bound=80, query_timeout_ms=20000,
                 follow_unwind=False):
        self.funcs = funcs
        self.srcroots = srcroots if isinstance(srcroots, (list, tuple)) else [srcroots]
        self.bigw = bigw
        self.loop_bound = loop_bound
        self.follow_unwind = follow_unwind
        ck = (id(funcs), tuple(self.srcroots))
        cached = Engine._index_cache.get(ck)
        if cached is None:
            self.alias = {}
            self.closures = {}
            self.enums = []           # [(path components tuple, [variants])]
            self.variant_owner = {}   # variant name -> [enum full paths]
            self._index()
            self._scan_enums()
            Engine._index_cache[ck] = (self.alias, self.closures, self.enums, self.variant_owner, self.lazy, self.impls)
        else:
            self.alias, self.closures, self.enums, self.variant_owner, self.lazy, self.impls = cached
        self.solver = z3.Solver()
        # no wall-clock 'timeout': z3 implements it with a timer thread per check() that spins in sched_yield
        # (measured: 40% of CPU time in the kernel); a resource limit is deterministic and thread-free
        self.solver.set('rlimit', query_timeout_ms * 4000)
        self.stats = dict(paths=0, queries=0, stmts=0, solver_s=0.0, calls=0)
        self.encoded = {}         # fn name -> MIR lines
        self.models_used = set()
        self._callcache = {}
        self._closure_cache = {}
        self.statics = {}
        self.fn_stack = []
        self.depth = 0
        self.max_depth = 400
        self.trace = None
        self.cg_stack = [[]]
        self.env = {}             # harness-provided environment (stubs etc.)
        self.pc = []
        self.decisions = []
        self.dpos = 0
        self.pending = []
        self.loopcount = {}

    # ------------------------------------------------------------ indexing
    def _index(self):
        self.lazy = {}
        self.impls = {}           # (trait short name, method) -> [(fn name, self type text, module prefix)]
        for name, f in self.funcs.items():
            if name.split('#')[0].endswith('deref::__static_ref_initialize') and f.file and f.src_line:
                for root in self.srcroots:
                    p_ = os.path.join(root, f.file)
                    if os.path.exists(p_):
                        try:
                            ln = open(p_).read().split('\n')[f.src_line - 1]
                        except Exception:
                            ln = ''
                        lm = re.search(r'static ref (\w+)', ln)
                        if lm:
                            self.lazy[lm.group(1)] = name
                        break
            m = re.match(r'^(.*)<impl at ([^:]+):(\d+):\d+: \d+:\d+>::(.+)$', name)
            if m:
                prefix, file, line, meth = m.groups()
                src = None
                for root in self.srcroots:
                    p = file if os.path.isabs(file) else os.path.join(root, file)
                    if os.path.exists(p):
                        try:
                            lines_ = open(p).read().split('\n')
                            src = lines_[int(line) - 1]
                        except Exception:
                            src = None
                        break
                if src is not None:
                    mm = re.match(r'\s*(?:unsafe\s+)?impl(?:<[^>]*>)?\s+(?:(.+?)\s+for\s+)?([A-Za-z0-9_:<>, \'&\[\]();]+?)\s*(?:where.*)?\{?\s*$', src)
                    if mm:
                        trait, ty = mm.group(1), mm.group(2).strip()
                        ty_short = re.sub(r'<.*>', '', ty).split('::')[-1]
                        if trait:
                            tr_short = re.sub(r'<.*>', '', trait).split('::')[-1]
                            self.alias.setdefault('<%s as %s>::%s' % (ty_short, tr_short, meth), name)
                            if '::' not in meth and f.params:
                                self.impls.setdefault((tr_short, meth), []).append((name, f.params[0][1], prefix.rstrip(':')))
                        else:
                            self.alias.setdefault('%s::%s' % (ty_short, meth), name)
                    elif '#[derive(' in src:
                        cm = re.match(r'^.*<impl at [^:]+:\d+:(\d+): \d+:(\d+)>::', name)
                        tr_short = src[int(cm.group(1)) - 1:int(cm.group(2)) - 1] if cm else ''
                        ty_short = None
                        for l2 in lines_[int(line):int(line) + 12]:
                            tm = re.match(r'\s*(?:pub(?:\([a-z]+\))?\s+)?(?:struct|enum)\s+(\w+)', l2)
                            if tm:
                                ty_short = tm.group(1)
                                break
                        if tr_short and ty_short:
                            self.alias.setdefault('<%s as %s>::%s' % (ty_short, tr_short, meth), name)
                            if '::' not in meth and f.params:
                                self.impls.setdefault((tr_short, meth), []).append((name, f.params[0][1], prefix.rstrip(':')))
            if f.params:
                t0 = f.params[0][1]
                for pre in ('&mut ', '&', ''):
                    if t0.startswith(pre + '{closure@'):
                        self.closures[t0[len(pre):]] = name
                        break

    def _scan_enums(self):
        for k, v in BUILTIN_ENUMS.items():
            self.enums.append(((k,), v))
        for root in self.srcroots:
            base = os.path.join(root, 'src')
            for path in glob.glob(os.path.join(base, '**', '*.rs'), recursive=True):
                try:
                    txt = open(path).read()
                except Exception:
                    continue
                rel = os.path.relpath(path, base)[:-3].split(os.sep)
                if rel[-1] in ('mod', 'lib'):
                    rel = rel[:-1]
                txt = re.sub(r'//[^\n]*', '', txt)
                for m in re.finditer(r'\benum\s+(\w+)\s*(<[^>{]*>)?\s*\{', txt):
                    try:
                        end = find_matching(txt, m.end() - 1, '{', '}')
                    except Exception:
                        continue
                    body = txt[m.end():end]
                    names = []
                    for part in split_top(body):
                        part = re.sub(r'#\[[^\]]*\]', '', part).strip()
                        mm = re.match(r'^(\w+)', part)
                        if mm:
                            names.append(mm.group(1))
                    self.enums.append((tuple(rel) + (m.group(1),), names))
        for comps, names in self.enums:
            for v in names:
                self.variant_owner.setdefault(v, []).append(comps)

    def enum_lookup(self, path_comps, variant=None):
        """find the enum whose full path ends with path_comps (a list of
        components with generics stripped); returns (short name, variants)"""
        cands = [e for e in self.enums if e[0][-len(path_comps):] == tuple(path_comps)] if path_comps else []
        if not cands and path_comps:
            cands = [e for e in self.enums if e[0][-1] == path_comps[-1]]
        if variant is not None:
            cands = [e for e in cands if variant in e[1]] or cands
        if not cands:
            return None
        return cands[0]

    def variant_index(self, v):
        if isinstance(v.variant, int):
            return v.variant
        if v.ty.split('::')[-1] == 'Ordering' and v.variant in ('Less', 'Equal', 'Greater'):
            return {'Less': -1, 'Equal': 0, 'Greater': 1}[v.variant]       # std::cmp::Ordering has explicit discriminants
        e = self.enum_lookup(v.ty.split('::'), v.variant)
        if e is None or v.variant not in e[1]:
            raise Unsupported('unknown enum layout %s::%s' % (v.ty, v.variant))
        return e[1].index(v.variant)

    @staticmethod
    def _split_type(t):
        t = t.strip()
        while True:
            if t.startswith('&mut '):
                t = t[5:].strip()
            elif t.startswith('&'):
                t = re.sub(r"^&('\w+ )?", '', t).strip()
            else:
                break
        if t.startswith('[') and t.endswith(']'):
            parts = split_top(t[1:-1], ';')
            return '[]', [p.strip() for p in parts]
        if t.startswith('(') and t.endswith(')'):
            return '()', split_top(t[1:-1])
        k = t.find('<')
        if k < 0 or not t.endswith('>'):
            return t.split('::')[-1], []
        return t[:k].split('::')[-1], split_top(t[k + 1:-1])

    @classmethod
    def type_match(cls, pattern, concrete_t):
        """does the (possibly generic) impl self type `pattern` match the concrete type text?"""
        pattern = pattern.strip()
        pp = re.sub(r"^&(mut )?('\w+ )?", '', pattern).strip()
        if re.fullmatch(r'[A-Z][0-9]?', pp):
            return True
        pn, pa = cls._split_type(pattern)
        cn, ca = cls._split_type(concrete_t)
        if pn != cn or len(pa) != len(ca):
            return False
        return all(cls.type_match(x, y) for x, y in zip(pa, ca))

    def value_matches_type(self, v, t, fr=None):
        """rough runtime check used to pick between impls for the same type constructor"""
        v = self.deref(v, fr)
        while isinstance(v, Cell):
            v = v.v
        tn, ta = self._split_type(t)
        if re.fullmatch(r'[A-Z][0-9]?', tn):
            return True
        if isinstance(v, (Struct, Enum)):
            name = v.ty.split('::')[-1]
            if name == '()' or tn == '()':
                return name == tn and len(v.fields) == len(ta) if tn == '()' else False
            if name != tn:
                return False
            if len(ta) == len(v.fields) and ta:
                return all(self.value_matches_type(f_, a_, fr) for f_, a_ in zip(v.fields, ta))
            return True
        if isinstance(v, Opaque):
            return v.what.split('::')[-1] == tn or (v.what == '()' and tn == '()')
        if isinstance(v, (Vec, Slice)):
            return tn in ('[]', 'str', 'Vec', 'String')
        if isinstance(v, Int):
            return tn in INT_TYPES
        return True

    def find_impl(self, type_text, trait_text, method, recv=None, fr=None):
        tr_short = re.sub(r'<.*>', '', trait_text).split('::')[-1]
        cands = self.impls.get((tr_short, method), [])
        if not cands:
            return None
        tmod = '::'.join(re.sub(r'<.*>', '', trait_text).split('::')[:-1])
        if tmod:
            same = [c for c in cands if c[2].endswith(tmod)]
            if same:
                cands = same
        if type_text is not None and not re.fullmatch(r'[A-Z][0-9]?', type_text.strip()) and not type_text.startswith('dyn '):
            m_ = [c for c in cands if self.type_match(c[1], type_text)]
            if len(m_) == 1:
                return m_[0][0]
            if m_:
                cands = m_
        if recv is not None:
            m_ = [c for c in cands if self.value_matches_type(recv, c[1], fr)]
            if len(m_) == 1:
                return m_[0][0]
        return cands[0][0] if len(cands) == 1 else None

    def resolve(self, callee):
        if callee.startswith('<'):
            depth, j = 0, 0
            for j, ch in enumerate(callee):
                if ch == '<':
                    depth += 1
                elif ch == '>' and callee[j - 1] not in '-=':
                    depth -= 1
                    if depth == 0:
                        break
            c = callee[:j + 1] + strip_generics(callee[j + 1:])
        else:
            c = strip_generics(callee)
        if c in self.funcs:
            return c
        short = c.split('::') if not c.startswith('<') else []
        for k in range(len(short)):
            cand = '::'.join(short[k:])
            if cand in self.funcs:
                return cand
            if cand in self.alias:
                return self.alias[cand]
        m = re.match(r'^<(.+) as (.+)>::(\w+)$', c)
        if m and not m.group(1).startswith('&'):
            depth_, cut_ = 0, None
            inner = c[1:c.rindex('>::')]
            for j_ in range(len(inner) - 3):
                ch_ = inner[j_]
                if ch_ in '<([':
                    depth_ += 1
                elif ch_ in ')]' or (ch_ == '>' and inner[j_ - 1] not in '-='):
                    depth_ -= 1
                elif depth_ == 0 and inner.startswith(' as ', j_):
                    cut_ = j_
                    break
            if cut_ is not None and not inner.startswith('dyn '):     # dyn receivers dispatch on the runtime type
                hit = self.find_impl(inner[:cut_], inner[cut_ + 4:], m.group(3))
                if hit is not None:
                    return hit
        if m:
            t, tr, me = m.groups()
            t = re.sub(r'<.*>', '', t)
            tr = re.sub(r'<.*>', '', tr)
            cand = '<%s as %s>::%s' % (t.split('::')[-1], tr.split('::')[-1], me)
            std_t = t.startswith(('std::', 'core::', 'alloc::')) or t.split('::')[-1] in (
                'Option', 'Result', 'Vec', 'String', 'Rc', 'Box', 'HashMap', 'HashSet', 'BTreeMap', 'RefCell', 'Cell')
            if cand in self.alias and not t.startswith('&') and not std_t:
                return self.alias[cand]
        # suffix match on defined names: "a::b::f" defined, callee "b::f"
        if '::' in c and not c.startswith('<'):
            suf = '::' + c
            hits = [n for n in self.funcs if n.endswith(suf)]
            if len(hits) == 1:
                return hits[0]
        return None

    # ------------------------------------------------------------ path mgmt
    def explore(self, harness, max_paths=200000, deadline=None):
        """DFS over decision lists; harness(engine) runs one path and returns
        a payload.  Yields (kind, pc, payload_or_msg, decisions, span)."""
        stack = [[]]
        while stack:
            if deadline is not None and time.time() > deadline:
                raise TimeoutError('exploration deadline')
            prefix = stack.pop()
            self.decisions = list(prefix)
            self.dpos = 0
            self.pending = []
            self.pc = []
            self.solver.reset()
            self.loopcount = {}
            self.statics = {}
            self.depth = 0
            self.cg_stack = [[]]
            self.stats['paths'] += 1
            if self.stats['paths'] > max_paths:
                raise Unsupported('path budget exceeded')
            try:
                obs = harness(self)
                out = ('done', list(self.pc), obs, list(self.decisions), '')
            except PathEnd as p:
                out = (p.kind, list(self.pc), p.msg, list(self.decisions), p.span)
            except Unsupported as u:
                out = ('unsupported', list(self.pc), str(u) + ' @ ' + ' < '.join(getattr(u, 'trace', [])), list(self.decisions), '')
            except MirSyntax as u:
                out = ('unsupported', list(self.pc), 'MIR syntax: ' + str(u) + ' @ ' + ' < '.join(getattr(u, 'trace', [])), list(self.decisions), '')
            for alt in self.pending:
                stack.append(alt)
            yield out

    def sat(self, cond):
        t = time.time()
        self.solver.push()
        self.solver.add(cond)
        r = self.solver.check()
        self.solver.pop()
        self.stats['queries'] += 1
        self.stats['solver_s'] += time.time() - t
        if r == z3.unknown:
            raise Unsupported('solver unknown (timeout) during path exploration')
        return r == z3.sat

    def assume(self, cond):
        self.pc.append(cond)
        self.solver.add(cond)

    def choose(self, options):
        """options: list of (label, z3 cond).  Returns chosen label; records
        alternatives for later exploration."""
        if self.dpos < len(self.decisions):
            lab = self.decisions[self.dpos]
            self.dpos += 1
            for l, c in options:
                if l == lab:
                    self.assume(c)
                    return l
            raise Unsupported('decision replay mismatch')
        feas = []
        if len(options) > 4:
            # model-guided enumeration: one query per feasible option (+1), not one per option
            rem = []
            for l, c in options:
                cc = concrete(c)
                if cc is True:
                    feas.append((l, c))
                elif cc is not False:
                    rem.append((l, c))
            while rem:
                t = time.time()
                self.solver.push()
                self.solver.add(z3.Or(*[c for _, c in rem]))
                r = self.solver.check()
                hit = None
                if r == z3.sat:
                    mdl = self.solver.model()
                    for k, (l, c) in enumerate(rem):
                        if z3.is_true(mdl.eval(c, model_completion=True)):
                            hit = k
                            break
                self.solver.pop()
                self.stats['queries'] += 1
                self.stats['solver_s'] += time.time() - t
                if r == z3.unknown:
                    raise Unsupported('solver unknown (timeout) during path exploration')
                if r != z3.sat:
                    break
                if hit is None:
                    raise Unsupported('model does not select an option')
                feas.append(rem.pop(hit))
            order = {id(c): i for i, (_, c) in enumerate(options)}
            feas.sort(key=lambda lc: order[id(lc[1])])
        else:
            for l, c in options:
                cc = concrete(c)
                if cc is True:
                    feas.append((l, c))
                elif cc is False:
                    continue
                elif self.sat(c):
                    feas.append((l, c))
        if not feas:
            raise PathEnd('infeasible')
        first = feas[0]
        for l, c in feas[1:]:
            self.pending.append(self.decisions[:self.dpos] + [l])
        self.decisions.append(first[0])
        self.dpos += 1
        self.assume(first[1])
        return first[0]

    def branch_bool(self, e):
        c = concrete(e)
        if c is not None:
            return bool(c)
        return self.choose([(True, e), (False, z3.Not(e))])

    def concretize(self, iv, lo=0, hi=64):
        """make an Int concrete by forking over its feasible values in [lo,hi]"""
        c = iv.c if iv.c is not None else concrete(iv.e)
        if c is not None:
            return c
        opts = [(k, iv.e == z3.BitVecVal(k, iv.w)) for k in range(lo, hi + 1)]
        opts.append(('big', z3.UGT(iv.e, z3.BitVecVal(hi, iv.w))))
        k = self.choose(opts)
        if k == 'big':
            raise PathEnd('bound', 'value above concretisation bound %d' % hi)
        return k

    # ------------------------------------------------------------ calls
    def call(self, name, args):
        """harness entry: call a real function by (suffix of its) name"""
        fn = self.resolve(name)
        if fn is None:
            return self.do_call(name, args, None, None)
        return self.run(self.funcs[fn], args)

    def run(self, f, args, cg=None):
        if not f.compiled:
            compile_function(f)
        self.cg_stack.append(cg or [])
        self.fn_stack.append(f.name)
        if f.name not in self.encoded:
            self.encoded[f.name] = f.nlines
        self.depth += 1
        if self.depth > self.max_depth:
            self.depth -= 1
            self.cg_stack.pop()
            self.fn_stack.pop()
            raise PathEnd('bound', 'call depth bound in ' + f.name)
        try:
            return self._run(f, args)
        except (Unsupported, MirSyntax) as u:
            tr = getattr(u, 'trace', None)
            if tr is None:
                tr = u.trace = []
            if len(tr) < 6:
                tr.append(f.name[-60:])
            raise
        finally:
            self.depth -= 1
            self.cg_stack.pop()
            self.fn_stack.pop()

    def _run(self, f, args):
        fr = [None] * f.nlocals
        for i in range(f.nlocals):
            fr[i] = Cell(None)
        for (loc, ty), a in zip(f.params, args):
            fr[int(loc[1:])].v = a
        blocks = f.blocks
        bb = 'bb0'
        self._frame_ctr = getattr(self, '_frame_ctr', 0) + 1
        fid = self._frame_ctr
        lc = self.loopcount
        unwinding = None
        while True:
            blk = blocks[bb]
            key = (fid, bb)
            n = lc.get(key, 0) + 1
            lc[key] = n
            if n > self.loop_bound:
                raise PathEnd('bound', 'loop bound in %s %s' % (f.name, bb))
            for s in blk.stmts:
                self.stats['stmts'] += 1
                if s[0] == 'assign':
                    pl = s[1]
                    ty = None
                    if not pl[1]:
                        ty = f.locals.get('_%d' % pl[0])
                    if s[2][0] == 'closure':
                        self.cur_span = s[3]
                    self.store(fr, pl, self.rvalue(f, fr, s[2], ty))
                elif s[0] == 'setdiscr':
                    v = self.load(fr, s[1])
                    raise Unsupported('SetDiscriminant')
            try:
                nxt = self.term(f, fr, blk.term)
            except PathEnd as p:
                if p.kind == 'panic' and self.follow_unwind:
                    uw = self._unwind_target(blk.term)
                    if uw is not None:
                        unwinding = p
                        bb = uw
                        continue
                raise
            if nxt is None:
                rv = fr[0].v
                if rv is None and f.ret.strip() == '()':
                    rv = Struct('()', [])
                return rv
            if nxt == '<resume>':
                raise unwinding if unwinding is not None else PathEnd('panic', 'resume')
            bb = nxt

    def _unwind_target(self, t):
        if t[0] == 'call':
            return t[5]
        if t[0] == 'assert':
            return t[5]
        if t[0] == 'drop':
            return t[3]
        return None

    # ------------------------------------------------------------ places
    def load(self, fr, place):
        base, proj = place
        v = fr[base].v
        if not proj:
            return v
        return self.walk(v, proj, fr)

    def deref(self, v, fr=None):
        while isinstance(v, Ref):
            v = self.walk(v.cell.v, v.proj, fr)
        return v

    def deref_once(self, r, fr=None):
        return self.walk(r.cell.v, r.proj, fr)

    def walk(self, v, proj, fr):
        for p in proj:
            k = p[0]
            if k == 'deref':
                if isinstance(v, Ref):
                    v = self.walk(v.cell.v, v.proj, fr)
                elif isinstance(v, Slice):
                    pass            # (*slice)[i] handled at index
                elif isinstance(v, Cell):   # Box/Rc
                    v = v.v
                else:
                    raise Unsupported('deref of %r' % (v,))
            elif k == 'field':
                if isinstance(v, (Struct, Enum, Closure)):
                    try:
                        v = v.fields[p[1]]
                    except IndexError:
                        raise Unsupported('field %d of %r' % (p[1], v))
                elif isinstance(v, Cell) and p[1] == 0:
                    # Box<T>.0 (Unique<T>) - stay on the cell
                    pass
                else:
                    raise Unsupported('field of %r' % (v,))
            elif k == 'downcast':
                if not isinstance(v, Enum):
                    raise Unsupported('downcast of %r' % (v,))
            elif k in ('index', 'cindex'):
                if k == 'index':
                    idx = self.concretize(fr[p[1]].v)
                else:
                    idx = p[1]
                if isinstance(v, Slice):
                    base = self.deref(v.ref, fr)
                    if k == 'cindex' and p[2]:
                        idx = v.length - idx
                    if idx >= v.length:
                        raise PathEnd('panic', 'index out of bounds')
                    v = base.items[v.start + idx]
                elif isinstance(v, Vec):
                    if k == 'cindex' and p[2]:
                        idx = len(v.items) - idx
                    if idx >= len(v.items):
                        raise PathEnd('panic', 'index out of bounds')
                    v = v.items[idx]
                else:
                    raise Unsupported('index of %r' % (v,))
            elif k == 'subslice':
                raise Unsupported('subslice projection')
        return v

    def store(self, fr, place, val):
        base, proj = place
        if not proj:
            fr[base].v = val
            return
        self.set_at(fr[base], proj, val, fr)

    def set_at(self, cell, proj, val, fr):
        proj = tuple(proj)
        if not proj:
            cell.v = val
            return
        v = cell.v
        for i, p in enumerate(proj[:-1]):
            if p[0] == 'deref' and isinstance(v, Ref):
                return self.set_at(v.cell, v.proj + proj[i + 1:], val, fr)
            v = self.walk(v, (p,), fr)
        p = proj[-1]
        if p[0] == 'deref':
            if isinstance(v, Ref):
                return self.set_at(v.cell, v.proj, val, fr)
            if isinstance(v, Cell):
                v.v = val
                return
            raise Unsupported('store through %r' % (v,))
        if p[0] == 'field':
            if isinstance(v, (Struct, Enum)):
                while len(v.fields) <= p[1]:
                    v.fields.append(None)
                v.fields[p[1]] = val
                return
            if isinstance(v, Closure):
                v.captures[p[1]] = val
                return
            if v is None:
                # initialising an aggregate field by field
                nv = Struct('?', [None] * (p[1] + 1))
                nv.fields[p[1]] = val
                self.set_at(cell, proj[:-1], nv, fr)
                return
        if p[0] in ('index', 'cindex'):
            idx = self.concretize(fr[p[1]].v) if p[0] == 'index' else p[1]
            if isinstance(v, Vec):
                if idx >= len(v.items):
                    raise PathEnd('panic', 'index out of bounds (store)')
                v.items[idx] = val
                return
            if isinstance(v, Slice):
                base = self.deref(v.ref, fr)
                if idx >= v.length:
                    raise PathEnd('panic', 'index out of bounds (store)')
                base.items[v.start + idx] = val
                return
        raise Unsupported('store proj %r on %r' % (p, v))

    # ------------------------------------------------------------ operands
    def operand(self, f, fr, o):
        k = o[0]
        if k == 'copy':
            v = self.load(fr, o[1])
            if isinstance(v, (Struct, Vec, Enum)):
                return deep_copy(v)
            return v
        if k == 'move':
            return self.load(fr, o[1])
        return self.const(o[1], f)

    def const(self, s, f=None):
        if s == 'true':
            return Bool(None, True)
        if s == 'false':
            return Bool(None, False)
        m = re.fullmatch(r'(-?\d+)_(\w+)', s)
        if m and m.group(2) in INT_TYPES:
            return mkint(int(m.group(1)), m.group(2))
        if s.startswith('"'):
            return Slice(Ref(Cell(Vec([mkint(b, 'u8') for b in mirparse.unescape(s[1:s.rindex('"')])]), 'static')), 0,
                         len(mirparse.unescape(s[1:s.rindex('"')])))
        if s.startswith('b"'):
            bs = mirparse.unescape(s[2:s.rindex('"')])
            return Ref(Cell(Vec([mkint(b, 'u8') for b in bs]), 'static'))
        if s.startswith("'") and s.endswith("'"):
            bs = mirparse.unescape(s[1:-1]).decode('utf-8')
            return mkint(ord(bs), 'char')
        if s.startswith("b'") and s.endswith("'"):
            bs = mirparse.unescape(s[2:-1])
            return mkint(bs[0], 'u8')
        if s.startswith('ZeroSized: '):
            t = s[len('ZeroSized: '):]
            if t.startswith('{closure@'):
                return Closure(t, [], f.name if f is not None else None)
            return Opaque(t)
        if s == '()':
            return Struct('()', [])
        mi = re.fullmatch(r'(?:core::num::<impl )?(u8|u16|u32|u64|usize|u128|i8|i16|i32|i64|isize|i128)>?::(MIN|MAX|BITS)', s)
        if mi:
            w, sg = INT_TYPES[mi.group(1)]
            if mi.group(2) == 'BITS':
                return mkint(w, 'u32')
            if mi.group(2) == 'MAX':
                return mkint((1 << (w - 1)) - 1 if sg else (1 << w) - 1, mi.group(1))
            return mkint(-(1 << (w - 1)) if sg else 0, mi.group(1))
        mz = re.fullmatch(r'([\w:]+) \{\{\s*\}\}', s)
        if mz:
            return Struct(mz.group(1).split('::')[-1], [])
        for k in (s, s.split('::')[-1]):
            if k in mirparse.CONSTS:
                return self.const(mirparse.CONSTS[k][0])
        m = re.match(r'^(.*)::promoted\[(\d+)\]$', s)
        if m:
            key = None
            if f is not None and (f.name + '::promoted[%s]' % m.group(2)) in self.funcs:
                key = f.name + '::promoted[%s]' % m.group(2)
            fn = self.resolve(m.group(1)) if key is None else None
            if key is None and fn and (fn + '::promoted[%s]' % m.group(2)) in self.funcs:
                key = fn + '::promoted[%s]' % m.group(2)
            elif key is None and s in self.funcs:
                key = s
            if key:
                v = self.run(self.funcs[key], [])
                return v
            raise Unsupported('promoted const ' + s)
        from .models import CONST_MODELS
        for pat, fn in CONST_MODELS:
            mm = pat.match(s)
            if mm:
                return fn(self, mm)
        ma = re.match(r'^\{(alloc\d+): &', s)
        if ma:
            # a reference to the memory of a named static item
            for (crate_, an), sname in mirparse.ALLOC_STATICS.items():
                if an == ma.group(1) and (f is None or crate_ == getattr(f, 'crate', crate_)):
                    sfn = self.resolve(sname)
                    if sfn is not None and self.funcs[sfn].kind == 'static':
                        if sfn not in self.statics:
                            self.statics[sfn] = Cell(self.run(self.funcs[sfn], []), 'static')
                        return Ref(self.statics[sfn])
        fn = self.resolve(s)
        if fn is not None:
            fobj = self.funcs[fn]
            if fobj.kind in ('const',):
                return self.run(fobj, [])
            if fobj.kind == 'static':
                if fn not in self.statics:
                    self.statics[fn] = Cell(self.run(fobj, []), 'static')
                return Ref(self.statics[fn])
            return FnItem(fn)
        if re.fullmatch(r'[A-Z][0-9]?', s) and self.cg_stack and len(self.cg_stack[-1]) == 1:
            return mkint(self.cg_stack[-1][0], 'usize')
        if re.match(r'^[A-Za-z_<]', s):
            return FnItem(s)
        return Opaque('const ' + s)

    # ------------------------------------------------------------ rvalues
    def rvalue(self, f, fr, r, ty=None):
        k = r[0]
        if k == 'use':
            return self.operand(f, fr, r[1])
        if k == 'binop':
            return self.binop(r[1], self.operand(f, fr, r[2]), self.operand(f, fr, r[3]))
        if k == 'ref':
            return self.mkref(fr, r[1])
        if k == 'discr':
            v = self.load(fr, r[1])
            if isinstance(v, Enum):
                t_ = ty if ty in INT_TYPES else 'isize'
                return mkint(self.variant_index(v) & ((1 << INT_TYPES[t_][0]) - 1), t_)
            raise Unsupported('discriminant of %r' % (v,))
        if k == 'cast':
            return self.cast(self.operand(f, fr, r[1]), r[2], r[3], fr)
        if k == 'unop':
            v = self.operand(f, fr, r[2])
            if v.c is not None:
                if isinstance(v, Bool):
                    return Bool(None, not v.c)
                m_ = (1 << v.w) - 1
                return Int(None, v.w, v.signed, (~v.c if r[1] == 'Not' else -v.c) & m_)
            if r[1] == 'Not':
                return Bool(z3.Not(v.e)) if isinstance(v, Bool) else Int(~v.e, v.w, v.signed)
            return Int(-v.e, v.w, v.signed)
        if k == 'tuple':
            return Struct('()', [self.operand(f, fr, a) for a in r[1]])
        if k == 'array':
            return Vec([self.operand(f, fr, a) for a in r[1]])
        if k == 'repeat':
            v = self.operand(f, fr, r[1])
            n = r[2]
            if isinstance(n, str):
                if not (self.cg_stack and len(self.cg_stack[-1]) == 1):
                    raise Unsupported('array length is an unknown const generic ' + n)
                n = self.cg_stack[-1][0]
            return Vec([deep_copy(v) for _ in range(n)])
        if k == 'adt':
            return self.adt(f, fr, r, ty)
        if k == 'closure':
            c_ = Closure(r[1], [self.operand(f, fr, a) for a in r[2]], f.name)
            c_.names = r[3] if len(r) > 3 else ()
            c_.site = getattr(self, 'cur_span', '')
            c_.ordinal = r[4] if len(r) > 4 else None
            return c_
        if k == 'ptrmeta':
            v = self.operand(f, fr, r[1])
            if isinstance(v, Slice):
                return mkint(v.length, 'usize')
            t = self.deref(v, fr)
            if isinstance(t, Vec):
                if t.symlen is not None:
                    return t.symlen
                return mkint(len(t.items), 'usize')
            raise Unsupported('PtrMetadata of %r' % (v,))
        if k == 'len':
            t = self.deref(self.load(fr, r[1]), fr)
            if isinstance(t, Slice):
                return mkint(t.length, 'usize')
            return mkint(len(t.items), 'usize')
        if k == 'tls':
            name = r[1]
            if name not in self.statics:
                fn = self.resolve(name)
                if fn is None:
                    raise Unsupported('tls ' + name)
                self.statics[name] = Cell(self.run(self.funcs[fn], []), 'static')
            return Ref(self.statics[name])
        raise Unsupported('rvalue kind ' + k)

    def adt(self, f, fr, r, ty):
        path, ops, names = r[1], r[3], r[4]
        vals = [self.operand(f, fr, a) for a in ops]
        p = strip_generics(path)
        p = re.sub(r'<.*>', '', p)
        comps = p.split('::')
        if names is not None:
            # struct literal (or struct-like enum variant)
            if len(comps) >= 2:
                e = self.enum_lookup(comps[:-1], comps[-1])
                if e is not None and comps[-1] in e[1] and e[0][-1] == comps[-2]:
                    return Enum('::'.join(e[0]), comps[-1], vals)
            e = self.variant_owner.get(comps[-1])
            if e and len(comps) == 1 and not self._is_struct_name(comps[-1]):
                return Enum('::'.join(e[0]), comps[-1], vals)
            return Struct(comps[-1], vals)
        if len(comps) >= 2:
            e = self.enum_lookup(comps[:-1], comps[-1])
            if e is not None and comps[-1] in e[1] and e[0][-1] == comps[-2]:
                return Enum('::'.join(e[0]), comps[-1], vals)
        owners = self.variant_owner.get(comps[-1])
        if owners and len(comps) == 1:
            # imported variant name, e.g. InternalError(..); prefer the declared type
            if ty:
                tshort = re.sub(r'<.*>', '', ty).split('::')[-1]
                for o in owners:
                    if o[-1] == tshort:
                        return Enum('::'.join(o), comps[-1], vals)
            if len(owners) == 1 and not self._is_struct_name(comps[-1]):
                return Enum('::'.join(owners[0]), comps[-1], vals)
        return Struct(comps[-1], vals)

    _struct_names = None

    def _is_struct_name(self, name):
        if self._struct_names is None:
            names = set()
            for root in self.srcroots:
                for path in glob.glob(os.path.join(root, 'src', '**', '*.rs'), recursive=True):
                    try:
                        txt = open(path).read()
                    except Exception:
                        continue
                    for m in re.finditer(r'\bstruct\s+(\w+)', txt):
                        names.add(m.group(1))
            Engine._struct_names = names
        return name in self._struct_names

    def mkref(self, fr, pl):
        base, proj = pl
        cell = fr[base]
        outp = []
        off = 0
        pending_slice = None
        for p in proj:
            if p[0] == 'deref':
                tgt = self.walk(cell.v, outp, fr) if outp else cell.v
                if isinstance(tgt, Ref):
                    cell, outp = tgt.cell, list(tgt.proj)
                    continue
                if isinstance(tgt, Slice):
                    pending_slice = tgt
                    cell, outp, off = tgt.ref.cell, list(tgt.ref.proj), tgt.start
                    continue
                if isinstance(tgt, Cell):
                    cell, outp = tgt, []
                    continue
                raise Unsupported('ref through %r' % (tgt,))
            elif p[0] == 'index':
                k = self.concretize(fr[p[1]].v)
                if pending_slice is not None and k >= pending_slice.length:
                    raise PathEnd('panic', 'index out of bounds')
                outp.append(('cindex', k + off, False))
                off, pending_slice = 0, None
            elif p[0] == 'cindex' and pending_slice is not None:
                k = (pending_slice.length - p[1]) if p[2] else p[1]
                outp.append(('cindex', k + off, False))
                off, pending_slice = 0, None
            else:
                outp.append(p)
        if pending_slice is not None:
            return pending_slice
        return Ref(cell, outp)

    def cast(self, v, ty, kind, fr=None):
        if hasattr(v, 'conc') and v.conc() is not None:
            v = mkint(v.conc(), 'u8')
        if kind == 'IntToInt':
            if ty not in INT_TYPES:
                raise Unsupported('cast to ' + ty)
            w, sg = INT_TYPES[ty]
            if isinstance(v, Bool):
                if v.c is not None:
                    return Int(None, w, sg, int(v.c))
                return Int(z3.If(v.e, z3.BitVecVal(1, w), z3.BitVecVal(0, w)), w, sg)
            if isinstance(v, Enum):
                return mkint(self.variant_index(v), ty)
            if isinstance(v, Int):
                if v.c is not None:
                    cv = _sgn(v.c, v.w) if v.signed else v.c
                    return Int(None, w, sg, cv & ((1 << w) - 1))
                if w == v.w:
                    e = v.e
                elif w < v.w:
                    e = z3.Extract(w - 1, 0, v.e)
                else:
                    e = z3.SignExt(w - v.w, v.e) if v.signed else z3.ZeroExt(w - v.w, v.e)
                return Int(e, w, sg)
        if kind == 'PointerCoercion':
            if isinstance(v, Ref):
                t = self.deref(v, fr)
                if isinstance(t, Vec) and ty.lstrip('&mut ').startswith('['):
                    r = v
                    while isinstance(self.walk(r.cell.v, r.proj, fr), Ref):
                        r = self.walk(r.cell.v, r.proj, fr)
                    return Slice(r, 0, len(t.items))
            return v
        if kind in ('Transmute', 'PtrToPtr', 'Subtype'):
            return v
        raise Unsupported('cast %s of %r to %s' % (kind, v, ty))

    def binop(self, op, a, b):
        if hasattr(a, 'conc') or hasattr(b, 'conc'):
            # a SHA-256 digest byte (or hex digit) of a fully concrete preimage is just a byte
            if hasattr(a, 'conc') and a.conc() is not None:
                a = mkint(a.conc(), 'u8')
            if hasattr(b, 'conc') and b.conc() is not None:
                b = mkint(b.conc(), 'u8')
        if isinstance(a, Bool) and isinstance(b, Bool):
            if a.c is not None and b.c is not None:
                if op == 'Eq': return Bool(None, a.c == b.c)
                if op == 'Ne': return Bool(None, a.c != b.c)
                if op == 'BitAnd': return Bool(None, a.c and b.c)
                if op == 'BitOr': return Bool(None, a.c or b.c)
                if op == 'BitXor': return Bool(None, a.c != b.c)
            if op == 'Eq': return Bool(a.e == b.e)
            if op == 'Ne': return Bool(a.e != b.e)
            if op == 'BitAnd': return Bool(z3.And(a.e, b.e))
            if op == 'BitOr': return Bool(z3.Or(a.e, b.e))
            if op == 'BitXor': return Bool(z3.Xor(a.e, b.e))
            if op in ('Lt', 'Le', 'Gt', 'Ge'):
                x = z3.If(a.e, z3.BitVecVal(1, 8), z3.BitVecVal(0, 8))
                y = z3.If(b.e, z3.BitVecVal(1, 8), z3.BitVecVal(0, 8))
                return self.binop(op, Int(x, 8, False), Int(y, 8, False))
        if not (isinstance(a, Int) and isinstance(b, Int)):
            if isinstance(a, Bool) and isinstance(b, Bool) and a.c is not None and b.c is not None:
                pass
            raise Unsupported('binop %s on %r %r' % (op, a, b))
        w, sg = a.w, a.signed
        if a.c is not None and b.c is not None:
            r_ = self._binop_conc(op, a.c, b.c, w, sg, b.w)
            if r_ is not None:
                return r_
        x, y = a.e, b.e
        if op in ('Shl', 'Shr', 'ShlUnchecked', 'ShrUnchecked'):
            if b.w < w:
                y = z3.ZeroExt(w - b.w, y)
            elif b.w > w:
                y = z3.Extract(w - 1, 0, y)
            if op.startswith('Shl'):
                return Int(x << y, w, sg)
            return Int((x >> y) if sg else z3.LShR(x, y), w, sg)
        if op == 'Eq': return Bool(x == y)
        if op == 'Ne': return Bool(x != y)
        if op == 'Lt': return Bool((x < y) if sg else z3.ULT(x, y))
        if op == 'Le': return Bool((x <= y) if sg else z3.ULE(x, y))
        if op == 'Gt': return Bool((x > y) if sg else z3.UGT(x, y))
        if op == 'Ge': return Bool((x >= y) if sg else z3.UGE(x, y))
        if op in ('Add', 'AddUnchecked'): return Int(x + y, w, sg)
        if op in ('Sub', 'SubUnchecked'): return Int(x - y, w, sg)
        if op in ('Mul', 'MulUnchecked'): return Int(x * y, w, sg)
        if op == 'Div': return Int((x / y) if sg else z3.UDiv(x, y), w, sg)
        if op == 'Rem': return Int(z3.SRem(x, y) if sg else z3.URem(x, y), w, sg)
        if op == 'BitAnd': return Int(x & y, w, sg)
        if op == 'BitOr': return Int(x | y, w, sg)
        if op == 'BitXor': return Int(x ^ y, w, sg)
        if op in ('AddWithOverflow', 'SubWithOverflow', 'MulWithOverflow'):
            ext = z3.SignExt if sg else z3.ZeroExt
            if op == 'MulWithOverflow':
                xx, yy = ext(w, x), ext(w, y)
                full = xx * yy
                res = z3.Extract(w - 1, 0, full)
                ovf = ext(w, res) != full
            else:
                xx, yy = ext(1, x), ext(1, y)
                full = xx + yy if op == 'AddWithOverflow' else xx - yy
                res = z3.Extract(w - 1, 0, full)
                ovf = ext(1, res) != full
            return Struct('()', [Int(res, w, sg), Bool(ovf)])
        if op == 'Cmp':
            lt = (x < y) if sg else z3.ULT(x, y)
            if self.branch_bool(lt):
                return Enum('Ordering', 'Less', [])
            if self.branch_bool(x == y):
                return Enum('Ordering', 'Equal', [])
            return Enum('Ordering', 'Greater', [])
        raise Unsupported('binop ' + op)

    def _binop_conc(self, op, x, y, w, sg, bw):
        m_ = (1 << w) - 1
        if op in ('Eq', 'Ne'):
            return Bool(None, (x == y) == (op == 'Eq'))
        if op in ('Lt', 'Le', 'Gt', 'Ge'):
            xs, ys = (_sgn(x, w), _sgn(y, w)) if sg else (x, y)
            return Bool(None, {'Lt': xs < ys, 'Le': xs <= ys, 'Gt': xs > ys, 'Ge': xs >= ys}[op])
        if op in ('Add', 'AddUnchecked'):
            return Int(None, w, sg, (x + y) & m_)
        if op in ('Sub', 'SubUnchecked'):
            return Int(None, w, sg, (x - y) & m_)
        if op in ('Mul', 'MulUnchecked'):
            return Int(None, w, sg, (x * y) & m_)
        if op == 'BitAnd':
            return Int(None, w, sg, x & y)
        if op == 'BitOr':
            return Int(None, w, sg, x | y)
        if op == 'BitXor':
            return Int(None, w, sg, x ^ y)
        if op in ('Shl', 'ShlUnchecked'):
            return Int(None, w, sg, (x << (y % w)) & m_)
        if op in ('Shr', 'ShrUnchecked'):
            xs = _sgn(x, w) if sg else x
            return Int(None, w, sg, (xs >> (y % w)) & m_)
        if op in ('AddWithOverflow', 'SubWithOverflow', 'MulWithOverflow'):
            xs, ys = (_sgn(x, w), _sgn(y, w)) if sg else (x, y)
            full = xs + ys if op[0] == 'A' else (xs - ys if op[0] == 'S' else xs * ys)
            lo, hi = (-(1 << (w - 1)), (1 << (w - 1)) - 1) if sg else (0, m_)
            return Struct('()', [Int(None, w, sg, full & m_), Bool(None, not (lo <= full <= hi))])
        if op in ('Div', 'Rem') and y != 0:
            xs, ys = (_sgn(x, w), _sgn(y, w)) if sg else (x, y)
            q = abs(xs) // abs(ys)
            if (xs < 0) != (ys < 0):
                q = -q
            r = xs - q * ys
            return Int(None, w, sg, (q if op == 'Div' else r) & m_)
        return None

    def branch(self, v):
        """branch on a Bool value (fast path for concrete ones)"""
        if v.c is not None:
            return v.c
        return self.branch_bool(v.e)

    # ------------------------------------------------------------ terminators
    def term(self, f, fr, t):
        k = t[0]
        if k == 'goto':
            return t[1]
        if k == 'return':
            return None
        if k == 'switch':
            v = self.operand(f, fr, t[1])
            cases, otherwise = t[2], t[3]
            if isinstance(v, Bool):
                val = int(v.c if v.c is not None else self.branch_bool(v.e))
                for kk, bb in cases:
                    if kk == val:
                        return bb
                return otherwise
            if isinstance(v, Enum):
                c = self.variant_index(v)
            elif v.c is not None:
                c = v.c
            else:
                c = concrete(v.e)
            if c is None:
                conds, others = [], []
                for kk, bb in cases:
                    kv = z3.BitVecVal(kk, v.w)
                    conds.append((bb, v.e == kv))
                    others.append(v.e != kv)
                if otherwise is not None:
                    conds.append((otherwise, z3.And(*others) if others else z3.BoolVal(True)))
                return self.choose(conds)
            if isinstance(v, Int) and v.signed and c >= (1 << (v.w - 1)):
                c -= (1 << v.w)
            raw = c & ((1 << v.w) - 1) if isinstance(v, Int) else c
            for kk, bb in cases:
                if kk == c or kk == raw:        # switch targets are printed as raw bit patterns (255 for -1_i8)
                    return bb
            if otherwise is None:
                raise PathEnd('panic', 'switchInt without matching target in ' + f.name)
            return otherwise
        if k == 'call':
            _, dest, callee, argops, ret_bb, unwind, span = t
            args = [self.operand(f, fr, a) for a in argops]
            dty = None
            if dest is not None and not dest[1]:
                dty = f.locals.get('_%d' % dest[0])
            if callee.startswith(('move _', 'copy _', 'move (', 'copy (')):
                fv = self.operand(f, fr, mirparse.parse_operand(callee))
                res = self.call_value(fv, args, fr, dty)
            else:
                try:
                    res = self.do_call(callee, args, fr, dty)
                except PathEnd as p:
                    if p.kind == 'panic' and not p.span:
                        p.span = span
                    raise
            if ret_bb is None:
                raise PathEnd('panic', 'diverging call ' + callee, span)
            if dest is not None:
                self.store(fr, dest, res)
            return ret_bb
        if k == 'drop':
            self.drop_place(f, fr, t[1])
            return t[2]
        if k == 'assert':
            _, neg, opnd, msg, ok_bb, unwind, span = t
            v = self.operand(f, fr, opnd)
            if v.c is not None:
                ok_ = (not v.c) if neg else v.c
            else:
                ok_ = self.branch_bool(z3.Not(v.e) if neg else v.e)
            if not ok_:
                raise PathEnd('panic', 'MIR assert failed in %s: %s' % (f.name, msg), span)
            return ok_bb
        if k == 'unreachable':
            raise PathEnd('panic', 'unreachable reached in ' + f.name)
        if k == 'resume':
            return '<resume>'
        raise Unsupported('terminator ' + k)

    def drop_place(self, f, fr, place):
        """run user Drop impls for the value at place (top level only)"""
        if place[1]:
            return
        ty = f.locals.get('_%d' % place[0], '')
        short = re.sub(r'<.*>', '', ty).split('::')[-1]
        key = '<%s as Drop>::drop' % short
        name = self.alias.get(key)
        v = fr[place[0]].v
        if isinstance(v, Opaque):
            return
        if name is not None and v is None:
            # a zero-sized guard value is never assigned in MIR (`debug g => const Guard`), yet the elaborated drop is
            # emitted exactly where it is initialised: run the Drop impl on a fieldless value of the type
            fr[place[0]].v = Struct(short, [])
            v = fr[place[0]].v
        if name is not None and v is not None:
            self.run(self.funcs[name], [Ref(fr[place[0]])])
            return
        from .models import DROP_MODELS
        fn = DROP_MODELS.get(short)
        if fn is not None and v is not None:
            fn(self, v, fr)

    def do_call(self, callee, args, fr, dty=None):
        self.stats['calls'] += 1
        stubs = self.env.get('stubs')
        if stubs:
            for pat, fn in stubs:
                m = pat.match(callee)
                if m:
                    r = fn(self, m, args, fr, dty)
                    if r is not NotImplemented:
                        self.models_used.add('harness stub:' + pat.pattern[:60])
                        return r
        h = self._callcache.get(callee)
        if h is None:
            from .models import MODELS
            cands = []
            norm = re.sub(r'\b(?:std|core|alloc)::(?:hash|ops|cmp|clone|convert|default|borrow|iter|fmt|marker)::', '', callee)
            for pat, fn in MODELS:
                m = pat.match(callee)
                if m is None and norm != callee:
                    m = pat.match(norm)
                if m:
                    cands.append((fn, m))
            fnname = self.resolve(callee)
            if fnname is None and norm != callee:
                fnname = self.resolve(norm)
            h = (cands, fnname)
            self._callcache[callee] = h
        cands, fnname = h
        for fn, m in cands:
            r = fn(self, m, args, fr, dty)
            if r is not NotImplemented:
                self.models_used.add(fn.__name__.lstrip('_') + ':' + m.re.pattern[:60])
                return r
        if fnname is None:
            dm = re.match(r"^<dyn (\w+)(<.*?>)?( \+ .*)? as (\w+)(<.*>)?>::(\w+)$", callee)
            if dm and args:
                return self.dyn_call(dm.group(4), dm.group(6), args, fr, dty)
            fm = re.match(r"^<.+ as (?:std::ops::|core::ops::)?(Fn|FnMut|FnOnce)<.*>>::(call|call_mut|call_once)$", callee)
            if fm and args:
                cm = re.match(r'^<(\{closure@[^}]*\}) as ', callee)
                if cm and self.deref(args[0], fr) is None:
                    # a capture-less closure is a zero-sized value that MIR never assigns
                    creator = self.fn_stack[-1] if self.fn_stack else None
                    return self.call_closure(Closure(cm.group(1), [], creator), list(args[1].fields) if isinstance(args[1], Struct) else [args[1]])
                return self.dyn_call(fm.group(1), fm.group(2), args, fr, dty)
            gm = re.match(r"^<([A-Z][0-9]?) as ([\w:]+?)(<.*>)?>::(\w+)(::<.*>)?$", callee)
            if gm and args:
                # a trait method on a generic type parameter: dispatch on the runtime type of the receiver
                return self.dyn_call(gm.group(2), gm.group(4), args, fr, dty)
            ctor = self.ctor_call(callee, args)
            if ctor is not None:
                return ctor
            raise Unsupported('no MIR body or model for ' + callee)
        return self.run(self.funcs[fnname], args, self.const_generics_of(callee))

    def const_generics_of(self, callee):
        """integer const-generic arguments of the last turbofish of a callee path"""
        k = callee.rfind('::<')
        if k < 0 or not callee.endswith('>'):
            return None
        out = []
        for a in split_top(callee[k + 3:-1]):
            a = a.strip()
            mm = re.fullmatch(r'(\d+)(?:_\w+)?', a)
            if mm:
                out.append(int(mm.group(1)))
            elif re.fullmatch(r'[A-Z][0-9]?', a) and self.cg_stack and len(self.cg_stack[-1]) == 1:
                out.append(self.cg_stack[-1][0])     # forwarded const generic parameter
        return out or None

    def ctor_call(self, callee, args):
        """an enum variant / tuple struct constructor used as a function value"""
        if callee.startswith('<'):
            return None
        p = re.sub(r'<.*>', '', strip_generics(callee))
        comps = p.split('::')
        if len(comps) >= 2:
            e = self.enum_lookup(comps[:-1], comps[-1])
            if e is not None and comps[-1] in e[1] and e[0][-1] == comps[-2]:
                return Enum('::'.join(e[0]), comps[-1], list(args))
        owners = self.variant_owner.get(comps[-1])
        if owners and len(comps) == 1 and len(owners) == 1 and not self._is_struct_name(comps[-1]):
            return Enum('::'.join(owners[0]), comps[-1], list(args))
        if len(comps) == 1 and self._is_struct_name(comps[-1]) and comps[-1][:1].isupper():
            return Struct(comps[-1], list(args))
        return None

    def type_name_of(self, v, fr=None):
        v = self.deref(v, fr)
        if isinstance(v, (FnItem, Closure)):
            return 'fn'
        while isinstance(v, Cell):
            v = v.v
            v = self.deref(v, fr)
        if isinstance(v, Struct):
            return v.ty
        if isinstance(v, Opaque) and v.what == '()':
            return '()'
        if isinstance(v, Opaque):
            return re.sub(r'<.*>', '', v.what).split('::')[-1]
        if isinstance(v, Enum):
            return v.ty.split('::')[-1]
        return None

    def dyn_call(self, trait, method, args, fr, dty):
        trait_full = trait
        trait = trait.split('::')[-1]
        if trait in ('Fn', 'FnMut', 'FnOnce') and method in ('call', 'call_mut', 'call_once'):
            fv = self.deref(args[0], fr)
            while isinstance(fv, Cell):
                fv = self.deref(fv.v, fr)
            tup = args[1] if len(args) > 1 else Struct('()', [])
            return self.call_value(fv, list(tup.fields) if isinstance(tup, Struct) else [tup], fr, dty)
        tn = self.type_name_of(args[0], fr)
        if self.env.get('dyn_call') is not None and isinstance(self.deref(args[0], fr), Opaque):
            tn = None          # an opaque receiver has no runtime type: the harness decides
        if tn is None:
            hook = self.env.get('dyn_call')
            if hook is not None:
                return hook(self, trait, method, args, fr)
            raise Unsupported('dynamic dispatch on %r' % (args[0],))
        key = '<%s as %s>::%s' % (tn, trait, method)
        name = self.find_impl(None, trait_full, method, args[0], fr)
        if name is None:
            name = self.alias.get(key)
        if name is None:
            hook = self.env.get('dyn_call')
            if hook is not None:
                return hook(self, trait, method, args, fr)
            raise Unsupported('no impl found for ' + key)
        # the receiver is &dyn Trait: pass a reference to the concrete value
        recv = args[0]
        v = self.deref(recv, fr)
        if isinstance(v, Cell):
            recv = Ref(v)
        return self.run(self.funcs[name], [recv] + list(args[1:]))

    def call_value(self, fv, args, fr=None, dty=None):
        """call a closure / fn item / fn pointer value with already evaluated args"""
        fv = self.deref(fv, fr)
        if isinstance(fv, Closure):
            return self.call_closure(fv, args)
        if isinstance(fv, FnItem):
            return self.do_call(fv.name, args, fr, dty)
        if isinstance(fv, Struct) and not fv.fields and self.resolve(fv.ty) is not None:
            return self.do_call(fv.ty, args, fr, dty)          # a fn item printed as a zero-sized constant
        if isinstance(fv, Enum) and not fv.fields and args:
            return Enum(fv.ty, fv.variant, list(args))         # a tuple-variant constructor used as a function value
        hook = self.env.get('call_value')
        if hook is not None:
            return hook(self, fv, args, fr)
        raise Unsupported('indirect call of %r' % (fv,))

    def closure_body(self, clo):
        """MIR body of a closure value.  Closure types are keyed by their source span, which is shared by all
        closures that come from one macro (e.g. do-notation's m!), so prefer the bodies nested in the creator."""
        ck = (clo.key, clo.creator, len(clo.captures), getattr(clo, 'names', ()), getattr(clo, 'ordinal', None))
        hit = self._closure_cache.get(ck)
        if hit is not None:
            return hit
        name = None
        if clo.creator is not None:
            pre = clo.creator + '::{closure#'
            cands = []
            for n, fobj in self.funcs.items():
                if n.startswith(pre) and '::' not in n[len(pre):].split('}', 1)[1].lstrip('#0123456789') and fobj.params:
                    t0 = re.sub(r'^&(mut )?', '', fobj.params[0][1])
                    if t0 == clo.key:
                        cands.append(n)
            if len(cands) > 1:
                def ncap(fobj):
                    mx = -1
                    for b in fobj.blocks.values():
                        for text, _ in b.raw:
                            for mm in re.finditer(r'\(\*?_1\)?\.(\d+): ', text):
                                mx = max(mx, int(mm.group(1)))
                    return mx + 1
                by_caps = [n for n in cands if ncap(self.funcs[n]) == len(clo.captures)]
                if len(by_caps) >= 1:
                    cands = by_caps
                names = getattr(clo, 'names', ())
                if len(cands) > 1 and names:
                    # closures of one macro expansion share a span: tell them apart by the variables they capture
                    by_names = [n for n in cands if all(dict(self.funcs[n].upvars).get(i, nm) == nm for i, nm in enumerate(names))
                                and len(self.funcs[n].upvars) <= len(names)]
                    exact = [n for n in by_names if tuple(v for _, v in self.funcs[n].upvars) == tuple(names)]
                    if len(exact) >= 1:
                        cands = exact
                    elif len(by_names) >= 1:
                        cands = by_names
                if len(cands) > 1 and getattr(clo, 'ordinal', None) is not None:
                    # still tied (same macro, same captures): the k-th capturing closure built by the creator, in textual
                    # order, is its k-th capturing {closure#n}
                    kids = []
                    for n, fobj in self.funcs.items():
                        if n.startswith(pre):
                            tail = n[len(pre):]
                            mm_ = re.fullmatch(r'(\d+)\}', tail)
                            if mm_ and fobj.upvars:
                                kids.append((int(mm_.group(1)), n))
                    kids.sort()
                    if clo.ordinal < len(kids) and kids[clo.ordinal][1] in cands:
                        cands = [kids[clo.ordinal][1]]
                site = getattr(clo, 'site', '')
                sm_ = re.match(r'^(.*?):(\d+):\d+: (\d+):\d+$', site or '')
                if len(cands) > 1 and sm_:
                    # still tied: the statement that builds the closure spans the source lines of its body
                    sfile, lo, hi = sm_.group(1), int(sm_.group(2)), int(sm_.group(3))

                    def inside(fobj):
                        hits = 0
                        for b in fobj.blocks.values():
                            for text, sp in list(b.raw)[:40]:
                                mm = re.match(r'^(.*?):(\d+):\d+: (\d+):\d+$', sp or '')
                                if mm and mm.group(1) == sfile:
                                    if lo <= int(mm.group(2)) <= hi:
                                        hits += 1
                                    else:
                                        return -1
                        return hits
                    scored = [(inside(self.funcs[n]), n) for n in cands]
                    good = [n for sc, n in scored if sc > 0]
                    if len(good) >= 1:
                        cands = good
            if len(cands) == 1:
                name = cands[0]
            elif len(cands) > 1:
                raise Unsupported('ambiguous closure body for %s in %s' % (clo.key[-40:], clo.creator))
        if name is None:
            name = self.closures.get(clo.key)
        if name is not None:
            self._closure_cache[ck] = name
        return name

    def call_closure(self, clo, args, by_ref=None):
        if isinstance(clo, FnItem):
            return self.do_call(clo.name, args, None, None)
        if isinstance(clo, Ref):
            clo = self.deref(clo)
        if not isinstance(clo, Closure):
            hook = self.env.get('call_value')
            if hook is not None:
                return hook(self, clo, args, None)
            raise Unsupported('call of non-closure %r' % (clo,))
        name = self.closure_body(clo)
        if name is None:
            raise Unsupported('closure body not found ' + clo.key)
        f = self.funcs[name]
        t0 = f.params[0][1]
        selfarg = clo
        if t0.startswith('&'):
            selfarg = Ref(Cell(clo))
        # closures take their arguments as separate params in MIR
        return self.run(f, [selfarg] + list(args))
