"""Model of clvmr's Allocator as an append-only store of trees.

A NodePtr value is a Tree object: concrete shape, atoms of concrete length
with symbolic bytes.  NodePtr equality follows clvmr: small canonical atoms
(fits_in_small_atom) are interned by value, everything else by identity.
"""
import re
import z3
from .engine import (Int, Big, Bool, Struct, Enum, Vec, Cell, Ref, Slice, Opaque, Closure, FnItem,
                     mkint, mkbool, concrete, Unsupported, PathEnd, INT_TYPES, deep_copy,
                     Some, NONE, Ok, Err, UNIT, Tup)
from .models import model, const_model, items_of, as_slice, from_signed, signed_len_options, byte_of, as_big


class Tree:
    __slots__ = ('kind', 'a', 'b', 'cell', 'tag')

    def __init__(self, kind, a=None, b=None, atom=None, tag=None):
        self.kind, self.a, self.b, self.tag = kind, a, b, tag
        self.cell = Cell(Vec(list(atom)), 'static') if kind == 'atom' else None

    @property
    def atom(self):
        return self.cell.v.items

    def __repr__(self):
        if self.kind == 'atom':
            return 'Atom(%r)' % (self.atom,)
        return 'Pair(%r, %r)' % (self.a, self.b)


def atom_node(items, tag=None):
    return Tree('atom', atom=items, tag=tag)


def pair_node(a, b):
    return Tree('pair', a, b)


NIL = None


def nil_node():
    return Tree('atom', atom=[])


def small_formula(items):
    """(is_small formula, value term u32) per clvmr::allocator::fits_in_small_atom"""
    n = len(items)
    if n == 0:
        return z3.BoolVal(True), z3.BitVecVal(0, 32)
    if n > 4:
        return z3.BoolVal(False), z3.BitVecVal(0, 32)
    bad = []
    if n == 1:
        bad.append(items[0].e == 0)
    bad.append(z3.UGE(items[0].e, 0x80))
    if n > 1:
        bad.append(z3.And(items[0].e == 0, z3.ULT(items[1].e, 0x80)))
    if n == 4:
        bad.append(z3.UGT(items[0].e, 3))
    val = z3.Concat(*[b.e for b in items]) if n > 1 else items[0].e
    val = z3.ZeroExt(32 - 8 * n, val) if n < 4 else val
    return z3.Not(z3.Or(*bad)), val


def nodeptr_eq(a, b):
    if a is b:
        return z3.BoolVal(True)
    if a.kind != 'atom' or b.kind != 'atom':
        return z3.BoolVal(False)
    sa, va = small_formula(a.atom)
    sb, vb = small_formula(b.atom)
    return z3.And(sa, sb, va == vb)


@const_model(r'^(clvm_rs::|clvmr::)?(allocator::)?NodePtr::NIL$')
def _c_nil(eng, m):
    return nil_node()


@model(r'^(clvm_rs::|clvmr::)?(allocator::)?Allocator::new$|^<(clvm_rs::)?Allocator as Default>::default$')
def _alloc_new(eng, m, args, fr, dty):
    return Struct('Allocator', [])


@model(r'^(clvm_rs::|clvmr::)?(allocator::)?Allocator::sexp$')
def _alloc_sexp(eng, m, args, fr, dty):
    n = args[1]
    if not isinstance(n, Tree):
        raise Unsupported('Allocator::sexp of %r' % (n,))
    if n.kind == 'atom':
        return Enum('allocator::SExp', 'Atom', [])
    return Enum('allocator::SExp', 'Pair', [n.a, n.b])


@model(r'^(clvm_rs::|clvmr::)?(allocator::)?Allocator::(nil|null)$')
def _alloc_nil(eng, m, args, fr, dty):
    return nil_node()


@model(r'^(clvm_rs::|clvmr::)?(allocator::)?Allocator::one$')
def _alloc_one(eng, m, args, fr, dty):
    return atom_node([mkint(1, 'u8')])


@model(r'^(clvm_rs::|clvmr::)?(allocator::)?Allocator::new_atom$')
def _alloc_new_atom(eng, m, args, fr, dty):
    return Ok(atom_node([x for x in items_of(eng, args[1], fr)]))


@model(r'^(clvm_rs::|clvmr::)?(allocator::)?Allocator::new_pair$')
def _alloc_new_pair(eng, m, args, fr, dty):
    return Ok(pair_node(args[1], args[2]))


@model(r'^(clvm_rs::|clvmr::)?(allocator::)?Allocator::new_number$')
def _alloc_new_number(eng, m, args, fr, dty):
    e = as_big(eng, args[1], fr)
    if eng.branch_bool(e == 0):
        return Ok(nil_node())
    n = eng.choose(signed_len_options(eng, e))
    return Ok(atom_node([byte_of(e, n, i) for i in range(n)]))


@model(r'^(clvm_rs::|clvmr::)?(allocator::)?Allocator::new_small_number$')
def _alloc_new_small_number(eng, m, args, fr, dty):
    return _alloc_new_number(eng, m, [args[0], args[1]], fr, dty)


@model(r'^(clvm_rs::|clvmr::)?(allocator::)?Allocator::atom$')
def _alloc_atom(eng, m, args, fr, dty):
    n = args[1]
    if not isinstance(n, Tree) or n.kind != 'atom':
        raise PathEnd('panic', 'Allocator::atom called on a pair')
    return Struct('Atom', [Slice(Ref(n.cell), 0, len(n.atom))])


@model(r'^(clvm_rs::|clvmr::)?(allocator::)?Allocator::atom_len$')
def _alloc_atom_len(eng, m, args, fr, dty):
    n = args[1]
    if n.kind != 'atom':
        raise PathEnd('panic', 'Allocator::atom_len called on a pair')
    return mkint(len(n.atom), 'usize')


@model(r'^(clvm_rs::|clvmr::)?(allocator::)?Allocator::number$')
def _alloc_number(eng, m, args, fr, dty):
    n = args[1]
    if n.kind != 'atom':
        raise PathEnd('panic', 'Allocator::number called on a pair')
    return Big(from_signed(eng, n.atom))


@model(r'^(clvm_rs::|clvmr::)?(allocator::)?Allocator::small_number$')
def _alloc_small_number(eng, m, args, fr, dty):
    n = args[1]
    if n.kind != 'atom':
        return NONE()
    s, v = small_formula(n.atom)
    if eng.branch_bool(s):
        return Some(Int(v, 32, False))
    return NONE()


@model(r'^<(allocator::|clvm_rs::allocator::|clvm_rs::)?Atom<.*> as (AsRef<\[u8\]>|Deref|Borrow<\[u8\]>)>::(as_ref|deref|borrow)$')
def _atom_as_ref(eng, m, args, fr, dty):
    a = eng.deref(args[0], fr)
    return a.fields[0]


@model(r'^<(clvm_rs::)?(allocator::)?NodePtr as PartialEq>::(eq|ne)$')
def _nodeptr_eq(eng, m, args, fr, dty):
    a, b = eng.deref(args[0], fr), eng.deref(args[1], fr)
    e = nodeptr_eq(a, b)
    return Bool(z3.Not(e) if m.group(3) == 'ne' else e)


@model(r'^<(clvm_rs::)?(allocator::)?NodePtr as Clone>::clone$')
def _nodeptr_clone(eng, m, args, fr, dty):
    return eng.deref(args[0], fr)


# ---- helpers for harnesses
def tree_to_json(model_, t, ev):
    if t.kind == 'atom':
        return [ev(model_, b.e) for b in t.atom]
    return {'p': [tree_to_json(model_, t.a, ev), tree_to_json(model_, t.b, ev)]}


def tree_from_json(j):
    if isinstance(j, dict):
        return pair_node(tree_from_json(j['p'][0]), tree_from_json(j['p'][1]))
    return atom_node([mkint(b, 'u8') for b in j])


# ---- constant text assembled natively (the reader itself is checked under C09)
_ASM_CACHE = {}


@model(r'^(.*::)?assemble$')
def _assemble_const(eng, m, args, fr, dty):
    try:
        items = items_of(eng, args[1], fr)
        bs = bytes(concrete(b.e) for b in items)
    except Exception:
        return NotImplemented
    if any(concrete(b.e) is None for b in items):
        return NotImplemented
    text = bs.decode('utf-8')
    if text not in _ASM_CACHE:
        from .driver import NATIVE
        r = NATIVE.run('assemble', [dict(case={}, inputs=dict(text=text))])[0]
        _ASM_CACHE[text] = r
    r = _ASM_CACHE[text]
    if 'ok' not in r:
        return Err(Opaque('assemble error'))
    return Ok(tree_from_json(r['ok']))


@model(r'^<(clvm_rs::|clvmr::)?(allocator::)?Atom<.*> as PartialEq>::(eq|ne)$')
def _atom_eq(eng, m, args, fr, dty):
    from .models_vec import items_eq
    a, b = eng.deref(args[0], fr), eng.deref(args[1], fr)
    e = items_eq(eng, items_of(eng, a.fields[0], fr), items_of(eng, b.fields[0], fr))
    return Bool(z3.Not(e) if m.group(3) == 'ne' else e)


# ---- more of the Allocator API (used by clvmr's run_program and operators)
@model(r'^(clvm_rs::|clvmr::)?(allocator::)?Allocator::(add_ghost_atom|add_ghost_pair|remove_ghost_pair)$')
def _alloc_ghost(eng, m, args, fr, dty):
    return Ok(UNIT)


@model(r'^(clvm_rs::|clvmr::)?(allocator::)?Allocator::(checkpoint|restore_checkpoint)$')
def _alloc_checkpoint(eng, m, args, fr, dty):
    return Opaque('Checkpoint') if m.group(3) == 'checkpoint' else UNIT


@model(r'^(clvm_rs::|clvmr::)?(allocator::)?Allocator::next$')
def _alloc_next(eng, m, args, fr, dty):
    n = args[1]
    if n.kind == 'pair':
        return Some(Tup(n.a, n.b))
    return NONE()


@model(r'^(clvm_rs::|clvmr::)?(allocator::)?Allocator::node$')
def _alloc_node(eng, m, args, fr, dty):
    n = args[1]
    if n.kind == 'pair':
        return Enum('allocator::NodeVisitor', 'Pair', [n.a, n.b])
    s, v = small_formula(n.atom)
    if eng.branch_bool(s):
        return Enum('allocator::NodeVisitor', 'U32', [Int(v, 32, False)])
    return Enum('allocator::NodeVisitor', 'Buffer', [Slice(Ref(n.cell), 0, len(n.atom))])


@model(r'^(clvm_rs::|clvmr::)?(allocator::)?Allocator::atom_eq$')
def _alloc_atom_eq(eng, m, args, fr, dty):
    from .models_vec import items_eq
    a, b = args[1], args[2]
    if a.kind != 'atom' or b.kind != 'atom':
        raise PathEnd('panic', 'atom_eq() called on pair')
    return Bool(items_eq(eng, a.atom, b.atom))


@model(r'^(clvm_rs::|clvmr::)?(allocator::)?Allocator::new_concat$')
def _alloc_new_concat(eng, m, args, fr, dty):
    new_size = args[1]
    nodes = items_of(eng, args[2], fr)
    out = []
    for n in nodes:
        n = eng.deref(n, fr)
        if n.kind != 'atom':
            return Err(Enum('error::EvalErr', 'InternalError', [n, Opaque('new_concat on pair')]))
        out.extend(n.atom)
    if eng.branch_bool(new_size.e != len(out)):
        return Err(Enum('error::EvalErr', 'InternalError', [nil_node(), Opaque('new_concat size mismatch')]))
    return Ok(atom_node(out))


@model(r'^(clvm_rs::|clvmr::)?(allocator::)?Allocator::new_substr$')
def _alloc_new_substr(eng, m, args, fr, dty):
    n = args[1]
    if n.kind != 'atom':
        return Err(Enum('error::EvalErr', 'InternalError', [n, Opaque('substr on pair')]))
    ln = len(n.atom)
    s = eng.concretize(args[2], 0, ln + 1)
    e = eng.concretize(args[3], 0, ln + 1)
    if s > ln or e > ln or e < s:
        return Err(Enum('error::EvalErr', 'InvalidAllocArg', [n, Opaque('substr bounds')]))
    return Ok(atom_node(list(n.atom[s:e])))


@model(r'^(clvm_rs::|clvmr::)?(allocator::)?NodePtr::(is_atom|is_pair)$')
def _nodeptr_kind(eng, m, args, fr, dty):
    n = eng.deref(args[0], fr)
    return mkbool((n.kind == 'atom') == (m.group(3) == 'is_atom'))
