"""Display/ToString through a recording Formatter, UTF-8 validation, str::parse::<BigInt>, HashSet<char> collect."""
import re
import z3
from .engine import (Int, Bool, Struct, Enum, Vec, Cell, Ref, Slice, Opaque, mkint, mkbool, concrete, Unsupported,
                     PathEnd, Ok, Err, UNIT, Some, NONE)
from .models import model, items_of, as_slice, MODELS


class FormatterV:
    def __init__(self):
        self.buf = Vec([])


@model(r'^<(.+) as ToString>::to_string$')
def _to_string_via_display(eng, m, args, fr, dty):
    """blanket ToString: run the type's own Display::fmt (from MIR) into a recording Formatter"""
    ty = m.group(1)
    if ty in ('str', 'String', 'std::string::String', 'BigInt', 'char') or ty.startswith('Cow<'):
        return NotImplemented
    callee = '<%s as Display>::fmt' % ty
    fn = eng.resolve(callee) or eng.resolve('<%s as std::fmt::Display>::fmt' % ty)
    if fn is None:
        if re.search(r'Err|Error|Failure', ty):
            return Opaque('error message')          # message text of an error type without a MIR Display body
        return NotImplemented
    f = FormatterV()
    r = eng.run(eng.funcs[fn], [args[0], Ref(Cell(f))])
    if isinstance(r, Enum) and r.variant == 'Err':
        raise PathEnd('panic', 'a Display implementation returned an error unexpectedly')
    return f.buf


@model(r'^(std::fmt::)?Formatter::<.*>::write_fmt$|^(std::fmt::)?Formatter::write_fmt$')
def _fmt_write_fmt(eng, m, args, fr, dty):
    f = eng.deref(args[0], fr)
    if isinstance(f, FormatterV):
        f.buf.items.append(mkint(0x3f, 'u8'))       # formatted message text is opaque ('?')
    return Ok(UNIT)


@model(r'^(std::fmt::)?Formatter::<.*>::write_str$|^(std::fmt::)?Formatter::write_str$|^<(std::fmt::)?Formatter<.*> as (std::fmt::)?Write>::write_str$')
def _fmt_write_str(eng, m, args, fr, dty):
    f = eng.deref(args[0], fr)
    if not isinstance(f, FormatterV):
        return Ok(UNIT)
    f.buf.items.extend(items_of(eng, args[1], fr))
    return Ok(UNIT)


# make the two models above take precedence over the generic opaque formatting models
for _fn in (_to_string_via_display, _fmt_write_str):
    for _i, (_p, _f) in enumerate(MODELS):
        if _f is _fn:
            MODELS.insert(0, MODELS.pop(_i))
            break


def utf8_valid(items):
    """z3 formula: the byte terms form valid UTF-8 (concrete length)"""
    n = len(items)
    valid = [None] * (n + 1)
    valid[n] = z3.BoolVal(True)
    cont = lambda b: z3.And(z3.UGE(b, 0x80), z3.ULE(b, 0xBF))
    for i in range(n - 1, -1, -1):
        b0 = items[i].e
        alts = [z3.And(z3.ULT(b0, 0x80), valid[i + 1])]
        if i + 1 < n:
            b1 = items[i + 1].e
            alts.append(z3.And(z3.UGE(b0, 0xC2), z3.ULE(b0, 0xDF), cont(b1), valid[i + 2]))
        if i + 2 < n:
            b1, b2 = items[i + 1].e, items[i + 2].e
            three = z3.Or(z3.And(b0 == 0xE0, z3.UGE(b1, 0xA0), z3.ULE(b1, 0xBF)),
                          z3.And(z3.UGE(b0, 0xE1), z3.ULE(b0, 0xEC), cont(b1)),
                          z3.And(b0 == 0xED, z3.UGE(b1, 0x80), z3.ULE(b1, 0x9F)),
                          z3.And(z3.UGE(b0, 0xEE), z3.ULE(b0, 0xEF), cont(b1)))
            alts.append(z3.And(three, cont(b2), valid[i + 3]))
        if i + 3 < n:
            b1, b2, b3 = items[i + 1].e, items[i + 2].e, items[i + 3].e
            four = z3.Or(z3.And(b0 == 0xF0, z3.UGE(b1, 0x90), z3.ULE(b1, 0xBF)),
                         z3.And(z3.UGE(b0, 0xF1), z3.ULE(b0, 0xF3), cont(b1)),
                         z3.And(b0 == 0xF4, z3.UGE(b1, 0x80), z3.ULE(b1, 0x8F)))
            alts.append(z3.And(four, cont(b2), cont(b3), valid[i + 4]))
        valid[i] = z3.Or(*alts)
    return valid[0]


@model(r'^(std::string::)?String::from_utf8$|^(std::str::|core::str::)?from_utf8$|^core::str::converts::from_utf8$')
def _from_utf8_exact(eng, m, args, fr, dty):
    v = args[0]
    items = items_of(eng, v, fr)
    ok = eng.branch_bool(utf8_valid(items)) if items else True
    if not ok:
        return Err(Opaque('Utf8Error'))
    if 'String' in m.group(0):
        return Ok(v if isinstance(v, Vec) else Vec(list(items)))
    return Ok(as_slice(eng, v, fr))


for _i, (_p, _f) in enumerate(MODELS):
    if _f is _from_utf8_exact:
        MODELS.insert(0, MODELS.pop(_i))
        break


@model(r'^(core|std)::str::<impl str>::parse::<BigInt>$|^<BigInt as FromStr>::from_str$')
def _parse_bigint(eng, m, args, fr, dty):
    from .models import _from_str_radix
    return _from_str_radix(eng, m, [args[0], mkint(10, 'u32')], fr, dty)


@model(r'^(?:core|std)::str::<impl str>::strip_prefix::<(char|&str)>$')
def _strip_prefix(eng, m, args, fr, dty):
    s = as_slice(eng, args[0], fr)
    items = items_of(eng, s, fr)
    if m.group(1) == 'char':
        pat = [Int(z3.Extract(7, 0, args[1].e), 8, False)]
    else:
        pat = items_of(eng, args[1], fr)
    if len(pat) > len(items):
        return NONE()
    cond = z3.And(*[a.e == b.e for a, b in zip(items, pat)]) if pat else z3.BoolVal(True)
    if eng.branch_bool(cond):
        return Some(Slice(s.ref, s.start + len(pat), s.length - len(pat)))
    return NONE()


@model(r'^(core|std)::str::<impl str>::replace::<&str>$')
def _str_replace(eng, m, args, fr, dty):
    items = items_of(eng, args[0], fr)
    pat = items_of(eng, args[1], fr)
    rep = items_of(eng, args[2], fr)
    if len(pat) != 1:
        raise Unsupported('str::replace with a multi-byte pattern')
    out = []
    for b in items:
        if eng.branch_bool(b.e == pat[0].e):
            out.extend(rep)
        else:
            out.append(b)
    return Vec(out)
