"""Display/ToString through a recording Formatter, UTF-8 validation, str::parse::<BigInt>, HashSet<char> collect."""
import re
import z3
from .engine import (Int, Bool, Struct, Enum, Vec, Cell, Ref, Slice, Opaque, mkint, mkbool, concrete, Unsupported,
                     PathEnd, Ok, Err, UNIT, Some, NONE)
from .models import model, items_of, as_slice, MODELS


class FormatterV:
    def __init__(self):
        self.buf = Vec([])


@model(r'^<(.+) as ToString>::to_string$')
def _to_string_via_display(eng, m, args, fr, dty):
    """blanket ToString: run the type's own Display::fmt (from MIR) into a recording Formatter"""
    ty = m.group(1)
    recv = args[0]
    mm = re.match(r'^(?:std::rc::)?(?:Rc|Box)<(.+)>$', ty)
    if mm:
        ty = mm.group(1)
        v = eng.deref(recv, fr)
        if isinstance(v, Cell):
            recv = Ref(v)
        args = [recv] + list(args[1:])
    if ty in ('str', 'String', 'std::string::String', 'BigInt', 'char') or ty.startswith('Cow<'):
        return NotImplemented
    callee = '<%s as Display>::fmt' % ty
    fn = eng.resolve(callee) or eng.resolve('<%s as std::fmt::Display>::fmt' % ty)
    if fn is None:
        if re.search(r'Err|Error|Failure', ty):
            return Opaque('error message')          # message text of an error type without a MIR Display body
        return NotImplemented
    f = FormatterV()
    r = eng.run(eng.funcs[fn], [args[0], Ref(Cell(f))])
    if isinstance(r, Enum) and r.variant == 'Err':
        raise PathEnd('panic', 'a Display implementation returned an error unexpectedly')
    return f.buf


@model(r'^(std::fmt::)?Formatter::<.*>::write_fmt$|^(std::fmt::)?Formatter::write_fmt$')
def _fmt_write_fmt(eng, m, args, fr, dty):
    f = eng.deref(args[0], fr)
    if isinstance(f, FormatterV):
        f.buf.items.append(mkint(0x3f, 'u8'))       # formatted message text is opaque ('?')
    return Ok(UNIT)


@model(r'^(std::fmt::)?Formatter::<.*>::write_str$|^(std::fmt::)?Formatter::write_str$|^<(std::fmt::)?Formatter<.*> as (std::fmt::)?Write>::write_str$')
def _fmt_write_str(eng, m, args, fr, dty):
    f = eng.deref(args[0], fr)
    if not isinstance(f, FormatterV):
        return Ok(UNIT)
    f.buf.items.extend(items_of(eng, args[1], fr))
    return Ok(UNIT)


# make the two models above take precedence over the generic opaque formatting models
for _fn in (_to_string_via_display, _fmt_write_str):
    for _i, (_p, _f) in enumerate(MODELS):
        if _f is _fn:
            MODELS.insert(0, MODELS.pop(_i))
            break


def utf8_valid(items):
    """z3 formula: the byte terms form valid UTF-8 (concrete length)"""
    n = len(items)
    valid = [None] * (n + 1)
    valid[n] = z3.BoolVal(True)
    cont = lambda b: z3.And(z3.UGE(b, 0x80), z3.ULE(b, 0xBF))
    for i in range(n - 1, -1, -1):
        b0 = items[i].e
        alts = [z3.And(z3.ULT(b0, 0x80), valid[i + 1])]
        if i + 1 < n:
            b1 = items[i + 1].e
            alts.append(z3.And(z3.UGE(b0, 0xC2), z3.ULE(b0, 0xDF), cont(b1), valid[i + 2]))
        if i + 2 < n:
            b1, b2 = items[i + 1].e, items[i + 2].e
            three = z3.Or(z3.And(b0 == 0xE0, z3.UGE(b1, 0xA0), z3.ULE(b1, 0xBF)),
                          z3.And(z3.UGE(b0, 0xE1), z3.ULE(b0, 0xEC), cont(b1)),
                          z3.And(b0 == 0xED, z3.UGE(b1, 0x80), z3.ULE(b1, 0x9F)),
                          z3.And(z3.UGE(b0, 0xEE), z3.ULE(b0, 0xEF), cont(b1)))
            alts.append(z3.And(three, cont(b2), valid[i + 3]))
        if i + 3 < n:
            b1, b2, b3 = items[i + 1].e, items[i + 2].e, items[i + 3].e
            four = z3.Or(z3.And(b0 == 0xF0, z3.UGE(b1, 0x90), z3.ULE(b1, 0xBF)),
                         z3.And(z3.UGE(b0, 0xF1), z3.ULE(b0, 0xF3), cont(b1)),
                         z3.And(b0 == 0xF4, z3.UGE(b1, 0x80), z3.ULE(b1, 0x8F)))
            alts.append(z3.And(four, cont(b2), cont(b3), valid[i + 4]))
        valid[i] = z3.Or(*alts)
    return valid[0]


@model(r'^(std::string::)?String::from_utf8$|^(std::str::|core::str::)?from_utf8$|^core::str::converts::from_utf8$')
def _from_utf8_exact(eng, m, args, fr, dty):
    v = args[0]
    items = items_of(eng, v, fr)
    ok = eng.branch_bool(utf8_valid(items)) if items else True
    if not ok:
        return Err(Opaque('Utf8Error'))
    if 'String' in m.group(0):
        return Ok(v if isinstance(v, Vec) else Vec(list(items)))
    return Ok(as_slice(eng, v, fr))


for _i, (_p, _f) in enumerate(MODELS):
    if _f is _from_utf8_exact:
        MODELS.insert(0, MODELS.pop(_i))
        break


@model(r'^(core|std)::str::<impl str>::parse::<BigInt>$|^<BigInt as FromStr>::from_str$')
def _parse_bigint(eng, m, args, fr, dty):
    from .models import _from_str_radix
    return _from_str_radix(eng, m, [args[0], mkint(10, 'u32')], fr, dty)


@model(r'^(?:core|std)::str::<impl str>::strip_prefix::<(char|&str)>$')
def _strip_prefix(eng, m, args, fr, dty):
    s = as_slice(eng, args[0], fr)
    items = items_of(eng, s, fr)
    if m.group(1) == 'char':
        pat = [Int(z3.Extract(7, 0, args[1].e), 8, False)]
    else:
        pat = items_of(eng, args[1], fr)
    if len(pat) > len(items):
        return NONE()
    cond = z3.And(*[a.e == b.e for a, b in zip(items, pat)]) if pat else z3.BoolVal(True)
    if eng.branch_bool(cond):
        return Some(Slice(s.ref, s.start + len(pat), s.length - len(pat)))
    return NONE()


@model(r'^(core|std)::str::<impl str>::replace::<&str>$')
def _str_replace(eng, m, args, fr, dty):
    items = items_of(eng, args[0], fr)
    pat = items_of(eng, args[1], fr)
    rep = items_of(eng, args[2], fr)
    if len(pat) != 1:
        raise Unsupported('str::replace with a multi-byte pattern')
    out = []
    for b in items:
        if eng.branch_bool(b.e == pat[0].e):
            out.extend(rep)
        else:
            out.append(b)
    return Vec(out)


# ---------------------------------------------------------------- exact format!() (opt-in: eng.env['exact_fmt'])
# The nightly lowers format_args!("..{}..", a) to Arguments::new::<N, M>(template bytes, &[Argument; M]); the
# template encoding is documented in library/core/src/fmt/mod.rs (literal pieces with a length prefix, placeholders
# 0b11______ with optional flags/width/precision/arg_index, a final zero byte).
class FmtArgs:
    def __init__(self, template, args):
        self.template, self.args = template, args


def _exact(eng):
    return bool(eng.env.get('exact_fmt'))


@model(r"^core::fmt::rt::Argument::<'_>::new_(display|debug|lower_hex|upper_hex)::<(.*)>$")
def _fmt_arg_new(eng, m, args, fr, dty):
    if not _exact(eng):
        return NotImplemented
    return Struct('FmtArg', [m.group(1), args[0], m.group(2)])


@model(r"^(std::fmt::)?Arguments::<'_>::new::<\d+, \d+>$")
def _fmt_arguments_new(eng, m, args, fr, dty):
    if not _exact(eng):
        return NotImplemented
    tmpl = [b.c if b.c is not None else concrete(b.e) for b in items_of(eng, args[0], fr)]
    arr = eng.deref(args[1], fr)
    return FmtArgs(tmpl, list(arr.items))


@model(r"^(std::fmt::)?Arguments::<'_>::from_str(_nonconst)?$")
def _fmt_arguments_from_str(eng, m, args, fr, dty):
    if not _exact(eng):
        return NotImplemented
    lit = [b.c if b.c is not None else concrete(b.e) for b in items_of(eng, args[0], fr)]
    t = []
    i = 0
    while i < len(lit):
        chunk = lit[i:i + 127]
        t.append(len(chunk)); t.extend(chunk)
        i += 127
    t.append(0)
    return FmtArgs(t, [])


def _dec_bytes(n):
    return [mkint(c, 'u8') for c in str(n).encode()]


def display_value(eng, kind, ref, ty, fr, out, spec=None):
    """append the Display/Debug rendering of *ref (declared type ty) to the list `out`"""
    while ty.startswith('&'):
        ty = ty[1:].lstrip()
        if ty.startswith('mut '):
            ty = ty[4:]
        ref = eng.deref(ref, fr)
    v = eng.deref(ref, fr)
    base = re.sub(r'^(std::string::|std::rc::|alloc::string::)', '', ty)
    if base in ('String', 'str') or (kind == 'display' and isinstance(v, (Vec, Slice)) and base.startswith(('Rc<String', 'Rc<std::string::String'))):
        if isinstance(v, Cell):
            v = v.v
        if isinstance(v, Opaque):
            out.append(mkint(0x3f, 'u8'))
            return
        if kind == 'debug':
            out.append(mkint(0x22, 'u8'))
        out.extend(items_of(eng, v, fr))
        if kind == 'debug':
            out.append(mkint(0x22, 'u8'))
        return
    if base.startswith('Rc<') and isinstance(v, Cell):
        return display_value(eng, kind, Ref(v), base[3:-1], fr, out, spec)
    if isinstance(v, Int):
        c = v.c if v.c is not None else concrete(v.e)
        if c is None:
            raise Unsupported('formatting a symbolic integer')
        if v.signed and c >= 1 << (v.w - 1):
            c -= 1 << v.w
        if kind in ('lower_hex', 'upper_hex'):
            s = '%x' % c if kind == 'lower_hex' else '%X' % c
        else:
            s = str(c)
        if spec and spec.get('width'):
            pad = '0' if spec.get('zero') else ' '
            s = s.rjust(spec['width'], pad)
        out.extend(mkint(ch, 'u8') for ch in s.encode())
        return
    if isinstance(v, Bool):
        c = v.c if v.c is not None else concrete(v.e)
        if c is None:
            raise Unsupported('formatting a symbolic bool')
        out.extend(mkint(ch, 'u8') for ch in (b'true' if c else b'false'))
        return
    if isinstance(v, Opaque):
        out.append(mkint(0x3f, 'u8'))
        return
    trait = 'Display' if kind == 'display' else 'Debug'
    if base == 'BigInt':
        r = eng.do_call('<BigInt as ToString>::to_string', [ref], fr)
        out.extend(items_of(eng, r, fr))
        return
    for callee in ('<%s as %s>::fmt' % (base, trait), '<%s as std::fmt::%s>::fmt' % (base, trait)):
        fn = eng.resolve(callee)
        if fn is not None:
            f = FormatterV()
            r = eng.run(eng.funcs[fn], [ref if isinstance(ref, Ref) else Ref(Cell(v)), Ref(Cell(f))])
            out.extend(f.buf.items)
            return
    if kind == 'debug':
        out.append(mkint(0x3f, 'u8'))          # Debug text of a type without a MIR body: diagnostic only
        return
    raise Unsupported('exact formatting of %s (%s)' % (ty, kind))


def render(eng, fa, fr):
    t = fa.template
    out = []
    i = 0
    nxt = 0
    while True:
        b = t[i]
        i += 1
        if b == 0:
            break
        if b < 0x80:
            out.extend(mkint(c, 'u8') for c in t[i:i + b])
            i += b
        elif b == 0x80:
            ln = t[i] | (t[i + 1] << 8)
            i += 2
            out.extend(mkint(c, 'u8') for c in t[i:i + ln])
            i += ln
        elif b >= 0xC0:
            spec = {}
            if b & 1:
                flags = t[i] | (t[i + 1] << 8) | (t[i + 2] << 16) | (t[i + 3] << 24)
                i += 4
                spec['flags'] = flags
                spec['zero'] = bool(flags & (1 << 24)) or bool(flags & 8)
            if b & 2:
                spec['width'] = t[i] | (t[i + 1] << 8)
                i += 2
            if b & 4:
                spec['precision'] = t[i] | (t[i + 1] << 8)
                i += 2
            if b & 8:
                nxt = t[i] | (t[i + 1] << 8)
                i += 2
            if b & 0x30:
                raise Unsupported('indirect width/precision in format template')
            a = fa.args[nxt]
            nxt += 1
            kind, ref, ty = a.fields
            display_value(eng, kind, ref, ty, fr, out, spec)
        else:
            raise Unsupported('format template byte %#x' % b)
    return out


@model(r'^format$|^std::fmt::format$|^alloc::fmt::format$|^format::<.*>$')
def _format_exact(eng, m, args, fr, dty):
    if not _exact(eng) or not isinstance(args[0], FmtArgs):
        return NotImplemented
    return Vec(render(eng, args[0], fr))


@model(r'^(std::fmt::)?Formatter::<.*>::write_fmt$|^(std::fmt::)?Formatter::write_fmt$|^<(std::string::)?String as (std::fmt::)?Write>::write_fmt$')
def _write_fmt_exact(eng, m, args, fr, dty):
    if not _exact(eng) or not isinstance(args[1], FmtArgs):
        return NotImplemented
    f = eng.deref(args[0], fr)
    items = render(eng, args[1], fr)
    if isinstance(f, FormatterV):
        f.buf.items.extend(items)
    elif isinstance(f, Vec):
        f.items.extend(items)
    return Ok(UNIT)


@model(r'^<(usize|u8|u16|u32|u64|u128|isize|i8|i16|i32|i64|i128|bool) as ToString>::to_string$')
def _int_to_string(eng, m, args, fr, dty):
    out = []
    display_value(eng, 'display', args[0], m.group(1), fr, out)
    return Vec(out)


for _fn in (_fmt_arg_new, _fmt_arguments_new, _fmt_arguments_from_str, _format_exact, _write_fmt_exact, _int_to_string):
    for _i, (_p, _f) in enumerate(MODELS):
        if _f is _fn:
            MODELS.insert(0, MODELS.pop(_i))
            break


@model(r"^(std::fmt::)?Formatter::<'_>::debug_\w+$|^(std::fmt::)?Formatter::debug_\w+$|^(std::fmt::)?Debug(Struct|Tuple|List|Map|Set)::<.*>::\w+$")
def _fmt_debug_helpers(eng, m, args, fr, dty):
    """derive(Debug) output is diagnostic text only: rendered as '?'"""
    f = eng.deref(args[0], fr)
    if isinstance(f, FormatterV):
        f.buf.items.append(mkint(0x3f, 'u8'))
    return Ok(UNIT)


for _i, (_p, _f) in enumerate(MODELS):
    if _f is _fmt_debug_helpers:
        MODELS.insert(0, MODELS.pop(_i))
        break
