from . import engine, models, models_vec, models_clvm, models_hash  # noqa: F401 (registers library models)
