from . import engine, models, models_vec, models_clvm, models_hash, models_sha, models_misc, models_fmt, models_last  # noqa: F401 (registers library models)
