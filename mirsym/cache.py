"""MIR dumps of /repo (and of clvmr), regenerated from the current working tree.

The dump is keyed by the SHA-256 of src/**, Cargo.toml, Cargo.lock, so an
edited source file always yields a fresh dump; a --cfg verif_nonce="<key>"
argument forces rustc to re-emit even when cargo believes the crate is fresh.
"""
import hashlib
import os
import subprocess
import sys
import time
import fcntl

REPO = os.environ.get('VERIF_REPO', '/repo')
VERIF = os.path.dirname(os.path.dirname(os.path.abspath(__file__)))
CACHE = os.environ.get('VERIF_CACHE', os.path.join(VERIF, '.cache'))


def source_hash(repo=REPO):
    h = hashlib.sha256()
    files = []
    for root, dirs, names in os.walk(os.path.join(repo, 'src')):
        dirs.sort()
        for n in sorted(names):
            files.append(os.path.join(root, n))
    for extra in ('Cargo.toml', 'Cargo.lock', 'build.rs'):
        p = os.path.join(repo, extra)
        if os.path.exists(p):
            files.append(p)
    for p in files:
        h.update(os.path.relpath(p, repo).encode())
        h.update(b'\0')
        with open(p, 'rb') as f:
            h.update(f.read())
        h.update(b'\0')
    return h.hexdigest()[:24]


def _env():
    env = dict(os.environ)
    env['CARGO_NET_OFFLINE'] = 'true'
    env['CARGO_TARGET_DIR'] = os.path.join(CACHE, 'mirt')
    env.pop('RUSTFLAGS', None)
    return env


class _Lock:
    def __init__(self, name):
        os.makedirs(CACHE, exist_ok=True)
        self.path = os.path.join(CACHE, name + '.lock')

    def __enter__(self):
        self.f = open(self.path, 'w')
        fcntl.flock(self.f, fcntl.LOCK_EX)

    def __exit__(self, *a):
        fcntl.flock(self.f, fcntl.LOCK_UN)
        self.f.close()


def mir_dump(repo=REPO, quiet=False):
    """-> (path of chialisp MIR dump, key)"""
    key = source_hash(repo)
    out = os.path.join(CACHE, 'mir_%s.txt' % key)
    with _Lock('mirdump'):
        if os.path.exists(out) and os.path.getsize(out) > 1000000:
            return out, key
        t = time.time()
        cmd = ['cargo', '+nightly', 'rustc', '--offline', '--lib', '--no-default-features', '--',
               '-Zunpretty=mir', '-Zmir-include-spans=on', '-C', 'debug-assertions=off',
               '-C', 'overflow-checks=on', '--cfg', 'verif_nonce="%s"' % key, '-Awarnings']
        tmp = out + '.tmp'
        with open(tmp, 'w') as fo, open(os.path.join(CACHE, 'mir_build.log'), 'w') as fe:
            r = subprocess.run(cmd, cwd=repo, env=_env(), stdout=fo, stderr=fe)
        if r.returncode != 0 or os.path.getsize(tmp) < 1000000:
            sys.stderr.write(open(os.path.join(CACHE, 'mir_build.log')).read()[-4000:])
            raise RuntimeError('MIR dump of %s failed (does the tree compile?)' % repo)
        os.rename(tmp, out)
        # keep the cache small: drop older dumps
        for n in os.listdir(CACHE):
            if n.startswith('mir_') and n.endswith('.txt') and n != os.path.basename(out) and not n.startswith('mir_clvmr'):
                try:
                    os.remove(os.path.join(CACHE, n))
                except OSError:
                    pass
        if not quiet:
            sys.stderr.write('[mirsym] MIR dump %s in %.1fs\n' % (key, time.time() - t))
    return out, key


def clvmr_dump(repo=REPO):
    lock = open(os.path.join(repo, 'Cargo.lock'), 'rb').read()
    key = hashlib.sha256(lock).hexdigest()[:16]
    out = os.path.join(CACHE, 'mir_clvmr_%s.txt' % key)
    with _Lock('mirdump'):
        if os.path.exists(out) and os.path.getsize(out) > 100000:
            return out
        cmd = ['cargo', '+nightly', 'rustc', '--offline', '-p', 'clvmr', '--', '-Zunpretty=mir',
               '-Zmir-include-spans=on', '-C', 'debug-assertions=off', '-C', 'overflow-checks=on',
               '--cfg', 'verif_nonce="%s"' % key, '-Awarnings']
        tmp = out + '.tmp'
        with open(tmp, 'w') as fo, open(os.path.join(CACHE, 'mir_clvmr_build.log'), 'w') as fe:
            r = subprocess.run(cmd, cwd=repo, env=_env(), stdout=fo, stderr=fe)
        if r.returncode != 0 or os.path.getsize(tmp) < 100000:
            sys.stderr.write(open(os.path.join(CACHE, 'mir_clvmr_build.log')).read()[-4000:])
            raise RuntimeError('MIR dump of clvmr failed')
        os.rename(tmp, out)
    return out


def clvmr_src(repo=REPO):
    import glob
    c = glob.glob(os.path.expanduser('~/.cargo/registry/src/*/clvmr-0.16.2'))
    return c[0] if c else None


def load(with_clvmr=False, repo=REPO):
    """-> (funcs dict, source key, roots)"""
    from . import mirparse
    path, key = mir_dump(repo)
    funcs = mirparse.parse_dump(open(path).read())
    roots = [repo]
    if clvmr_src(repo):
        roots.append(clvmr_src(repo))
    if with_clvmr:
        cp = clvmr_dump(repo)
        cl = mirparse.parse_dump(open(cp).read(), crate='clvmr')
        for k, v in cl.items():
            funcs.setdefault(k, v)
    return funcs, key, roots


if __name__ == '__main__':
    p, k = mir_dump()
    print(p, k)
    print(clvmr_dump())
