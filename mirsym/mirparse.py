"""Parser for `rustc -Zunpretty=mir -Zmir-include-spans=on` text dumps.

The dump is split into function bodies (fn / const / static / promoted); each
body is compiled lazily into a small tuple IR the first time the symbolic
executor enters it.  Syntax the compiler does not know raises MirSyntax; the
executor turns that into an `unsupported` path end (inconclusive, never a
verdict).

IR
  place    = (local_index:int, (proj, ...))
  proj     = ('deref',) | ('field', n) | ('downcast', variant) |
             ('index', local_index) | ('cindex', k, from_end) |
             ('subslice', a, b, from_end)
  operand  = ('copy', place) | ('move', place) | ('const', text)
  rvalue   = ('use', operand) | ('binop', op, a, b) | ('unop', op, a) |
             ('ptrmeta', a) | ('discr', place) | ('ref', place) |
             ('cast', a, ty, kind) | ('tuple', [ops]) | ('array', [ops]) |
             ('repeat', op, n) | ('adt', path, variant|None, [ops], names|None) |
             ('closure', key, [ops]) | ('len', place)
  stmt     = ('assign', place, rvalue, span) | ('setdiscr', place, idx)
  term     = ('return',) | ('goto', bb) | ('unreachable',) | ('resume',) |
             ('switch', operand, [(int, bb)], otherwise_bb|None) |
             ('drop', place, bb, unwind_bb|None) |
             ('assert', neg, operand, msg, bb, unwind_bb|None, span) |
             ('call', dest_place|None, callee_text, [ops], bb|None, unwind_bb|None, span)
"""
import re
from dataclasses import dataclass, field


class MirSyntax(Exception):
    pass


@dataclass
class Block:
    name: str
    cleanup: bool
    raw: list = field(default_factory=list)      # [(text, span)]
    stmts: list = None
    term: tuple = None


@dataclass
class Function:
    name: str
    params: list          # [(local_name, type)]
    ret: str
    locals: dict          # local_name -> type
    blocks: dict          # name -> Block
    line: int = 0
    file: str = ''
    kind: str = 'fn'      # fn | const | static | promoted
    nlocals: int = 0
    compiled: bool = False
    nlines: int = 0
    src_line: int = 0
    crate: str = ''
    upvars: tuple = ()     # closure bodies: names of the captured variables, by field index


# ---------------------------------------------------------------- helpers
_split_cache = {}


def split_top(s, sep=','):
    """split s on sep at nesting depth 0 of ()[]{}<> and outside strings."""
    key = (s, sep)
    r = _split_cache.get(key)
    if r is not None:
        return r
    out, depth, cur, i, n = [], 0, [], 0, len(s)
    instr = False
    inchar = False
    while i < n:
        c = s[i]
        if instr:
            cur.append(c)
            if c == '\\':
                cur.append(s[i + 1]); i += 1
            elif c == '"':
                instr = False
        elif c == '"':
            instr = True; cur.append(c)
        elif c == "'" and _char_lit_len(s, i):
            k = _char_lit_len(s, i)
            cur.append(s[i:i + k]); i += k - 1
        elif c in '([{':
            depth += 1; cur.append(c)
        elif c in ')]}':
            depth -= 1; cur.append(c)
        elif c == '<' and _is_generic_open(s, i):
            depth += 1; cur.append(c)
        elif c == '>' and depth > 0 and _is_generic_close(s, i):
            depth -= 1; cur.append(c)
        elif c == sep and depth == 0:
            out.append(''.join(cur).strip()); cur = []
        else:
            cur.append(c)
        i += 1
    last = ''.join(cur).strip()
    if last:
        out.append(last)
    _split_cache[key] = out
    return out


def _char_lit_len(s, i):
    """length of a char literal starting at s[i] == "'" (0 if it is a lifetime)"""
    m = re.match(r"'(\\u\{[0-9a-fA-F]+\}|\\x[0-9a-fA-F]{2}|\\.|[^\\'])'", s[i:i + 14])
    return len(m.group(0)) if m else 0


def _is_generic_open(s, i):
    nxt = s[i + 1] if i + 1 < len(s) else ''
    return nxt not in ('=', '<', ' ')


def _is_generic_close(s, i):
    prev = s[i - 1] if i > 0 else ''
    return prev not in ('-', '=')   # '->' and '=>'


def find_matching(s, start, open_c='(', close_c=')'):
    depth = 0
    instr = False
    i = start
    n = len(s)
    while i < n:
        c = s[i]
        if instr:
            if c == '\\':
                i += 1
            elif c == '"':
                instr = False
        elif c == '"':
            instr = True
        elif c == "'" and _char_lit_len(s, i):
            i += _char_lit_len(s, i) - 1
        elif c == open_c:
            depth += 1
        elif c == close_c:
            depth -= 1
            if depth == 0:
                return i
        i += 1
    raise MirSyntax('unbalanced: ' + s[start:start + 80])


def unescape(body):
    """Rust debug-escaped string body -> bytes (UTF-8)."""
    out = bytearray()
    i, n = 0, len(body)
    while i < n:
        c = body[i]
        if c != '\\':
            out += c.encode('utf-8'); i += 1; continue
        d = body[i + 1]
        if d == 'n': out.append(10); i += 2
        elif d == 't': out.append(9); i += 2
        elif d == 'r': out.append(13); i += 2
        elif d == '0': out.append(0); i += 2
        elif d in '\\\'"': out += d.encode(); i += 2
        elif d == 'x':
            out.append(int(body[i + 2:i + 4], 16)); i += 4
        elif d == 'u':
            j = body.index('}', i)
            out += chr(int(body[i + 3:j], 16)).encode('utf-8'); i = j + 1
        else:
            raise MirSyntax('string escape \\' + d)
    return bytes(out)


def parse_signature(sig):
    sig = sig.rstrip()
    if not sig.endswith('{'):
        raise MirSyntax('signature: ' + sig)
    sig = sig[:-1].rstrip()
    for mm in re.finditer(r'\((?=_1: |\))', sig):
        try:
            end = find_matching(sig, mm.start())
        except MirSyntax:
            continue
        rest = sig[end + 1:]
        if rest == '' or rest.startswith(' -> '):
            name = sig[:mm.start()]
            params_s = sig[mm.start() + 1:end]
            ret = rest[4:] if rest else '()'
            params = []
            for p in split_top(params_s):
                loc, ty = p.split(': ', 1)
                params.append((loc.strip(), ty.strip()))
            return name, params, ret
    raise MirSyntax('cannot parse signature: ' + sig)


_SPAN_RE = re.compile(r'^(.*?)\s*// (?:in scope|scope|return place in scope) \d+ at (.*)$')

CONSTS = {}          # simple `const NAME: T = const V;` items
ALLOC_STATICS = {}   # allocN -> name of the static item it is the memory of


def parse_dump(text, crate=''):
    """-> dict name -> Function (bodies uncompiled)"""
    funcs = {}
    for m in re.finditer(r'^const ([\w:<> ]+?): ([\w\[\]; &\']+) = const (.+);$', text, re.M):
        CONSTS.setdefault(m.group(1), (m.group(3), m.group(2)))
    for m in re.finditer(r'^(alloc\d+) \(static: ([^,]+), size', text, re.M):
        ALLOC_STATICS[(crate, m.group(1))] = m.group(2)
    lines = text.split('\n')
    i, n = 0, len(lines)
    while i < n:
        line = lines[i]
        kind = None
        if line.startswith('fn '):
            if not line.rstrip().endswith('{'):
                i += 1; continue
            try:
                name, params, ret = parse_signature(line[3:])
            except MirSyntax:
                i += 1; continue
            kind = 'fn'
        elif line.startswith(('const ', 'static ')) and line.rstrip().endswith('= {'):
            body_ = re.sub(r'^(?:const|static(?: mut)?) ', '', line.rstrip())[:-4]
            depth_, cut_ = 0, None
            for j_ in range(len(body_) - 1):
                ch_ = body_[j_]
                if ch_ == '<':
                    depth_ += 1
                elif ch_ == '>' and j_ > 0 and body_[j_ - 1] not in '-=':
                    depth_ -= 1
                elif ch_ == ':' and body_[j_ + 1] == ' ' and depth_ == 0:
                    cut_ = j_
                    break
            if cut_ is None:
                i += 1; continue
            name, params, ret = body_[:cut_], [], body_[cut_ + 2:]
            kind = 'const' if line.startswith('const') else 'static'
        else:
            i += 1; continue
        f = Function(name, params, ret, {}, {}, i + 1, kind=kind, crate=crate)
        for loc, ty in params:
            f.locals[loc] = ty
        start = i
        i += 1
        cur = None
        while i < n and lines[i] != '}':
            l = lines[i].strip()
            i += 1
            if not l or l.startswith('//'):
                continue
            span = ''
            sm = _SPAN_RE.match(l)
            if sm:
                l, span = sm.group(1), sm.group(2)
            if cur is None:
                mm = re.match(r'^let (mut )?(_\d+): (.+);$', l)
                if mm:
                    f.locals[mm.group(2)] = mm.group(3)
                    if mm.group(2) == '_0' and not f.file:
                        f.file = span.split(':')[0]
                        try:
                            f.src_line = int(span.split(':')[1])
                        except (IndexError, ValueError):
                            f.src_line = 0
                    continue
                mm = re.match(r'^(bb\d+)( \(cleanup\))?: \{$', l)
                if mm:
                    cur = Block(mm.group(1), bool(mm.group(2)))
                    f.blocks[cur.name] = cur
                    continue
                dm = re.match(r'^debug (\w+) => .*?\(\*?_1\)?\.(\d+): ', l)
                if dm:
                    uv = dict(f.upvars)
                    uv.setdefault(int(dm.group(2)), dm.group(1))
                    f.upvars = tuple(sorted(uv.items()))
                continue        # debug / scope lines
            if l == '}':
                cur = None
                continue
            if not l.endswith(';'):
                acc = l
                while i < n and not acc.endswith(';'):
                    nl = lines[i].strip(); i += 1
                    if nl.startswith('//'):
                        continue
                    sm = _SPAN_RE.match(nl)
                    if sm:
                        nl, span = sm.group(1), sm.group(2)
                    acc += ' ' + nl
                l = acc
            cur.raw.append((l[:-1], span))
        f.nlines = i - start
        if name not in funcs:                  # runtime MIR first; skip the later CTFE copy
            funcs[name] = f
        elif '__static_ref_initialize::promoted[' in name:
            base, prom = name.rsplit('::promoted[', 1)
            k = 2
            while '%s#%d::promoted[%s' % (base, k, prom) in funcs:
                k += 1
            f.name = '%s#%d::promoted[%s' % (base, k, prom)
            funcs[f.name] = f
        elif name.endswith('__static_ref_initialize') or '__static_ref_initialize::{closure' in name:
            # lazy_static! initialisers of one module share a name: keep them all, numbered
            k = 2
            while '%s#%d' % (name, k) in funcs:
                k += 1
            f.name = '%s#%d' % (name, k)
            funcs[f.name] = f
        i += 1
    return funcs


# ---------------------------------------------------------------- IR compiler
_place_cache = {}


def _loc(s):
    return int(s[1:])


def parse_place(s):
    s = s.strip()
    r = _place_cache.get(s)
    if r is not None:
        return r
    r = _parse_place(s)
    _place_cache[s] = r
    return r


def _field_split(inner):
    depth = 0
    for i in range(len(inner)):
        c = inner[i]
        if c in '([{<':
            depth += 1
        elif c in ')]}>':
            if c == '>' and i > 0 and inner[i - 1] in '-=':
                continue
            depth -= 1
        elif c == '.' and depth == 0 and re.match(r'\.\d+: ', inner[i:]):
            return i
    return None


def _parse_place(s):
    if re.fullmatch(r'_\d+', s):
        return (_loc(s), ())
    if s.startswith('(*') and s.endswith(')') and find_matching(s, 0) == len(s) - 1:
        base, proj = parse_place(s[2:-1])
        return (base, proj + (('deref',),))
    if s.startswith('(') and find_matching(s, 0) == len(s) - 1:
        inner = s[1:-1]
        m = re.match(r'^(.*) as ([A-Za-z_0-9]+)$', inner)
        if m:
            base, proj = parse_place(m.group(1))
            return (base, proj + (('downcast', m.group(2)),))
        m = re.match(r'^(.*) as variant#(\d+)$', inner)
        if m:
            base, proj = parse_place(m.group(1))
            return (base, proj + (('downcast', int(m.group(2))),))
        idx = _field_split(inner)
        if idx is not None:
            pl, rest = inner[:idx], inner[idx + 1:]
            fld = rest.split(':', 1)[0]
            base, proj = parse_place(pl)
            return (base, proj + (('field', int(fld)),))
    m = re.match(r'^(.*)\[(_\d+)\]$', s)
    if m:
        base, proj = parse_place(m.group(1))
        return (base, proj + (('index', _loc(m.group(2))),))
    m = re.match(r'^(.*)\[(-?)(\d+) of (\d+)\]$', s)
    if m:
        base, proj = parse_place(m.group(1))
        return (base, proj + (('cindex', int(m.group(3)), bool(m.group(2))),))
    m = re.match(r'^(.*)\[(\d+):(-?)(\d*)\]$', s)
    if m:
        base, proj = parse_place(m.group(1))
        return (base, proj + (('subslice', int(m.group(2)), int(m.group(4) or 0), bool(m.group(3))),))
    raise MirSyntax('place: ' + s)


def parse_operand(s):
    s = s.strip()
    if s.startswith('no_retag '):
        s = s[len('no_retag '):]
    if s.startswith('copy '):
        return ('copy', parse_place(s[5:]))
    if s.startswith('move '):
        return ('move', parse_place(s[5:]))
    if s.startswith('const '):
        return ('const', s[6:].strip())
    if re.match(r'^[A-Za-z_<]', s) and not s.startswith(('copy', 'move')):
        return ('const', s)             # bare fn item used as a value
    raise MirSyntax('operand: ' + s)


BINOPS = {'Eq', 'Ne', 'Lt', 'Le', 'Gt', 'Ge', 'Add', 'Sub', 'Mul', 'Div', 'Rem', 'BitAnd', 'BitOr',
          'BitXor', 'Shl', 'Shr', 'AddWithOverflow', 'SubWithOverflow', 'MulWithOverflow',
          'AddUnchecked', 'SubUnchecked', 'MulUnchecked', 'ShlUnchecked', 'ShrUnchecked', 'Cmp', 'Offset'}


def parse_rvalue(s):
    s = s.strip()
    m = re.match(r'^([A-Za-z]+)\((.*)\)$', s)
    if m:
        op = m.group(1)
        if op in BINOPS:
            a, b = split_top(m.group(2))
            return ('binop', op, parse_operand(a), parse_operand(b))
        if op in ('Not', 'Neg'):
            return ('unop', op, parse_operand(m.group(2)))
        if op == 'PtrMetadata':
            return ('ptrmeta', parse_operand(m.group(2)))
        if op == 'Len':
            return ('len', parse_place(m.group(2)))
        if op == 'discriminant':
            return ('discr', parse_place(m.group(2)))
    if s.startswith('&raw '):
        rest = s.split(' ', 2)[2]
        if rest.startswith('(fake) '):
            rest = rest[len('(fake) '):]
        return ('ref', parse_place(rest))
    if s.startswith('&mut '):
        return ('ref', parse_place(s[5:]))
    if s.startswith('&/*tls*/ ') or s.startswith('/*tls*/ '):
        return ('tls', s.split('/*tls*/ ', 1)[1].strip())
    if s.startswith('&') and not s.startswith('&&'):
        rest = s[1:]
        if rest.startswith('(fake) '):
            rest = rest[len('(fake) '):]
        if rest.startswith('fake shallow ') or rest.startswith('fake '):
            rest = rest.split(' ', 2)[-1] if rest.startswith('fake shallow ') else rest[5:]
        return ('ref', parse_place(rest))
    m = re.match(r'^((?:copy|move|const|no_retag) .*) as (.+) \((\w+)(\(.*\))?\)$', s)
    if m:
        return ('cast', parse_operand(m.group(1)), m.group(2).strip(), m.group(3))
    if re.search(r' \((?:PointerCoercion|ReifyFnPointer)\(.*\)\)$', s) and re.match(r'^[A-Za-z_<]', s):
        # bare fn item cast to a fn pointer:  path::f as for<'a> fn(..) -> R (PointerCoercion(ReifyFnPointer(Safe), Implicit))
        pos = 0
        while True:
            k = s.find(' as ', pos)
            if k < 0:
                break
            head = s[:k]
            if head.count('<') - head.count('->') == head.count('>') - head.count('->'):
                mm = re.match(r'^(.+) \((\w+)(\(.*\))?\)$', s[k + 4:])
                if mm:
                    return ('cast', ('const', head.strip()), mm.group(1).strip(), mm.group(2))
            pos = k + 4
    if s.startswith(('copy ', 'move ', 'const ', 'no_retag ')):
        return ('use', parse_operand(s))
    # aggregates
    if s.startswith('(') and find_matching(s, 0) == len(s) - 1:
        return ('tuple', [parse_operand(a) for a in split_top(s[1:-1])])
    if s == '()':
        return ('tuple', [])
    if s.startswith('[') and s.endswith(']'):
        inner = s[1:-1]
        parts = split_top(inner, ';')
        if len(parts) == 2 and re.fullmatch(r'\d+', parts[1]):
            return ('repeat', parse_operand(parts[0]), int(parts[1]))
        if len(parts) == 2 and re.fullmatch(r'[A-Z][0-9]?', parts[1]):
            return ('repeat', parse_operand(parts[0]), parts[1])        # const generic length
        return ('array', [parse_operand(a) for a in split_top(inner)])
    if s.startswith('{closure@') or s.startswith('{coroutine@'):
        end = find_matching(s, 0, '{', '}')
        key = s[:end + 1]
        rest = s[end + 1:].strip()
        ops = []
        names = []
        if rest.startswith('{'):
            body = rest[1:-1].strip()
            for fa in split_top(body):
                nm, op = fa.split(': ', 1)
                names.append(nm.strip())
                ops.append(parse_operand(op))
        return ('closure', key, ops, tuple(names))
    m = re.match(r'^(.+?) \{ (.*) \}$', s)
    if m and not m.group(1).startswith(('copy ', 'move ')):
        names, ops = [], []
        for fa in split_top(m.group(2)):
            nm, op = fa.split(': ', 1)
            names.append(nm.strip()); ops.append(parse_operand(op))
        return ('adt', m.group(1), None, ops, names)
    # Path::Variant(args) | Path::Variant | TupleStruct(args)
    if s.endswith(')'):
        # find the '(' matching the final ')'
        depth, i = 0, len(s) - 1
        while i >= 0:
            if s[i] == ')': depth += 1
            elif s[i] == '(':
                depth -= 1
                if depth == 0:
                    break
            i -= 1
        head, args = s[:i], s[i + 1:-1]
        if re.match(r'^[A-Za-z_<]', head):
            return ('adt', head, None, [parse_operand(a) for a in split_top(args)], None)
    if re.match(r'^[A-Za-z_<][^ ]*$', s) or re.match(r'^[A-Za-z_<].*::\w+$', s):
        return ('adt', s, None, [], None)
    raise MirSyntax('rvalue: ' + s)


def _targets(s):
    s = s.strip()
    ret = unwind = None
    m = re.search(r'return: (bb\d+)', s)
    if m:
        ret = m.group(1)
    m = re.search(r'success: (bb\d+)', s)
    if m:
        ret = m.group(1)
    m = re.search(r'unwind: (bb\d+)', s)
    if m:
        unwind = m.group(1)
    return ret, unwind


def parse_terminator(t, span):
    if t == 'return':
        return ('return',)
    if t.startswith('goto -> '):
        return ('goto', t[8:].strip())
    if t == 'unreachable':
        return ('unreachable',)
    if t.startswith('resume') or t.startswith('terminate') or t.startswith('abort'):
        return ('resume',)
    if t.startswith('switchInt('):
        end = find_matching(t, len('switchInt'))
        opnd = parse_operand(t[len('switchInt('):end])
        targets = t[end + 1:].strip()
        if not (targets.startswith('-> [') and targets.endswith(']')):
            raise MirSyntax('switch targets: ' + t)
        cases, otherwise = [], None
        for tg in split_top(targets[4:-1]):
            k, bb = tg.split(': ')
            if k.strip() == 'otherwise':
                otherwise = bb.strip()
            else:
                cases.append((int(k), bb.strip()))
        return ('switch', opnd, cases, otherwise)
    if t.startswith('drop('):
        end = find_matching(t, 4)
        ret, unwind = _targets(t[end + 1:])
        return ('drop', parse_place(t[5:end]), ret, unwind)
    if t.startswith('assert('):
        end = find_matching(t, len('assert'))
        args = split_top(t[len('assert('):end])
        cond_s = args[0]
        neg = cond_s.startswith('!')
        ret, unwind = _targets(t[end + 1:])
        return ('assert', neg, parse_operand(cond_s[1:] if neg else cond_s),
                args[1] if len(args) > 1 else '', ret, unwind, span)
    if t.startswith(('falseEdge', 'falseUnwind', 'FalseEdge')):
        m = re.search(r'real: (bb\d+)', t)
        if m:
            return ('goto', m.group(1))
    # call:   [dest = ] callee(args) -> [return: bbN, unwind ...]   |  -> unwind ...
    mm = re.search(r' -> (\[.*\]|unwind .*|bb\d+)$', t)
    if not mm:
        raise MirSyntax('terminator: ' + t)
    ret, unwind = _targets(mm.group(1))
    body = t[:mm.start()]
    dest = None
    m = re.match(r'^((?:_\d+)|(?:\(.*?\))) = (.+)$', body)
    if m:
        # make sure the lhs is a complete place (balanced parens)
        lhs = m.group(1)
        if lhs.startswith('('):
            e = find_matching(body, 0)
            lhs = body[:e + 1]
            if not body[e + 1:].startswith(' = '):
                raise MirSyntax('call dest: ' + t)
            rhs = body[e + 4:]
        else:
            rhs = m.group(2)
        dest, body = parse_place(lhs), rhs
    if not body.endswith(')'):
        raise MirSyntax('call: ' + t)
    depth, i = 0, len(body) - 1
    instr = False
    while i >= 0:
        c = body[i]
        if c == '"' and (i == 0 or body[i - 1] != '\\'):
            instr = not instr
        elif not instr:
            if c == ')': depth += 1
            elif c == '(':
                depth -= 1
                if depth == 0:
                    break
        i -= 1
    callee = body[:i].strip()
    args = [parse_operand(a) for a in split_top(body[i + 1:-1])]
    return ('call', dest, callee, args, ret, unwind, span)


_NOPS = ('StorageLive', 'StorageDead', 'nop', 'FakeRead', 'PlaceMention', 'Retag', 'AscribeUserType',
         'Coverage', 'ConstEvalCounter', 'BackwardIncompatibleDropHint')


def compile_function(f):
    """fill Block.stmts / Block.term with IR tuples"""
    if f.compiled:
        return
    mx = 0
    for k in f.locals:
        mx = max(mx, _loc(k))
    f.nlocals = mx + 1
    nclo = 0
    for b in f.blocks.values():
        stmts = []
        raw = list(b.raw)
        if not raw:
            raise MirSyntax('empty block %s in %s' % (b.name, f.name))
        term_text, term_span = raw.pop()
        for text, span in raw:
            if text.startswith(_NOPS):
                continue
            if text.startswith('discriminant(') and ' = ' in text:
                lhs, rhs = text.split(' = ', 1)
                stmts.append(('setdiscr', parse_place(lhs[len('discriminant('):-1]), int(rhs)))
                continue
            if text.startswith('Deinit(') or text.startswith('assume(') or text.startswith('Assume('):
                continue
            if ' = ' not in text:
                raise MirSyntax('statement: ' + text)
            lhs, rhs = text.split(' = ', 1)
            rv = parse_rvalue(rhs)
            if rv[0] == 'closure' and rv[2]:
                rv = rv + (nclo,)          # ordinal among the capturing closures this function builds, in textual order
                nclo += 1
            stmts.append(('assign', parse_place(lhs), rv, span))
        b.stmts = stmts
        b.term = parse_terminator(term_text, term_span)
    f.compiled = True


if __name__ == '__main__':
    import sys
    fs = parse_dump(open(sys.argv[1]).read())
    print(len(fs), 'functions')
    bad = 0
    for name, f in fs.items():
        if len(sys.argv) > 2 and not any(k in name for k in sys.argv[2:]):
            continue
        try:
            compile_function(f)
        except MirSyntax as e:
            bad += 1
            print('SYNTAX', name, e)
    print('uncompilable:', bad)
