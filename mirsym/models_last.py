"""Fallback models, registered last (lowest priority)."""
from .models import model


@model(r'^<(.+) as IntoIterator>::into_iter$')
def _into_iter_identity(eng, m, args, fr, dty):
    # every Iterator is IntoIterator by identity; containers are handled by earlier models
    from .engine import Vec, Struct
    v = args[0]
    if isinstance(v, Vec):
        return NotImplemented
    return v


@model(r'^<(.+) as Clone>::clone$')
def _generic_clone(eng, m, args, fr, dty):
    # only for types without a MIR body (std containers / Option / tuples); user impls run from MIR
    if eng.resolve(m.group(0)) is not None:
        return NotImplemented
    from .engine import deep_copy
    return deep_copy(eng.deref(args[0], fr))


@model(r'^<&(?:mut )?(.+) as (PartialEq|PartialOrd|Ord|Hash|Clone|ToString|Display)(<&?(?:mut )?.*>)?>::(\w+)(::<.*>)?$')
def _ref_forward(eng, m, args, fr, dty):
    """std blanket impls for references forward to the referent"""
    from .engine import Ref
    inner = '<%s as %s>::%s%s' % (m.group(1), m.group(2), m.group(4), m.group(5) or '')
    if m.group(2) == 'Clone':
        return args[0] if not isinstance(args[0], Ref) else eng.deref_once(args[0], fr)
    nargs = []
    for i, a in enumerate(args):
        if isinstance(a, Ref) and (i == 0 or m.group(2) in ('PartialEq', 'PartialOrd', 'Ord')):
            nargs.append(eng.deref_once(a, fr))
        else:
            nargs.append(a)
    return eng.do_call(inner, nargs, fr, dty)
