"""Fallback models, registered last (lowest priority)."""
from .models import model


@model(r'^<(.+) as IntoIterator>::into_iter$')
def _into_iter_identity(eng, m, args, fr, dty):
    # every Iterator is IntoIterator by identity; containers are handled by earlier models
    from .engine import Vec, Struct
    v = args[0]
    if isinstance(v, Vec):
        return NotImplemented
    return v
