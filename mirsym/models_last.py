"""Fallback models, registered last (lowest priority)."""
from .models import model


@model(r'^<(.+) as IntoIterator>::into_iter$')
def _into_iter_identity(eng, m, args, fr, dty):
    # every Iterator is IntoIterator by identity; containers are handled by earlier models
    from .engine import Vec, Struct
    v = args[0]
    if isinstance(v, Vec):
        return NotImplemented
    return v


@model(r'^<(.+) as Clone>::clone$')
def _generic_clone(eng, m, args, fr, dty):
    # only for types without a MIR body (std containers / Option / tuples); user impls run from MIR
    if eng.resolve(m.group(0)) is not None:
        return NotImplemented
    from .engine import deep_copy
    return deep_copy(eng.deref(args[0], fr))
