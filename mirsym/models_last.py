"""Fallback models, registered last (lowest priority)."""
from .models import model


@model(r'^<(.+) as IntoIterator>::into_iter$')
def _into_iter_identity(eng, m, args, fr, dty):
    # every Iterator is IntoIterator by identity; containers are handled by earlier models
    from .engine import Vec, Struct
    v = args[0]
    if isinstance(v, Vec):
        return NotImplemented
    return v


@model(r'^<(.+) as Clone>::clone$')
def _generic_clone(eng, m, args, fr, dty):
    # only for types without a MIR body (std containers / Option / tuples); user impls run from MIR
    if eng.resolve(m.group(0)) is not None:
        return NotImplemented
    from .engine import deep_copy
    return deep_copy(eng.deref(args[0], fr))


@model(r'^<&(?:mut )?(.+) as (PartialEq|PartialOrd|Ord|Hash|Clone|ToString|Display)(<&?(?:mut )?.*>)?>::(\w+)(::<.*>)?$')
def _ref_forward(eng, m, args, fr, dty):
    """std blanket impls for references forward to the referent"""
    from .engine import Ref
    inner = '<%s as %s>::%s%s' % (m.group(1), m.group(2), m.group(4), m.group(5) or '')
    if m.group(2) == 'Clone':
        return args[0] if not isinstance(args[0], Ref) else eng.deref_once(args[0], fr)
    nargs = []
    for i, a in enumerate(args):
        if isinstance(a, Ref) and (i == 0 or m.group(2) in ('PartialEq', 'PartialOrd', 'Ord')):
            nargs.append(eng.deref_once(a, fr))
        else:
            nargs.append(a)
    return eng.do_call(inner, nargs, fr, dty)


@model(r'^<([A-Z][A-Z0-9_]*) as Deref>::deref$')
def _lazy_static_deref(eng, m, args, fr, dty):
    """lazy_static!: run the initialiser (from MIR) once per path"""
    from .engine import Ref, Cell, Unsupported
    name = m.group(1)
    fn = eng.lazy.get(name)
    if fn is None:
        return NotImplemented
    key = 'lazy:' + name
    if key not in eng.statics:
        eng.statics[key] = Cell(eng.run(eng.funcs[fn], []), 'static')
    return Ref(eng.statics[key])


@model(r'^<&\[(\w+)\] as TryInto<\[\1; (\d+)\]>>::try_into$|^<\[(\w+); (\d+)\] as TryFrom<&\[\3\]>>::try_from$')
def _slice_try_into_array(eng, m, args, fr, dty):
    from .engine import Vec, Ok, Err, Opaque
    from .models import items_of
    n = int(m.group(2) or m.group(4))
    items = items_of(eng, args[0], fr)
    if len(items) != n:
        return Err(Opaque('TryFromSliceError'))
    return Ok(Vec(list(items)))


@model(r'^core::num::<impl (u16|u32|u64|u128)>::from_be_bytes$')
def _from_be_bytes(eng, m, args, fr, dty):
    import z3
    from .engine import Int, INT_TYPES
    from .models import items_of
    items = items_of(eng, args[0], fr)
    w, sg = INT_TYPES[m.group(1)]
    return Int(z3.Concat(*[b.e for b in items]), w, sg)


@model(r'^<(\w+) as Iterator>::next$|^<&mut (\w+) as Iterator>::next$')
def _generic_iter_next(eng, m, args, fr, dty):
    """generic I: Iterator instantiated by the harness with an IterV"""
    from .models_vec import IterV, iter_next
    from .engine import Some, NONE
    it = eng.deref(args[0], fr)
    if not isinstance(it, IterV):
        return NotImplemented
    v = iter_next(eng, it, fr)
    return NONE() if v is None else Some(v)


@model(r'^<(.+) as Default>::default$')
def _generic_default(eng, m, args, fr, dty):
    if eng.resolve(m.group(0)) is not None:
        return NotImplemented
    from .engine import NONE, mkint, mkbool, Vec, INT_TYPES
    t = m.group(1).strip()
    if t.startswith(('std::option::Option<', 'Option<')):
        return NONE()
    if t == 'bool':
        return mkbool(False)
    if t in INT_TYPES:
        return mkint(0, t)
    if t.startswith(('std::string::String', 'String', 'Vec<', 'std::vec::Vec<')):
        return Vec([])
    if t.startswith(('HashMap<', 'std::collections::HashMap<', 'HashSet<', 'std::collections::HashSet<', 'BTreeMap<')):
        from .models_hash import MapV
        return MapV(is_set='Set' in t.split('<')[0])
    return NotImplemented


def struct_eq(eng, a, b, fr=None):
    """structural equality formula of two model values (ints, bools, enums, structs, byte vectors)"""
    import z3
    from .engine import Int, Bool, Enum, Struct, Vec, Slice, Ref, Unsupported
    from .models import items_of
    a = eng.deref(a, fr) if isinstance(a, Ref) else a
    b = eng.deref(b, fr) if isinstance(b, Ref) else b
    if isinstance(a, Int) and isinstance(b, Int):
        return a.e == b.e
    if isinstance(a, Bool) and isinstance(b, Bool):
        return a.e == b.e
    if isinstance(a, Enum) and isinstance(b, Enum):
        if a.variant != b.variant or len(a.fields) != len(b.fields):
            return z3.BoolVal(False)
        parts = [struct_eq(eng, x, y, fr) for x, y in zip(a.fields, b.fields)]
        return z3.And(*parts) if parts else z3.BoolVal(True)
    if isinstance(a, Struct) and isinstance(b, Struct):
        if len(a.fields) != len(b.fields):
            return z3.BoolVal(False)
        parts = [struct_eq(eng, x, y, fr) for x, y in zip(a.fields, b.fields)]
        return z3.And(*parts) if parts else z3.BoolVal(True)
    if isinstance(a, (Vec, Slice)) and isinstance(b, (Vec, Slice)):
        from .models_vec import items_eq
        return items_eq(eng, items_of(eng, a, fr), items_of(eng, b, fr))
    from .models_clvm import Tree, nodeptr_eq
    if isinstance(a, Tree) and isinstance(b, Tree):
        return nodeptr_eq(a, b)
    raise Unsupported('structural equality of %r / %r' % (a, b))


@model(r'^<((?:std::option::)?Option<.*>|(?:std::result::)?Result<.*>|\(.*\)) as PartialEq>::(eq|ne)$')
def _std_struct_eq(eng, m, args, fr, dty):
    import z3
    from .engine import Bool
    e = struct_eq(eng, args[0], args[1], fr)
    return Bool(z3.Not(e) if m.group(2) == 'ne' else e)


@model(r'^<(.+) as Clone>::clone_from$')
def _clone_from(eng, m, args, fr, dty):
    from .engine import deep_copy, UNIT
    dst, src = args
    eng.set_at(dst.cell, dst.proj, deep_copy(eng.deref(src, fr)), fr)
    return UNIT


@model(r'^<impl Iterator<.*> as Iterator>::next$|^<&mut impl Iterator<.*> as Iterator>::next$')
def _impl_iter_next(eng, m, args, fr, dty):
    return _generic_iter_next(eng, m, args, fr, dty)


@model(r'^(std::result::)?Result::<.*>::inspect::<.*>$|^(std::option::)?Option::<.*>::inspect::<.*>$')
def _inspect(eng, m, args, fr, dty):
    from .engine import Ref, Cell
    v, clo = args
    if v.variant in ('Ok', 'Some'):
        eng.call_closure(clo, [Ref(Cell(v.fields[0]))])
    return v


@model(r'^RefCell::<.*>::replace_with::<.*>$')
def _refcell_replace_with(eng, m, args, fr, dty):
    from .engine import Ref
    c = eng.deref(args[0], fr)
    old = c.v
    new = eng.call_closure(args[1], [Ref(c)])
    c.v = new
    return old
