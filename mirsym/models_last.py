"""Fallback models, registered last (lowest priority)."""
from .models import model


@model(r'^<(.+) as IntoIterator>::into_iter$')
def _into_iter_identity(eng, m, args, fr, dty):
    # every Iterator is IntoIterator by identity; containers are handled by earlier models
    from .engine import Vec, Struct
    v = args[0]
    if isinstance(v, Vec):
        return NotImplemented
    return v


@model(r'^<(.+) as Clone>::clone$')
def _generic_clone(eng, m, args, fr, dty):
    # only for types without a MIR body (std containers / Option / tuples); user impls run from MIR
    if eng.resolve(m.group(0)) is not None:
        return NotImplemented
    from .engine import deep_copy
    return deep_copy(eng.deref(args[0], fr))


@model(r'^<&(?:mut )?(.+) as (PartialEq|PartialOrd|Ord|Hash|Clone|ToString|Display)(<&?(?:mut )?.*>)?>::(\w+)(::<.*>)?$')
def _ref_forward(eng, m, args, fr, dty):
    """std blanket impls for references forward to the referent"""
    from .engine import Ref
    inner = '<%s as %s>::%s%s' % (m.group(1), m.group(2), m.group(4), m.group(5) or '')
    if m.group(2) == 'Clone':
        return args[0] if not isinstance(args[0], Ref) else eng.deref_once(args[0], fr)
    nargs = []
    for i, a in enumerate(args):
        if isinstance(a, Ref) and (i == 0 or m.group(2) in ('PartialEq', 'PartialOrd', 'Ord')):
            nargs.append(eng.deref_once(a, fr))
        else:
            nargs.append(a)
    return eng.do_call(inner, nargs, fr, dty)


@model(r'^<([A-Z][A-Z0-9_]*) as Deref>::deref$')
def _lazy_static_deref(eng, m, args, fr, dty):
    """lazy_static!: run the initialiser (from MIR) once per path"""
    from .engine import Ref, Cell, Unsupported
    name = m.group(1)
    fn = eng.lazy.get(name)
    if fn is None:
        return NotImplemented
    key = 'lazy:' + name
    if key not in eng.statics:
        eng.statics[key] = Cell(eng.run(eng.funcs[fn], []), 'static')
    return Ref(eng.statics[key])


@model(r'^<&\[(\w+)\] as TryInto<\[\1; (\d+)\]>>::try_into$|^<\[(\w+); (\d+)\] as TryFrom<&\[\3\]>>::try_from$')
def _slice_try_into_array(eng, m, args, fr, dty):
    from .engine import Vec, Ok, Err, Opaque
    from .models import items_of
    n = int(m.group(2) or m.group(4))
    items = items_of(eng, args[0], fr)
    if len(items) != n:
        return Err(Opaque('TryFromSliceError'))
    return Ok(Vec(list(items)))


@model(r'^core::num::<impl (u16|u32|u64|u128)>::from_be_bytes$')
def _from_be_bytes(eng, m, args, fr, dty):
    import z3
    from .engine import Int, INT_TYPES
    from .models import items_of
    items = items_of(eng, args[0], fr)
    w, sg = INT_TYPES[m.group(1)]
    return Int(z3.Concat(*[b.e for b in items]), w, sg)


@model(r'^<(\w+) as Iterator>::next$|^<&mut (\w+) as Iterator>::next$')
def _generic_iter_next(eng, m, args, fr, dty):
    """generic I: Iterator instantiated by the harness with an IterV"""
    from .models_vec import IterV, iter_next
    from .engine import Some, NONE
    it = eng.deref(args[0], fr)
    if not isinstance(it, IterV):
        return NotImplemented
    v = iter_next(eng, it, fr)
    return NONE() if v is None else Some(v)


@model(r'^<(.+) as Default>::default$')
def _generic_default(eng, m, args, fr, dty):
    if eng.resolve(m.group(0)) is not None:
        return NotImplemented
    from .engine import NONE, mkint, mkbool, Vec, INT_TYPES
    t = m.group(1).strip()
    if t.startswith(('std::option::Option<', 'Option<')):
        return NONE()
    if t == 'bool':
        return mkbool(False)
    if t in INT_TYPES:
        return mkint(0, t)
    if t.startswith(('std::string::String', 'String', 'Vec<', 'std::vec::Vec<')):
        return Vec([])
    if t.startswith(('HashMap<', 'std::collections::HashMap<', 'HashSet<', 'std::collections::HashSet<', 'BTreeMap<')):
        from .models_hash import MapV
        return MapV(is_set='Set' in t.split('<')[0])
    return NotImplemented


def struct_eq(eng, a, b, fr=None):
    """structural equality formula of two model values (ints, bools, enums, structs, byte vectors)"""
    import z3
    from .engine import Int, Bool, Enum, Struct, Vec, Slice, Ref, Unsupported
    from .models import items_of
    a = eng.deref(a, fr) if isinstance(a, Ref) else a
    b = eng.deref(b, fr) if isinstance(b, Ref) else b
    from .engine import Cell as _Cell
    while isinstance(a, _Cell):
        a = a.v
    while isinstance(b, _Cell):
        b = b.v
    if isinstance(a, Int) and isinstance(b, Int):
        return a.e == b.e
    if isinstance(a, Bool) and isinstance(b, Bool):
        return a.e == b.e
    from .engine import Big as _Big
    if isinstance(a, _Big) and isinstance(b, _Big):
        return a.e == b.e
    if isinstance(a, Enum) and isinstance(b, Enum):
        if a.variant != b.variant or len(a.fields) != len(b.fields):
            return z3.BoolVal(False)
        parts = [struct_eq(eng, x, y, fr) for x, y in zip(a.fields, b.fields)]
        return z3.And(*parts) if parts else z3.BoolVal(True)
    if isinstance(a, Struct) and isinstance(b, Struct):
        if len(a.fields) != len(b.fields):
            return z3.BoolVal(False)
        parts = [struct_eq(eng, x, y, fr) for x, y in zip(a.fields, b.fields)]
        return z3.And(*parts) if parts else z3.BoolVal(True)
    if isinstance(a, (Vec, Slice)) and isinstance(b, (Vec, Slice)):
        from .models_vec import items_eq
        return items_eq(eng, items_of(eng, a, fr), items_of(eng, b, fr))
    from .models_clvm import Tree, nodeptr_eq
    if isinstance(a, Tree) and isinstance(b, Tree):
        return nodeptr_eq(a, b)
    from .models_hash import MapV, lookup
    if isinstance(a, MapV) and isinstance(b, MapV):
        if len(a.entries) != len(b.entries):
            return z3.BoolVal(False)
        parts = []
        for k, c in a.entries:
            i = lookup(eng, b, k, fr)
            if i is None:
                return z3.BoolVal(False)
            if not a.is_set:
                parts.append(struct_eq(eng, c.v, b.entries[i][1].v, fr))
        return z3.And(*parts) if parts else z3.BoolVal(True)
    raise Unsupported('structural equality of %r / %r' % (a, b))


@model(r'^<((?:std::option::)?Option<.*>|(?:std::result::)?Result<.*>|\(.*\)|(?:std::collections::)?(?:HashMap|HashSet|BTreeMap|BTreeSet)<.*>) as PartialEq>::(eq|ne)$')
def _std_struct_eq(eng, m, args, fr, dty):
    import z3
    from .engine import Bool
    e = struct_eq(eng, args[0], args[1], fr)
    return Bool(z3.Not(e) if m.group(2) == 'ne' else e)


@model(r'^<(.+) as Clone>::clone_from$')
def _clone_from(eng, m, args, fr, dty):
    from .engine import deep_copy, UNIT
    dst, src = args
    eng.set_at(dst.cell, dst.proj, deep_copy(eng.deref(src, fr)), fr)
    return UNIT


@model(r'^<impl Iterator<.*> as Iterator>::next$|^<&mut impl Iterator<.*> as Iterator>::next$')
def _impl_iter_next(eng, m, args, fr, dty):
    return _generic_iter_next(eng, m, args, fr, dty)


@model(r'^(std::result::)?Result::<.*>::inspect::<.*>$|^(std::option::)?Option::<.*>::inspect::<.*>$')
def _inspect(eng, m, args, fr, dty):
    from .engine import Ref, Cell
    v, clo = args
    if v.variant in ('Ok', 'Some'):
        eng.call_closure(clo, [Ref(Cell(v.fields[0]))])
    return v


@model(r'^RefCell::<.*>::replace_with::<.*>$')
def _refcell_replace_with(eng, m, args, fr, dty):
    from .engine import Ref
    c = eng.deref(args[0], fr)
    old = c.v
    new = eng.call_closure(args[1], [Ref(c)])
    c.v = new
    return old


@model(r'^<(Box|Rc|Vec|std::vec::Vec|std::rc::Rc|std::boxed::Box|String|std::string::String|HashMap|HashSet|BTreeMap|Option|std::vec::IntoIter|std::collections::\w+::\w+)<.*> as Drop>::drop$')
def _std_drop(eng, m, args, fr, dty):
    """dropping a std container releases memory only (element Drop impls of this crate: only the integer-mode guard,
    which is never stored in a container)"""
    from .engine import UNIT
    return UNIT


@model(r'^(?:std::mem::|core::mem::)?drop::<(.*)>$')
def _mem_drop(eng, m, args, fr, dty):
    from .engine import UNIT, Ref, Cell
    ty = m.group(1)
    fn = eng.resolve('<%s as Drop>::drop' % ty)
    if fn is not None:
        eng.run(eng.funcs[fn], [Ref(Cell(args[0]))])
    return UNIT


@model(r'^<(?:std::rc::)?(?:Rc|Box)<(.+)> as (PartialEq|PartialOrd|Ord)>::(\w+)$')
def _rc_cmp(eng, m, args, fr, dty):
    """Rc<T>/Box<T> compare by value: forward to T's implementation"""
    from .engine import Ref, Cell
    inner = []
    for a in args:
        v = eng.deref(a, fr)          # the Rc cell
        inner.append(Ref(v) if isinstance(v, Cell) else a)
    return eng.do_call('<%s as %s>::%s' % (m.group(1), m.group(2), m.group(3)), inner, fr, dty)


@model(r'^<(?:std::ops::)?Range<(\w+)> as Iterator>::(map|filter|filter_map|enumerate|zip|skip|take|fold|collect|any|all|for_each|flat_map|find|position|step_by|chain)(::<.*>)?$')
def _range_adapter(eng, m, args, fr, dty):
    """a Range with concrete bounds used through an iterator adapter: materialise it"""
    from .engine import concrete, Cell, mkint, Unsupported
    from .models_vec import IterV
    r = eng.deref(args[0], fr)
    s, e = r.fields[0], r.fields[1]
    sc = s.c if s.c is not None else concrete(s.e)
    ec = e.c if e.c is not None else concrete(e.e)
    if sc is None or ec is None:
        raise Unsupported('iterator adapter on a Range with symbolic bounds')
    it = IterV([Cell(mkint(i, m.group(1))) for i in range(sc, max(sc, ec))], owned=True)
    name = '<std::vec::IntoIter<%s> as Iterator>::%s%s' % (m.group(1), m.group(2), m.group(3) or '')
    return eng.do_call(name, [it] + list(args[1:]), fr, dty)


@model(r'^core::num::<impl (u8|u16|u32|u64|u128|usize)>::(div_ceil|min|max|saturating_add|abs_diff)$|^(?:std|core)::cmp::(min|max)::<(u8|u16|u32|u64|u128|usize)>$|^<(u8|u16|u32|u64|u128|usize) as Ord>::(min|max)$')
def _uint_misc(eng, m, args, fr, dty):
    import z3
    from .engine import Int
    op = m.group(2) or m.group(3) or m.group(6)
    a, b = args[0], args[1]
    w = a.w
    if op == 'div_ceil':
        q = z3.UDiv(a.e, b.e)
        r = z3.URem(a.e, b.e)
        return Int(z3.If(r != 0, q + 1, q), w, False)
    if op == 'min':
        return Int(z3.If(z3.ULE(a.e, b.e), a.e, b.e), w, False)
    if op == 'max':
        return Int(z3.If(z3.UGE(a.e, b.e), a.e, b.e), w, False)
    if op == 'saturating_add':
        s = a.e + b.e
        return Int(z3.If(z3.ULT(s, a.e), z3.BitVecVal((1 << w) - 1, w), s), w, False)
    return Int(z3.If(z3.UGE(a.e, b.e), a.e - b.e, b.e - a.e), w, False)


_PTR_IDS = {}


def ptr_id(cell):
    """a stable small integer per heap cell (pointer identity)"""
    k = id(cell)
    hit = _PTR_IDS.get(k)
    if hit is None or hit[0] is not cell:
        hit = (cell, 0x10000 + 16 * len(_PTR_IDS))
        _PTR_IDS[k] = hit
    return hit[1]


@model(r'^(?:std::rc::)?Rc::<.*>::as_ptr$')
def _rc_as_ptr(eng, m, args, fr, dty):
    from .engine import mkint, Cell, Unsupported
    v = eng.deref(args[0], fr)
    if not isinstance(v, Cell):
        raise Unsupported('Rc::as_ptr of %r' % (v,))
    return mkint(ptr_id(v), 'usize')


@model(r'^(?:std::rc::)?Rc::<.*>::ptr_eq$')
def _rc_ptr_eq(eng, m, args, fr, dty):
    from .engine import mkbool
    a, b = eng.deref(args[0], fr), eng.deref(args[1], fr)
    return mkbool(a is b)


@model(r'^<(.+) as PartialEq(<.*>)?>::ne$')
def _default_ne(eng, m, args, fr, dty):
    """the provided method PartialEq::ne is !eq"""
    import z3
    from .engine import Bool
    name = '<%s as PartialEq%s>::eq' % (m.group(1), m.group(2) or '')
    if eng.resolve(name) is None:
        return NotImplemented
    r = eng.do_call(name, args, fr, dty)
    if r.c is not None:
        return Bool(None, not r.c)
    return Bool(z3.Not(r.e))


@model(r'^(?:std|core)::slice::from_ref::<.*>$|^(?:std|core)::array::from_ref::<.*>$')
def _slice_from_ref(eng, m, args, fr, dty):
    """&T -> &[T] of length one (a view of a copy: the compiler only reads through it)"""
    from .engine import Slice, Ref, Cell, Vec
    v = eng.deref(args[0], fr)
    return Slice(Ref(Cell(Vec([v]))), 0, 1)


@model(r'^(std::option::)?Option::<.*>::(and|or|xor|zip)(::<.*>)?$')
def _option_and_or(eng, m, args, fr, dty):
    from .engine import NONE, Some, Tup
    a, b = args
    op = m.group(2)
    if op == 'and':
        return b if a.variant == 'Some' else NONE()
    if op == 'or':
        return a if a.variant == 'Some' else b
    if op == 'zip':
        return Some(Tup(a.fields[0], b.fields[0])) if a.variant == 'Some' and b.variant == 'Some' else NONE()
    if a.variant == 'Some' and b.variant == 'None':
        return a
    if a.variant == 'None' and b.variant == 'Some':
        return b
    return NONE()


@model(r'^<(num_bigint::)?Sign as PartialEq>::(eq|ne)$')
def _sign_eq(eng, m, args, fr, dty):
    from .engine import Cell, mkbool
    a, b = eng.deref(args[0], fr), eng.deref(args[1], fr)
    while isinstance(a, Cell):
        a = a.v
    while isinstance(b, Cell):
        b = b.v
    same = a.variant == b.variant
    return mkbool(same if m.group(2) == 'eq' else not same)


@model(r'^core::num::<impl (u8|u16|u32|u64|usize)>::div_ceil$')
def _div_ceil(eng, m, args, fr, dty):
    import z3
    from .engine import Int, mkint
    a, b = args[0], args[1]
    if a.c is not None and b.c is not None and b.c != 0:
        return mkint(-(-a.c // b.c), m.group(1))
    w = a.w
    q = z3.UDiv(a.e, b.e)
    return Int(z3.If(z3.URem(a.e, b.e) == 0, q, q + 1), w, False)
