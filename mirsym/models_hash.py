"""HashMap / HashSet / BTreeMap as association lists (order-free API only)."""
import re
import z3
from .engine import (Int, Big, Bool, Struct, Enum, Vec, Cell, Ref, Slice, Opaque, Closure, FnItem,
                     mkint, mkbool, concrete, Unsupported, PathEnd, deep_copy, Some, NONE, Ok, Err, UNIT, Tup)
from .models import model, items_of
from .models_vec import items_eq

MAP = r'(?:std::collections::)?(?:HashMap|HashSet|BTreeMap|BTreeSet)'


class MapV:
    def __init__(self, entries=None, is_set=False):
        self.entries = list(entries or [])      # [(key, Cell(value))]
        self.is_set = is_set

    def __repr__(self):
        return 'MapV(%r)' % (self.entries,)


def key_eq(eng, a, b, fr):
    a, b = eng.deref(a, fr), eng.deref(b, fr)
    if isinstance(a, Int) and isinstance(b, Int):
        return a.e == b.e
    if isinstance(a, (Vec, Slice)) and isinstance(b, (Vec, Slice)):
        return items_eq(eng, items_of(eng, a, fr), items_of(eng, b, fr))
    from .models_clvm import Tree, nodeptr_eq
    if isinstance(a, Tree) and isinstance(b, Tree):
        return nodeptr_eq(a, b)
    hook = eng.env.get('key_eq')
    if hook is not None:
        return hook(eng, a, b, fr)
    from .models_last import struct_eq
    return struct_eq(eng, a, b, fr)


def the_map(eng, r, fr):
    v = eng.deref(r, fr)
    if not isinstance(v, MapV):
        raise Unsupported('not a map: %r' % (v,))
    return v


def lookup(eng, mp, k, fr):
    """index of the entry whose key equals k, or None; forks once per feasible entry (model-guided)"""
    conds = []
    for i, (kk, cell) in enumerate(mp.entries):
        c = z3.simplify(key_eq(eng, kk, k, fr))
        if z3.is_true(c):
            return i
        if z3.is_false(c):
            continue
        conds.append((i, c))
    if not conds:
        return None
    opts = list(conds)
    opts.append((None, z3.And(*[z3.Not(c) for _, c in conds])))
    return eng.choose(opts)


def _is_set_name(name):
    """is the container named at the head of this callee a set? (generic arguments may mention sets too)"""
    head = name.lstrip('<')
    head = re.split(r'<|::<| as ', head, 1)[0]
    return head.split('::')[-1].endswith('Set')


@model(r'^' + MAP + r'::<.*>::new$|^<' + MAP + r'<.*> as Default>::default$')
def _map_new(eng, m, args, fr, dty):
    return MapV(is_set=_is_set_name(m.group(0)))


@model(r'^' + MAP + r'::<.*>::(get|get_mut|contains_key|contains)::<.*>$')
def _map_get(eng, m, args, fr, dty):
    mp = the_map(eng, args[0], fr)
    op = m.group(1)
    k0 = eng.deref(args[1], fr)
    if op in ('contains_key', 'contains') and isinstance(k0, Int) and mp.entries and all(isinstance(kk, Int) for kk, _ in mp.entries):
        return Bool(z3.Or(*[kk.e == k0.e for kk, _ in mp.entries]))
    i = lookup(eng, mp, args[1], fr)
    if op in ('contains_key', 'contains'):
        return mkbool(i is not None)
    if i is None:
        return NONE()
    return Some(Ref(mp.entries[i][1]))


@model(r'^' + MAP + r'::<.*>::insert$')
def _map_insert(eng, m, args, fr, dty):
    mp = the_map(eng, args[0], fr)
    k = args[1]
    i = lookup(eng, mp, k, fr)
    if mp.is_set:
        if i is None:
            mp.entries.append((k, Cell(UNIT)))
        return mkbool(i is None)
    v = args[2]
    if i is None:
        mp.entries.append((k, Cell(v)))
        return NONE()
    old = mp.entries[i][1].v
    mp.entries[i] = (mp.entries[i][0], Cell(v))
    return Some(old)


@model(r'^' + MAP + r'::<.*>::remove::<.*>$')
def _map_remove(eng, m, args, fr, dty):
    mp = the_map(eng, args[0], fr)
    i = lookup(eng, mp, args[1], fr)
    if i is None:
        return mkbool(False) if mp.is_set else NONE()
    k, c = mp.entries.pop(i)
    return mkbool(True) if mp.is_set else Some(c.v)


@model(r'^' + MAP + r'::<.*>::(len|is_empty)$')
def _map_len(eng, m, args, fr, dty):
    mp = the_map(eng, args[0], fr)
    if m.group(1) == 'len':
        return mkint(len(mp.entries), 'usize')
    return mkbool(not mp.entries)


@model(r'^<' + MAP + r'<.*> as Clone>::clone$')
def _map_clone(eng, m, args, fr, dty):
    mp = the_map(eng, args[0], fr)
    return MapV([(deep_copy(k), Cell(deep_copy(c.v))) for k, c in mp.entries], mp.is_set)


@model(r'^<' + MAP + r'<.*> as From<\[.*; \d+\]>>::from$')
def _map_from_array(eng, m, args, fr, dty):
    arr = eng.deref(args[0], fr)
    is_set = _is_set_name(m.group(0))
    mp = MapV(is_set=is_set)
    for it in arr.items:
        if is_set:
            if lookup(eng, mp, it, fr) is None:
                mp.entries.append((it, Cell(UNIT)))
        else:
            k, v = it.fields
            i = lookup(eng, mp, k, fr)
            if i is None:
                mp.entries.append((k, Cell(v)))
            else:
                mp.entries[i] = (mp.entries[i][0], Cell(v))
    return mp


# ---------------------------------------------------------------- iteration
# A HashMap iterates in an order that depends on the process's hash seeds.  The model iterates in insertion order
# unless the harness installs eng.env['map_order'](eng, mp) -> list of entry indices (a permutation), which is how a
# harness quantifies over iteration orders.  BTreeMap/BTreeSet iterate in key order: concrete byte-string / integer keys
# are sorted, anything else is unsupported.
def _is_btree(name):
    return 'BTree' in name.split(' as ')[0].split('::<')[0]


def _key_sort_val(eng, k, fr):
    k = eng.deref(k, fr)
    if isinstance(k, Int):
        c = concrete(k.e) if k.c is None else k.c
        if c is None:
            raise Unsupported('BTreeMap iteration with symbolic integer key')
        return (c,)
    if isinstance(k, (Vec, Slice)):
        out = []
        for b in items_of(eng, k, fr):
            if hasattr(b, 'conc'):
                c = b.conc()
            else:
                c = b.c if b.c is not None else concrete(b.e)
            if c is None:
                raise Unsupported('BTreeMap iteration with symbolic key bytes')
            out.append(c)
        return tuple(out)
    raise Unsupported('BTreeMap iteration over keys %r' % (k,))


def ordered(eng, mp, name, fr):
    idx = list(range(len(mp.entries)))
    if _is_btree(name):
        idx.sort(key=lambda i: _key_sort_val(eng, mp.entries[i][0], fr))
        return idx
    hook = eng.env.get('map_order')
    if hook is not None:
        return hook(eng, mp)
    return idx


@model(r'^' + MAP + r'::<.*>::(iter|iter_mut|keys|values|values_mut|into_keys|into_values|drain)$|^<&(mut )?' + MAP + r'<.*> as IntoIterator>::into_iter$|^<' + MAP + r'<.*> as IntoIterator>::into_iter$')
def _map_iter(eng, m, args, fr, dty):
    from .models_vec import IterV
    mp = the_map(eng, args[0], fr)
    name = m.group(0)
    op = m.group(1)
    if op is None:
        op = 'iter' if name.startswith('<&') else 'into_iter'
    out = []
    for i in ordered(eng, mp, name, fr):
        k, c = mp.entries[i]
        if mp.is_set:
            out.append(Cell(k) if op in ('into_iter', 'drain') else Cell(Ref(Cell(k))))
        elif op in ('iter', 'iter_mut'):
            out.append(Cell(Tup(Ref(Cell(k)), Ref(c))))
        elif op == 'keys':
            out.append(Cell(Ref(Cell(k))))
        elif op in ('values', 'values_mut'):
            out.append(Cell(Ref(c)))
        elif op == 'into_keys':
            out.append(Cell(k))
        elif op == 'into_values':
            out.append(Cell(c.v))
        else:
            out.append(Cell(Tup(k, c.v)))
    if op == 'drain':
        mp.entries = []
    return IterV(out, owned=True)


@model(r'^' + MAP + r'::<.*>::(difference|intersection|union|is_subset|is_disjoint)(::<.*>)?$')
def _set_ops(eng, m, args, fr, dty):
    from .models_vec import IterV
    a = the_map(eng, args[0], fr)
    b = the_map(eng, args[1], fr)
    op = m.group(1)
    name = m.group(0)
    out = []
    if op in ('difference', 'intersection', 'is_subset', 'is_disjoint'):
        want_in = op in ('intersection',)
        for i in ordered(eng, a, name, fr):
            k = a.entries[i][0]
            inb = lookup(eng, b, k, fr) is not None
            if op == 'is_subset':
                if not inb:
                    return mkbool(False)
            elif op == 'is_disjoint':
                if inb:
                    return mkbool(False)
            elif inb == want_in:
                out.append(Cell(Ref(Cell(k))))
        if op in ('is_subset', 'is_disjoint'):
            return mkbool(True)
        return IterV(out, owned=True)
    for i in ordered(eng, a, name, fr):
        out.append(Cell(Ref(Cell(a.entries[i][0]))))
    for i in ordered(eng, b, name, fr):
        k = b.entries[i][0]
        if lookup(eng, a, k, fr) is None:
            out.append(Cell(Ref(Cell(k))))
    return IterV(out, owned=True)


@model(r'^<' + MAP + r'<.*> as Extend<.*>>::extend::<.*>$')
def _map_extend(eng, m, args, fr, dty):
    from .models_vec import IterV, drain
    mp = the_map(eng, args[0], fr)
    src = args[1]
    if isinstance(src, MapV):
        items = [(k, c.v) for k, c in src.entries]
    else:
        if not isinstance(src, IterV):
            src = eng.deref(src, fr)
        if isinstance(src, Vec):
            vals = list(src.items)
        elif isinstance(src, IterV):
            vals = drain(eng, src, fr)
        else:
            raise Unsupported('extend from %r' % (src,))
        items = []
        for v in vals:
            if mp.is_set:
                items.append((eng.deref(v, fr) if isinstance(v, Ref) else v, UNIT))
            else:
                v = eng.deref(v, fr) if isinstance(v, Ref) else v
                k, val = v.fields
                items.append((k, val))
    for k, v in items:
        i = lookup(eng, mp, k, fr)
        if i is None:
            mp.entries.append((k, Cell(v)))
        elif not mp.is_set:
            mp.entries[i] = (mp.entries[i][0], Cell(v))
    return UNIT


# ---------------------------------------------------------------- Entry API
class EntryV:
    def __init__(self, mp, key, idx):
        self.mp, self.key, self.idx = mp, key, idx


@model(r'^' + MAP + r'::<.*>::entry$')
def _map_entry(eng, m, args, fr, dty):
    mp = the_map(eng, args[0], fr)
    return EntryV(mp, args[1], lookup(eng, mp, args[1], fr))


@model(r'^(?:std::collections::(?:hash_map|btree_map)::)?Entry::<.*>::(or_insert|or_insert_with|or_default|or_insert_with_key)(::<.*>)?$')
def _entry_or_insert(eng, m, args, fr, dty):
    e = args[0]
    op = m.group(1)
    if e.idx is None:
        if op == 'or_insert':
            v = args[1]
        elif op == 'or_insert_with':
            v = eng.call_value(args[1], [], fr)
        elif op == 'or_insert_with_key':
            v = eng.call_value(args[1], [Ref(Cell(e.key))], fr)
        else:
            vt = m.group(0)
            raise Unsupported('Entry::or_default needs the value type: ' + vt)
        e.mp.entries.append((e.key, Cell(v)))
        e.idx = len(e.mp.entries) - 1
    return Ref(e.mp.entries[e.idx][1])


@model(r'^(?:std::collections::(?:hash_map|btree_map)::)?Entry::<.*>::and_modify::<.*>$')
def _entry_and_modify(eng, m, args, fr, dty):
    e = args[0]
    if e.idx is not None:
        eng.call_value(args[1], [Ref(e.mp.entries[e.idx][1])], fr)
    return e


@model(r'^' + MAP + r'::<.*>::clear$')
def _map_clear(eng, m, args, fr, dty):
    the_map(eng, args[0], fr).entries = []
    return UNIT


@model(r'^' + MAP + r'::<.*>::(with_capacity|with_hasher|with_capacity_and_hasher)$')
def _map_with_capacity(eng, m, args, fr, dty):
    return MapV(is_set=_is_set_name(m.group(0)))


@model(r'^<' + MAP + r'<.*> as FromIterator<.*>>::from_iter::<.*>$')
def _map_from_iter(eng, m, args, fr, dty):
    mp = MapV(is_set=_is_set_name(m.group(0)))
    _map_extend(eng, m, [Ref(Cell(mp)), args[0]], fr, dty)
    return mp


@model(r'^<' + MAP + r'<.*> as (?:std::ops::)?Index<.*>>::index$')
def _map_index(eng, m, args, fr, dty):
    mp = the_map(eng, args[0], fr)
    i = lookup(eng, mp, args[1], fr)
    if i is None:
        raise PathEnd('panic', 'HashMap index: key not found')
    return Ref(mp.entries[i][1])
