"""HashMap / HashSet / BTreeMap as association lists (order-free API only)."""
import re
import z3
from .engine import (Int, Big, Bool, Struct, Enum, Vec, Cell, Ref, Slice, Opaque, Closure, FnItem,
                     mkint, mkbool, concrete, Unsupported, PathEnd, deep_copy, Some, NONE, Ok, Err, UNIT, Tup)
from .models import model, items_of
from .models_vec import items_eq

MAP = r'(?:std::collections::)?(?:HashMap|HashSet|BTreeMap|BTreeSet)'


class MapV:
    def __init__(self, entries=None, is_set=False):
        self.entries = list(entries or [])      # [(key, Cell(value))]
        self.is_set = is_set

    def __repr__(self):
        return 'MapV(%r)' % (self.entries,)


def key_eq(eng, a, b, fr):
    a, b = eng.deref(a, fr), eng.deref(b, fr)
    if isinstance(a, Int) and isinstance(b, Int):
        return a.e == b.e
    if isinstance(a, (Vec, Slice)) and isinstance(b, (Vec, Slice)):
        return items_eq(eng, items_of(eng, a, fr), items_of(eng, b, fr))
    from .models_clvm import Tree, nodeptr_eq
    if isinstance(a, Tree) and isinstance(b, Tree):
        return nodeptr_eq(a, b)
    hook = eng.env.get('key_eq')
    if hook is not None:
        return hook(eng, a, b, fr)
    from .models_last import struct_eq
    return struct_eq(eng, a, b, fr)


def the_map(eng, r, fr):
    v = eng.deref(r, fr)
    if not isinstance(v, MapV):
        raise Unsupported('not a map: %r' % (v,))
    return v


def lookup(eng, mp, k, fr):
    """index of the entry whose key equals k, or None; forks once per feasible entry (model-guided)"""
    conds = []
    for i, (kk, cell) in enumerate(mp.entries):
        c = z3.simplify(key_eq(eng, kk, k, fr))
        if z3.is_true(c):
            return i
        if z3.is_false(c):
            continue
        conds.append((i, c))
    if not conds:
        return None
    opts = list(conds)
    opts.append((None, z3.And(*[z3.Not(c) for _, c in conds])))
    return eng.choose(opts)


@model(r'^' + MAP + r'::<.*>::new$|^<' + MAP + r'<.*> as Default>::default$')
def _map_new(eng, m, args, fr, dty):
    return MapV(is_set='Set' in m.group(0))


@model(r'^' + MAP + r'::<.*>::(get|get_mut|contains_key|contains)::<.*>$')
def _map_get(eng, m, args, fr, dty):
    mp = the_map(eng, args[0], fr)
    op = m.group(1)
    k0 = eng.deref(args[1], fr)
    if op in ('contains_key', 'contains') and isinstance(k0, Int) and mp.entries and all(isinstance(kk, Int) for kk, _ in mp.entries):
        return Bool(z3.Or(*[kk.e == k0.e for kk, _ in mp.entries]))
    i = lookup(eng, mp, args[1], fr)
    if op in ('contains_key', 'contains'):
        return mkbool(i is not None)
    if i is None:
        return NONE()
    return Some(Ref(mp.entries[i][1]))


@model(r'^' + MAP + r'::<.*>::insert$')
def _map_insert(eng, m, args, fr, dty):
    mp = the_map(eng, args[0], fr)
    k = args[1]
    i = lookup(eng, mp, k, fr)
    if mp.is_set:
        if i is None:
            mp.entries.append((k, Cell(UNIT)))
        return mkbool(i is None)
    v = args[2]
    if i is None:
        mp.entries.append((k, Cell(v)))
        return NONE()
    old = mp.entries[i][1].v
    mp.entries[i] = (mp.entries[i][0], Cell(v))
    return Some(old)


@model(r'^' + MAP + r'::<.*>::remove::<.*>$')
def _map_remove(eng, m, args, fr, dty):
    mp = the_map(eng, args[0], fr)
    i = lookup(eng, mp, args[1], fr)
    if i is None:
        return mkbool(False) if mp.is_set else NONE()
    k, c = mp.entries.pop(i)
    return mkbool(True) if mp.is_set else Some(c.v)


@model(r'^' + MAP + r'::<.*>::(len|is_empty)$')
def _map_len(eng, m, args, fr, dty):
    mp = the_map(eng, args[0], fr)
    if m.group(1) == 'len':
        return mkint(len(mp.entries), 'usize')
    return mkbool(not mp.entries)


@model(r'^<' + MAP + r'<.*> as Clone>::clone$')
def _map_clone(eng, m, args, fr, dty):
    mp = the_map(eng, args[0], fr)
    return MapV([(deep_copy(k), Cell(deep_copy(c.v))) for k, c in mp.entries], mp.is_set)
