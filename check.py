"""Entry point: ./check <id> [--tier quick|thorough] [--replay <file>]"""
import argparse
import json
import os
import sys
import threading

sys.path.insert(0, os.path.dirname(os.path.abspath(__file__)))

# CPython 3.11 mmaps/munmaps a 16 KiB frame-stack chunk every time the call depth crosses a chunk boundary; mirsym does
# that ~300k times per compilation, and in this sandbox the resulting page faults serialise across processes (measured:
# 16 workers ran no faster than 2).  mirsym/fastalloc.py installs an arena allocator that keeps those chunks.
from mirsym import fastalloc
fastalloc.install()


def main():
    ap = argparse.ArgumentParser()
    ap.add_argument('prop')
    ap.add_argument('--tier', default=os.environ.get('VERIF_TIER', 'quick'), choices=['quick', 'thorough'])
    ap.add_argument('--replay')
    ap.add_argument('--jobs', type=int, default=None)
    ap.add_argument('--only', default=None, help='comma separated harness names')
    a = ap.parse_args()
    seed = int(os.environ.get('VERIF_SEED', '0') or 0)
    from checks import REGISTRY
    if a.prop not in REGISTRY:
        print('unknown property %s (claimed: %s)' % (a.prop, ' '.join(sorted(REGISTRY))))
        return 2
    if a.replay:
        from mirsym import driver
        d = json.load(open(a.replay))
        hs = [h for h in REGISTRY[d['property']]['harnesses']() if h.name == d['harness']]
        h = hs[0]
        nat = driver.native_run(h, [dict(case=d['case'], inputs=d.get('native_inputs') or driver.nat_inputs(h, d['case'], d['inputs'], d.get('predicted')))])[0]
        bad = h.is_violation(d['case'], d['inputs'], nat)
        print('replay %s: inputs=%s native=%s expected=%s -> %s' % (a.replay, json.dumps(d['inputs']), json.dumps(nat),
                                                                      json.dumps(h.oracle(d['case'], d['inputs'])),
                                                                      'VIOLATION reproduced' if bad else 'holds'))
        if bad:
            print('VIOLATION property=%s replay=%s' % (d['property'], a.replay))
        return 1 if bad else 0
    return REGISTRY[a.prop]['run'](a.tier, seed, a.jobs, a.only)


if __name__ == '__main__':
    box = {}

    def target():
        box['rc'] = main()
    t = threading.Thread(target=target)
    t.start()
    t.join()
    sys.exit(box.get('rc', 2))
