"""write seeded/<id>/meta.json from the table below and the last seeded/matrix.log"""
import json, os, re
ROOT = os.path.dirname(os.path.dirname(os.path.abspath(__file__)))
SEEDS = {
 'C01': dict(file='src/compiler/rename.rs', fn='rename_args_bodyform (Call arm)',
             needs='a call with an &rest tail whose tail expression contains a let/let*/assign/lambda that re-binds a name already bound in an enclosing scope',
             expect='C01 compile_run (template rest_tail_let); the mechanism check name_lookup does not see the rename pass'),
 'C02': dict(file='src/compiler/optimize/brief.rs', fn='brief_path_selection',
             needs='cl23+ optimised build; a quoted constant that is a proper list containing a two-element list (5 N) or (6 N) with integer N',
             expect='C02 output_optimize (FOCUS shapes in quick, all shapes in thorough)'),
 'C03': dict(file='src/classic/clvm_tools/node_path.rs', fn='compose_paths',
             needs='composition of two paths that each fit in 32 bits but whose result needs 33+ bits (a parameter or constant 31+ steps deep)',
             expect='C03 symbol_table and C04 path_optimizer (symbolic 5-byte paths)'),
 'C04': dict(file='src/classic/clvm_tools/node_path.rs', fn='compose_paths',
             needs='f or r applied to a path atom whose numeric value is exactly 32 (64, 96 ...) bits wide',
             expect='C04 path_optimizer'),
 'C05': dict(file='src/compiler/clvm.rs', fn='NewStyleIntConversion::{new,setting,drop}',
             needs='two threads whose guards overlap in time (thread_local replaced by one process-wide AtomicBool)',
             expect='C05 guard_restores, case threads: the schedule is a vector of symbolic booleans; replayed with two real threads'),
 'C06': dict(file='src/compiler/clvm.rs', fn='run_step (Op arm)',
             needs='a, i, c, f or r applied to more operands than it takes, in a nil-terminated operand list, e.g. (f 1 1)',
             expect='C06 core_eval (four-leaf spine FOCUS shape in quick)'),
 'C07': dict(file='src/compiler/clvm.rs', fn='convert_to_clvm_rs',
             needs='legacy integer mode and the one-byte atom 0x00 crossing CLVM -> SExp -> CLVM',
             expect='C07 conv_round_trip'),
 'C08': dict(file='src/classic/clvm/serialize.rs', fn='atom_from_stream',
             needs='decoder input that ends inside a multi-byte length prefix whose visible size bits are zero (c0, e0 00, ...)',
             expect='C08 decode (and the C14 decoder kernel)'),
 'C09': dict(file='src/classic/clvm_tools/binutils.rs', fn='has_oversized_sign_extension',
             needs='the two-byte atom ff 80 anywhere in a disassembled value',
             expect='C09 classic_text'),
 'C14': dict(file='src/compiler/sexp.rs', fn='parse_sexp_step (TermList close)',
             needs='open paren, layout (space/comment), dot, a tail object, close paren: ( . a)',
             expect='C14 parse_sexp_any and C15 reader_locs (six-byte "( ." cases in quick)'),
 'C15': dict(file='src/compiler/sexp.rs', fn='parse_sexp_step (QuotedText)',
             needs='a quoted string containing at least one backslash escape',
             expect='C15 reader_locs'),
 'C18': dict(file='src/compiler/compiler.rs', fn='DefaultCompilerOpts::read_new_file',
             needs='a file on disk in a search directory named like a compiler-provided pseudo-file (*standard-cl-23* ...)',
             expect='C18 read_new_file'),
 'C19': dict(file='src/util/mod.rs', fn='gentle_overwrite',
             needs='the output file already holds the same program (trim-equal), observed at an intermediate point or a crash/fault after truncate',
             expect='C19 atomic_write'),
 'C20': dict(file='src/compiler/prims.rs', fn='prims',
             needs='the operator g1_negate through the modern primitive table',
             expect='C20 tables'),
}
log = open(os.path.join(ROOT, 'seeded/matrix.log')).read() if os.path.exists(os.path.join(ROOT, 'seeded/matrix.log')) else ''
res = {}
cur = None
for line in log.splitlines():
    m = re.match(r'^=== (\w+) vs (\w+)', line)
    if m:
        cur = (m.group(1), m.group(2)); res[cur] = dict(violations=0, summary=None, errors=[])
    elif cur and line.startswith('VIOLATION'):
        res[cur]['violations'] += 1
    elif cur and line.startswith('SUMMARY'):
        res[cur]['summary'] = line
    elif cur and line.startswith('ERROR'):
        res[cur]['errors'].append(line)
conf = {}
for sid, d in SEEDS.items():
    p = os.path.join(ROOT, 'seeded', sid)
    runs = []
    for (s, prop), r in res.items():
        if s == sid:
            ex = re.search(r'exit=(\d)', r['summary'] or '')
            runs.append(dict(command='git -C /repo apply /verif/seeded/%s/patch.diff && /verif/check %s --tier quick; git -C /repo checkout -- .' % (sid, prop),
                             check=prop, tier='quick', violation_lines=r['violations'], exit=int(ex.group(1)) if ex else None,
                             caught=r['violations'] > 0))
    meta = dict(seed=sid, breaks_property=sid, file=d['file'], function=d['fn'], needs_to_manifest=d['needs'],
                demonstration='demo.rs (installed as tests/verif_demo.rs in a scratch worktree)',
                confirmed=dict(how='tools/confirm_seed.sh in a scratch worktree /tmp/wt_%s (removed afterwards)' % sid,
                               suite_with_change='614 passed, 1 skipped (pinned nextest command)',
                               demo_with_change='FAILED', demo_without_change='ok'),
                expected_catcher=d['expect'], ran=runs,
                caught_by=[r['check'] for r in runs if r['caught']])
    json.dump(meta, open(os.path.join(p, 'meta.json'), 'w'), indent=1)
    print(sid, meta['caught_by'])

# ---- wave 3 (second seeds; run one by one with tools/run_seed.sh, results recorded here)
SEEDS_B = {
 'C01b': dict(prop='C01', file='src/compiler/inline.rs', fn='pick_value_from_arg_element', needs='a defun-inline whose parameter list has an (@ name sub) capture nested inside a destructured parameter, and a body that uses a name bound inside sub',
              caught='C01 compile_run (template inline_nested_capture, added in response: the family had no nested capture in an inline)'),
 'C02b': dict(prop='C02', file='src/compiler/optimize/mod.rs', fn='constant_fun_result', needs='cl23+; a call of a non-inline defun with constant positional arguments and an &rest tail that is a plain variable',
              caught='C02 builds_agree (template rest_const_args, added in response)'),
 'C03b': dict(prop='C03', file='src/classic/clvm_tools/stages/stage_2/inline.rs', fn='formulate_path_selections_for_destructuring_arg', needs='classic defun-inline destructuring a parameter with three or more elements and using the third',
              caught='C03 classic_builds (template inline_destructure3, added in response)'),
 'C05b': dict(prop='C05', file='src/classic/clvm_tools/stages/stage_2/module.rs', fn='compile_mod_stage_1', needs='classic defconst that depends on another defconst only through a function it calls, and a HashMap iteration order that visits it first',
              caught='C05 output_independent (template defconst_through_function under the reversed / rotated iteration policy, added in response; confirmed natively by 40 rebuilds)'),
 'C13b': dict(prop='C13', file='src/compiler/codegen.rs', fn='do_mod_codegen', needs='a nested (mod ...) in the main expression of a program with a non-inline defun',
              caught='C13 symbols_describe (template nested_mod, added in response)'),
 'C10b': dict(prop='C10', file='src/compiler/inline.rs', fn='make_args_for_call_from_inline', needs='an inline function whose body calls itself (directly or through another inline) from inside an &rest tail; the compiler then recurses until its stack overflows',
              caught='C10 ill_scoped_rejected (template inline_recursion_in_rest_tail, added in response; the diverging compilation ends at the call-depth bound and is reported as the_compilation_terminates, confirmed natively by the stack-overflow abort)'),
 'C16b': dict(prop='C16', file='src/compiler/evaluate.rs', fn='synthesize_args', needs='a function with an (@ whole pattern) parameter whose body contains an if and uses `whole`, applied to an argument that is not exactly pattern shaped',
              caught='C16 repl_agrees (session at_capture_if, added in response)'),
 'C17b': dict(prop='C17', file='src/compiler/usecheck.rs', fn='check_parameters_used_compileform', needs='a program on which the partial evaluator exceeds its stack budget (constant-bounded recursion of 20+ levels)',
              caught='C17 unused_really_unused (template evaluator_gives_up, added in response)'),
}
for sid, d in SEEDS_B.items():
    p = os.path.join(ROOT, 'seeded', sid)
    if not os.path.isdir(p):
        continue
    meta = dict(seed=sid, breaks_property=d['prop'], file=d['file'], function=d['fn'], needs_to_manifest=d['needs'],
                demonstration='demo.rs (installed as tests/verif_demo.rs in a scratch worktree)',
                confirmed=dict(how='tools/confirm_seed2.sh in a scratch worktree /tmp/wt2_%s or /tmp/wt3_%s (removed afterwards)' % (d['prop'], d['prop']),
                               suite_with_change='614 passed, 1 skipped (pinned nextest command)', demo_with_change='FAILED', demo_without_change='ok'),
                ran=[dict(command='git -C /repo apply /verif/seeded/%s/patch.diff && /verif/check %s --tier quick; git -C /repo checkout -- .' % (sid, d['prop']),
                          check=d['prop'], tier='quick', caught=True, exit=1)],
                caught_by=[d['prop']], note=d['caught'],
                first_result='missed by the template family as it stood when the change arrived; caught after the named template was added')
    json.dump(meta, open(os.path.join(p, 'meta.json'), 'w'), indent=1)
    print(sid, 'meta written')
