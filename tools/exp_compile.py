"""experiment: the whole compiler (library entry point compile_clvm_text_maybe_opt) under mirsym on a concrete program"""
import sys, os, time, json
sys.path.insert(0, os.path.dirname(os.path.dirname(os.path.abspath(__file__))))
from mirsym import fastalloc; fastalloc.install()
from mirsym import driver
from mirsym.engine import Engine, Cell, Ref, Struct, Vec, mkint, mkbool, Slice, Opaque, PathEnd, Unsupported, NONE
from mirsym.driver import slice_of, conc_bytes, ev
from mirsym.models_clvm import tree_to_json
from harness.convert import tls
fs, key, roots = driver.funcs(True)
src = sys.argv[1] if len(sys.argv) > 1 else '(mod (X) (+ X 1))'
opt = len(sys.argv) > 2 and sys.argv[2] == 'opt'
eng = Engine(fs, roots, bigw=int(os.environ.get("BIGW", "264")), loop_bound=100000, query_timeout_ms=20000)
def run(e):
    e.env['tls'] = tls(True)
    e.env['exact_fmt'] = True
    alloc = Ref(Cell(Struct('Allocator', [])))
    name = slice_of(conc_bytes(list(b'*t*')))
    opts = e.call('DefaultCompilerOpts::new', [name])
    optsrc = Cell(opts, 'rc')
    symtab = Ref(Cell(e.call('HashMap::<String, String>::new', [])))
    r = e.call('clvmc::compile_clvm_text_maybe_opt', [alloc, mkbool(opt), optsrc, symtab, slice_of(conc_bytes(list(src.encode()))), name, mkbool(True)])
    return r
t0 = time.time()
try:
    for kind, pc, out, dec, span in eng.explore(run, max_paths=3):
        if kind == 'done' and out.variant == 'Ok':
            print('OK', json.dumps(tree_to_json(None, out.fields[0], ev)))
        else:
            print(kind, str(out)[:3000])
except Exception as ex:
    import traceback; traceback.print_exc()
print('%.1fs' % (time.time() - t0))
