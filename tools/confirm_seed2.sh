#!/bin/sh
# confirm a wave-3 seeded change produced in /tmp/wt2_<ID>
ID=$1
WT=/tmp/wt2_$ID
export RUSTUP_TOOLCHAIN=stable-x86_64-unknown-linux-gnu CARGO_NET_OFFLINE=true
cd $WT || exit 2
git diff -- src > /tmp/seed2_$ID.diff
[ -s /tmp/seed2_$ID.diff ] || { echo "NO SOURCE CHANGE"; exit 2; }
mkdir -p /tmp/demo_hold2_$ID; [ -f tests/verif_demo.rs ] && mv tests/verif_demo.rs /tmp/demo_hold2_$ID/
echo "== suite with change"
cargo nextest run --workspace --no-fail-fast --tool-config-file pb:/w/lib/nextest.toml --profile pb --test-threads 8 --offline 2>&1 | grep -E "Summary|FAIL" | head -5
mv /tmp/demo_hold2_$ID/verif_demo.rs tests/
echo "== demo with change (expect FAILED)"
cargo test --offline --test verif_demo 2>&1 | grep -E "^test result|error\[" | head -3
git apply -R /tmp/seed2_$ID.diff
echo "== demo without change (expect ok)"
cargo test --offline --test verif_demo 2>&1 | grep -E "^test result|error\[" | head -3
git apply /tmp/seed2_$ID.diff
echo "== done"
