import sys, json, time
sys.path.insert(0,'/verif')
from checks import REGISTRY
from mirsym import driver
prop, hname, case = sys.argv[1], sys.argv[2], json.loads(sys.argv[3])
tier = sys.argv[4] if len(sys.argv) > 4 else 'quick'
h = [x for x in REGISTRY[prop]['harnesses']() if x.name == hname][0]
driver.funcs(h.with_clvmr)
r = driver.run_case((h, case, tier, [], None))
print([ (v['ob'], v['inputs'], v.get('predicted')) for v in r['violations'][:3]]); print(json.dumps(case), r['paths'], 'obl', r['obligations'], 'dis', r['discharged'], 'viol', len(r['violations']), 'inc', r['inconclusive'][:2], 'err', r['error'], '%.1fs' % r['wall_s'])
