"""debug helper: run a harness's concrete vectors through mirsym only and show the first problems.
usage: python3-vt tools/try.py C04 path_optimizer [tier] [--sym]  (--sym: explore symbolically, serial)"""
import sys, os, json, random, collections
sys.path.insert(0, os.path.dirname(os.path.dirname(os.path.abspath(__file__))))
from checks import REGISTRY
from mirsym import driver

prop, hname = sys.argv[1], sys.argv[2]
tier = sys.argv[3] if len(sys.argv) > 3 and not sys.argv[3].startswith('--') else 'quick'
h = [x for x in REGISTRY[prop]['harnesses']() if x.name == hname][0]
driver.funcs(h.with_clvmr)
rnd = random.Random(0)
if '--sym' in sys.argv:
    for case in h.cases(tier):
        r = driver.run_case((h, case, tier, [], None))
        print(json.dumps(case), r['paths'], 'obl', r['obligations'], 'dis', r['discharged'], 'viol', r['violations'][:2],
              'inc', r['inconclusive'][:2], 'err', r['error'], '%.1fs' % r['wall_s'])
    sys.exit(0)
seen = collections.Counter()
for case in h.cases(tier):
    for j in h.vectors(case, rnd):
        try:
            out = driver.run_concrete(h, case, j, tier)
        except Exception as e:
            import traceback; traceback.print_exc()
            out = {'end': 'exception', 'msg': str(e)}
        if isinstance(out, dict) and 'end' in out:
            k = out.get('msg', '')[:150]
            out['msg'] = out.get('msg', '')
            seen[k] += 1
            if seen[k] == 1:
                print(json.dumps(case), json.dumps(j), out)
print(sum(seen.values()), 'problems', len(seen), 'distinct')
