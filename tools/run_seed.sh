#!/bin/sh
# apply a seeded change to /repo, run the given checks (quick tier unless TIER is set), undo the change
# usage: tools/run_seed.sh <seed dir name> <prop id>...
SEED=$1; shift
cd /verif
git -C /repo diff --quiet || { echo "/repo is not clean"; exit 2; }
git -C /repo apply /verif/seeded/$SEED/patch.diff || { echo "patch does not apply"; exit 2; }
for P in "$@"; do
  echo "=== $SEED vs $P"
  timeout ${TMO:-1800} ./check $P --tier ${TIER:-quick} $CHECK_ARGS 2>&1 | grep -E "VIOLATION|KNOWN-FINDING|SUMMARY|ERROR|CONFORMANCE" | cut -c1-400 | awk '/^VIOLATION/{v++; if (v>3) next} {print}'
done
git -C /repo checkout -- .
git -C /repo status --short
