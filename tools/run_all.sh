#!/bin/sh
# run every claimed check (quick tier unless TIER is set) against /repo's current tree; one summary line per property
cd /verif
for P in $(python3 -c "import json;print(' '.join(c['property_id'] for c in json.load(open('MANIFEST.json'))['checks']))"); do
  S=$(date +%s)
  ./check $P --tier ${TIER:-quick} > /verif/.cache/last_$P.log 2>&1
  RC=$?
  echo "$P rc=$RC $(( $(date +%s) - S ))s $(grep -c '^VIOLATION' /verif/.cache/last_$P.log) violations, $(grep -c '^KNOWN-FINDING' /verif/.cache/last_$P.log) known; $(grep '^SUMMARY' /verif/.cache/last_$P.log | cut -c1-160)"
done
