"""write seeded/<id>/meta.json and README.md for the fifth wave from the table below and seeded/matrix5.log"""
import json, os, re
ROOT = os.path.dirname(os.path.dirname(os.path.abspath(__file__)))
SEEDS = {
 'C04b': dict(prop='C04', file='src/classic/clvm_tools/stages/stage_2/optimize.rs', fn='var_change_optimizer_cons_eval',
              needs='(a (q . PATH) (c X (q . DATA))) where the path selects a quoted proper list whose elements look like reducible code, e.g. (a (q . 3) (c 2 (q . ((r 1))))): the constant test was moved before the substitution, so the exposed quoted data is optimised as operands',
              expect='C04 optimize_sexp (change-of-variables skeletons, added in response)'),
 'C06b': dict(prop='C06', file='src/compiler/clvm.rs', fn='flatten_signed_int',
              needs='a path atom whose signed reading is negative with a magnitude that does not fill its bytes (0xff01..0xff7f = -255..-129, and so on at each byte boundary) in an environment deep enough to tell the two readings apart (15 steps)',
              expect='C06 path_lookup (spines of depth 15/16, added in this wave)'),
 'C07b': dict(prop='C07', file='src/compiler/clvm.rs', fn='convert_from_clvm_rs',
              needs='a CLVM atom with a redundant 0xff sign-extension byte (ff 80): the structural padding test forgets the negative case, so the atom becomes Integer(-128) and comes back as 80',
              expect='C07 conv_roundtrip'),
 'C08b': dict(prop='C08', file='src/classic/clvm/casts.rs', fn='int_from_bytes',
              needs='a five- or six-byte atom size field (prefix f8..fd): the rewritten word loop drops the offset of the leading remainder bytes',
              expect='C08 decode / int_from_bytes'),
 'C09b': dict(prop='C09', file='src/classic/clvm_tools/binutils.rs', fn='is_printable_string',
              needs='an atom of three or more otherwise printable bytes containing tab, newline, form feed or carriage return: printed as a quoted string with an escape the reader does not decode ("hello\\n" -> hellon)',
              expect='C09 classic_text'),
 'C12b': dict(prop='C12', file='src/compiler/clvm.rs', fn='run_step (Op arm)',
              needs='raw CLVM that applies a, i, c, f or r to more operands than it takes, e.g. (f (q . (1 . 2)) (q . 3)): the debugger reports a row and a final value where the consensus evaluator fails (same site as the first-wave C06 change, written independently against C12)',
              expect='C12 raw_trace (added in this wave: compiled templates never contain surplus operands)'),
 'C15b': dict(prop='C15', file='src/compiler/srcloc.rs + src/compiler/sexp.rs', fn='Srcloc::through (new) used by parse_sexp_step',
              needs='a range the reader builds across a newline (a quoted string or an unterminated list spanning lines): the end line is copied from the start',
              expect='C15 reader_locs'),
 'C19b': dict(prop='C19', file='src/util/mod.rs', fn='atomic_write_file',
              needs='an observer or a crash between the rename and the function return: the data goes through a BufWriter that is never flushed before persist, so an empty file is renamed over the target and filled when the writer is dropped',
              expect='C19 atomic_write (BufWriter / into_parts / in-place writes modelled in response; before that the run ended as unsupported code, exit 2)'),
}
log = open(os.path.join(ROOT, 'seeded/matrix5.log')).read()
res, cur = {}, None
for line in log.splitlines():
    m = re.match(r'^=== (\w+) vs (\w+)(.*)', line)
    if m:
        cur = (m.group(1), m.group(2)); res.setdefault(cur, []).append(dict(violations=0, summary=None, errors=[], note=m.group(3).strip()))
    elif cur and line.startswith('VIOLATION'):
        res[cur][-1]['violations'] += 1
    elif cur and line.startswith('SUMMARY'):
        res[cur][-1]['summary'] = line
    elif cur and line.startswith('ERROR'):
        res[cur][-1]['errors'].append(line[:200])
for sid, d in SEEDS.items():
    runs = res.get((sid, d['prop']), [])
    ran = []
    for r in runs:
        ex = re.search(r'exit=(\d+)', r['summary'] or '')
        ran.append(dict(command='git -C /repo apply /verif/seeded/%s/patch.diff && /verif/check %s --tier quick %s; git -C /repo checkout -- .' % (sid, d['prop'], r['note']),
                        check=d['prop'], tier='quick', violations_printed=r['violations'], exit=int(ex.group(1)) if ex else None,
                        caught=bool(r['violations']) and ex is not None and ex.group(1) == '1', errors=r['errors']))
    meta = dict(seed=sid, breaks_property=d['prop'], file=d['file'], function=d['fn'], needs_to_manifest=d['needs'],
                demonstration='demo.rs (installed as tests/verif_demo.rs in a scratch worktree)',
                confirmed=dict(how='tools/confirm_seed5.sh in the scratch worktree /tmp/wt5_%s (removed afterwards)' % d['prop'],
                               suite_with_change='614 passed, 1 skipped (pinned nextest command)', demo_with_change='FAILED', demo_without_change='ok'),
                ran=ran, caught_by=[d['prop']] if ran and ran[-1]['caught'] else [], note=d['expect'],
                first_result=('caught by the quick tier as it stood' if ran and ran[0]['caught'] else 'not caught by the check as it stood when the change arrived (%s)' % ('exit 2: unsupported code' if ran and ran[0]['exit'] == 2 else 'exit 0')))
    os.makedirs(os.path.join(ROOT, 'seeded', sid), exist_ok=True)
    json.dump(meta, open(os.path.join(ROOT, 'seeded', sid, 'meta.json'), 'w'), indent=1)
    open(os.path.join(ROOT, 'seeded', sid, 'README.md'), 'w').write('# %s\n\nBreaks %s.  %s: `%s`.\n\nNeeds: %s\n\nExpected to be seen by: %s\n' % (sid, d['prop'], d['file'], d['fn'], d['needs'], d['expect']))
    print(sid, [(r['exit'], r['violations_printed']) for r in ran])
