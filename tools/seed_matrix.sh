#!/bin/sh
# run every kept seeded change against the checks that should notice it (quick tier); log to seeded/matrix.log
cd /verif
: > seeded/matrix.log
run() { S=$1; shift; TMO=3400 tools/run_seed.sh $S "$@" 2>&1 | grep -E "^===|VIOLATION|SUMMARY|ERROR|not clean|does not apply" | cut -c1-220 >> seeded/matrix.log; }
run C01 C01
run C01b C01
run C02 C02
run C02b C02
run C03 C03 C04
run C03b C03
run C04 C04
run C05 C05
run C05b C05
run C06 C06
run C07 C07
run C08 C08 C14
run C09 C09
run C10b C10
run C13b C13
run C16b C16
run C14 C14 C15
run C15 C15
run C17b C17
run C18 C18
run C19 C19
run C20 C20
echo DONE >> seeded/matrix.log
