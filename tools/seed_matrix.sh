#!/bin/sh
# run every kept seeded change against the checks that should notice it (quick tier); log to seeded/matrix.log
cd /verif
: > seeded/matrix.log
run() { S=$1; shift; tools/run_seed.sh $S "$@" 2>&1 | grep -E "^===|VIOLATION|SUMMARY|ERROR|not clean|does not apply" | cut -c1-220 >> seeded/matrix.log; }
run C01 C01
run C02 C02
run C03 C03 C04
run C04 C04
run C05 C05
run C06 C06
run C07 C07
run C08 C08 C14
run C09 C09
run C14 C14 C15
run C15 C15
run C18 C18
run C19 C19
run C20 C20
echo DONE >> seeded/matrix.log
