"""print the §2.5 cost table of DESIGN.md from the evidence files of the last run"""
import json, glob, os
ROOT = os.path.dirname(os.path.dirname(os.path.abspath(__file__)))
print('| id | tier | paths | obligations | z3 queries | solver s | wall s | MIR functions executed |')
print('|----|------|------:|-----------:|-----------:|---------:|-------:|-----------------------:|')
for p in sorted(glob.glob(os.path.join(ROOT, 'evidence', 'C*.json'))):
    d = json.load(open(p))
    c = d['coverage']
    print('| %s | %s | %s | %s | %s | %s | %s | %s |' % (d['property_id'], d['tier'], sum(c.get('paths_by_end', {}).values()), c.get('obligations'),
                                                   c.get('queries'), round(c.get('solver_s', 0)), round(d.get('wall_s', 0)), len(c.get('functions_encoded', []))))
