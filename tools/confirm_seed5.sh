#!/bin/sh
# confirm a wave-5 seeded change produced in /tmp/wt5_<ID>: suite passes with it, demo fails with it, demo passes without it;
# then keep patch + demo under /verif/seeded/<NAME>/ and remove the scratch worktree with its build output
# usage: tools/confirm_seed5.sh <ID> <NAME>
ID=$1; NAME=$2
WT=/tmp/wt5_$ID
export RUSTUP_TOOLCHAIN=stable-x86_64-unknown-linux-gnu CARGO_NET_OFFLINE=true
cd $WT || exit 2
git diff -- src > /tmp/seed5_$ID.diff
[ -s /tmp/seed5_$ID.diff ] || { echo "NO SOURCE CHANGE"; exit 2; }
mkdir -p /tmp/demo_hold5_$ID; [ -f tests/verif_demo.rs ] && mv tests/verif_demo.rs /tmp/demo_hold5_$ID/
echo "== suite with change"
cargo nextest run --workspace --no-fail-fast --tool-config-file pb:/w/lib/nextest.toml --profile pb --test-threads 8 --offline 2>&1 | grep -E "Summary|FAIL" | head -5
mv /tmp/demo_hold5_$ID/verif_demo.rs tests/
echo "== demo with change (expect FAILED)"
cargo test --offline --test verif_demo 2>&1 | grep -E "^test result|error\[" | head -3
git apply -R /tmp/seed5_$ID.diff
echo "== demo without change (expect ok)"
cargo test --offline --test verif_demo 2>&1 | grep -E "^test result|error\[" | head -3
git apply /tmp/seed5_$ID.diff
mkdir -p /verif/seeded/$NAME
cp /tmp/seed5_$ID.diff /verif/seeded/$NAME/patch.diff
cp tests/verif_demo.rs /verif/seeded/$NAME/demo.rs
cd /; git -C /repo worktree remove --force $WT; rm -rf /tmp/demo_hold5_$ID
echo "== done"
