#!/bin/sh
# every claimed check (quick tier unless TIER is set) against /repo's current tree, in three parallel lanes; one summary line per property
cd /verif
mkdir -p .cache
lane() {
  for P in "$@"; do
    S=$(date +%s)
    ./check $P --tier ${TIER:-quick} > /verif/.cache/last_$P.log 2>&1
    RC=$?
    echo "$P rc=$RC $(( $(date +%s) - S ))s $(grep -c '^VIOLATION' /verif/.cache/last_$P.log) violations, $(grep -c '^KNOWN-FINDING' /verif/.cache/last_$P.log) known; $(grep '^SUMMARY' /verif/.cache/last_$P.log | cut -c1-160)"
  done
}
lane C01 C13 C12 C10 C18 C19 C20 &
lane C02 C05 C17 C07 C08 C09 &
lane C03 C16 C14 C15 C04 C06 &
wait
echo ALLDONE
