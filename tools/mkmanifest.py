"""Regenerate MANIFEST.json from the table below (keeps the file valid and in one place)."""
import json, os, sys
ROOT = os.path.dirname(os.path.dirname(os.path.abspath(__file__)))
sys.path.insert(0, ROOT)

TRUST = ('trusted: library models (num-bigint as wide bit-vectors, Vec/slice/iterator/Option/Result/Rc/HashMap models, clvmr Allocator as a '
         'tree store), rustc MIR text semantics as implemented by mirsym (validated on concrete vectors against the native build on every run), z3; '
         'bounds are stated in the evidence file')
TECH = 'symbolic execution of rustc MIR (regenerated from /repo each run) + SMT (z3), bounded; counterexamples replayed natively'

CLAIMS = {
 'C14': ('front-end kernels only: panic freedom decided by bounded symbolic execution of the real MIR, where every overflow, bounds check, unwrap/expect and unreachable is an explicit edge: parse_sexp on every tab-free byte string of <=4 (thorough 5) bytes (with error locations inside the text), binutils::assemble on every ASCII text of <=3 (4) bytes, sexp_from_stream on every byte string of <=4 (6) bytes, disassemble->assemble on atoms of <=3 (4) bytes, create_name_lookup_ on environments up to depth 70 (100). No panic edge is satisfiable on any explored path. Partial: compile/run/debug/REPL entry points and termination beyond the unrolling bounds are outside', 'DESIGN.md §4 C14'),
 'C02': ('mechanism lemma only: the CLVM-level rewrites of the modern optimiser (null_optimization, remove_double_apply with its three rules, brief_path_selection), chained exactly as Strategy23::post_codegen_output_optimize chains them, are executed from MIR on every program tree of <=4 (thorough 5) leaves over {nil, 1..9} and the meaning before/after is judged by clvmr run_program executed from clvmr\'s own MIR (one-directional: value preserved whenever the unoptimised program returns one); brief_path_selection additionally on f/r chains of length up to 8 (40) over symbolic paths. Partial: CSE, de-inlining, constant folding by execution, nil-env mode, cl22 partial evaluation, whole compilations are outside', 'DESIGN.md §4 C02'),
 'C03': ('mechanism lemma only: the classic compiler\'s symbol_table_for_tree (with inline::is_at_capture, NodePath::{new,add,first,rest,as_path}, compose_paths, casts) is executed from MIR on every parameter tree of <=3 (thorough 5) leaves with optional (@ name pattern) captures and on parameter lists up to 64 (70) long, for root paths 1 and 3 (and 2); every emitted (name, path) is resolved by clvmr traverse_path (its own MIR) and z3/concrete evaluation decides that it selects that name\'s position and is canonical. Partial: the CLVM-hosted stage-2 compiler, macros, inlining and the classic==cl21 sentence are outside', 'DESIGN.md §4 C03'),
 'C01': ('mechanism lemma only: codegen::create_name_lookup_ and compiler::is_at_capture are executed from MIR on every environment shape of <=4 (thorough 6) leaves, each optionally with an (@ name pattern) capture at any position, and on parameter-list spines up to depth 70 (100), with symbolic names; the path returned is resolved by clvmr traverse_path (its own MIR) on a value of that shape and z3 decides that it reaches a slot bound to the name, that an error means the name is unbound, and that no overflow/panic edge is reachable. Partial: desugaring, inlining, lambdas, constants, macros and dialects are outside; counterexamples are replayed by compiling and running (mod ARGS NAME)', 'DESIGN.md §4 C01'),
 'C18': ('resolution clause only: DefaultCompilerOpts::read_new_file is executed from MIR with 1..3 (thorough 4) search directories and a symbolic existence bit per directory (fs::read and PathBuf are stubs); z3 decides that the returned name and contents are those of the first directory that has the file, that an error is returned only if none has it, and that pseudo-files (*macros*, dialect names) resolve to the built-in text. Partial: that gather_dependencies visits every include the compilation visits is not decided', 'DESIGN.md §4 C18'),
 'C19': ('symbolic execution of the real atomic_write_file / gentle_overwrite MIR (unwind edges included) against a nondeterministic file-system model: temp creation may fail, write_all may fail after any proper prefix, persist may fail, previous file absent / present with arbitrary contents; the state of the target path is logged after every primitive step and z3 decides that it is always the old file or the complete new data (so a crash after any step is safe), that success means installed, and that equal programs succeed even if rewriting fails. Counterexamples are replayed on a real directory under strace with fault injection. Concurrency is argued from the single-rename invariant, not explored', 'DESIGN.md §4 C19'),
 'C05': ('integer-mode clause only, modular: NewStyleIntConversion::{new,drop,setting} and the two functions that create the guard (compile_file, DefaultCompilerOpts::compile_program) are executed from MIR, unwind edges included, with a symbolic initial mode and a symbolic dialect int_fix; every other callee is a stub that nondeterministically returns Ok/Err or panics and preserves the mode. z3 decides that the mode equals int_fix while callees run and equals the initial mode on every exit, and that nested guards restore LIFO. Partial: the counter / hash-order / thread clauses are not decided', 'DESIGN.md §4 C05'),
 'C09': ('bounded symbolic execution of the real printers and readers from MIR. Classic pair: disassemble (ir_for_atom, write_ir, pybytes_repr, ...) -> assemble (IRReader, consume_*, interpret_atom_value, assemble_from_ir) for one atom of 0..3 (thorough 0..4) arbitrary bytes alone, as list head, second element and dotted tail, operator versions 0,1,2. Modern: impl Display for SExp on what convert_from_clvm_rs yields (and on quoted strings with either quote) -> parse_sexp -> convert_to_clvm_rs and -> classic assemble, fixed integer mode. z3 decides byte identity on every path', 'DESIGN.md §4 C09'),
 'C15': ('bounded symbolic execution of the real reader MIR (parse_sexp, ParsePartialResult::{new,push,finalize}, parse_sexp_step, make_atom, from_hex, normalize_int, enlist, make_cons, restructure_list, Srcloc::{advance,ext}, combine_src_location, ...) on every tab-free byte string of length 0..3 (thorough 0..4): z3 partitions the inputs by the byte classes the code distinguishes, and on every path each leaf location is compared with the token extent and each list location with the parenthesis extent recomputed from the bytes by an independent reference reader; error locations must lie within the text', 'DESIGN.md §4 C15'),
 'C20': ('symbolic execution of the real table code from MIR (KW_PAIRS const, the six lazy_static KEYWORD_* initialisers, keyword_from_atom/to_atom, prims(), prim_map()) and of the real dispatchers (OriginalDialect::op from the repo, ChiaDialect::op from clvmr\'s MIR, with the flags DefaultProgramRunner uses per operators_version) on a symbolic 1-byte and a symbolic 4-byte opcode; z3 decides that every table opcode reaches an implementation, tables are mutually inverse per version, versions only add, and the modern primitive list agrees with the classic tables in both directions. Finite domain: same guarantee as exhaustive checking', 'DESIGN.md §4 C20'),
 'C07': ('bounded symbolic execution of the real convert_from_clvm_rs / convert_to_clvm_rs / both sha256tree functions / SExp::equal_to / == / impl Hash MIR: round trip and three-way hash agreement for every atom of 0..4 (thorough 0..9) bytes and every tree of <=3 (4) leaves with atoms of 0..2 (3) bytes in both integer modes; equality and Hash against encoding equality for every pair of atoms of 0..2 (3) bytes in every pair of spellings (fixed mode). SHA-256 is an injective uninterpreted function of its preimage', 'DESIGN.md §4 C07'),
 'C06': ('bounded differential symbolic execution: the real stepping evaluator (run, run_step, combine, choose_path, flatten_signed_int, convert_to_clvm_rs) against clvmr 0.16.2 traverse_path executed from clvmr\'s own MIR, for a program that is one atom in every spelling (Integer of 136 bits, Atom/QuotedString of 0..3 (thorough 0..6) arbitrary bytes, Nil) in every environment shape of <=3 (5) leaves. Partial: path lookup and the core-operator step function, not the operators delegated to clvmr', 'DESIGN.md §4 C06'),
 'C04': ('two bounded symbolic checks of the real classic optimiser MIR. (1) the whole optimize_sexp (all eight rules, memo table, pattern matcher, sub_args, seems_constant; constant folding delegates to clvmr run_program executed from clvmr\'s MIR) on every program tree of <=4 (thorough 5) leaves over {nil, 1..9}: whenever clvmr returns v for the program, the optimiser accepts it and clvmr returns v for its output. (2) path_optimizer / match_sexp / NodePath / compose_paths / casts on every (OP ATOM) with OP any byte and ATOM any byte string of 0..9 (thorough 0..17) bytes. Partial: larger programs and other operators are outside', 'DESIGN.md §4 C04'),
 'C08': ('bounded symbolic execution of the real codec MIR: int_from_bytes for every 0..9-byte string; sexp_from_stream for every input of <=4 (thorough <=6) bytes against a reference decoder of the format; sexp_to_stream + decode round trip for all trees <=3 (4) leaves with atoms of 0..2 (3) arbitrary bytes and 63/64-byte atoms; atom_size_blob for a symbolic 64-bit atom length (all five prefix classes and the error bound)', 'DESIGN.md §4 C08'),
}

NA = {
 'C10': 'rejection of ill-scoped programs is a property of the whole pipeline (preprocess, rename, desugar, inline, codegen) over HashMap/Rc<BodyForm> state; no self-contained kernel implies it and compiler termination is beyond any stated unrolling bound',
 'C11': 'equality of complete compilations across three entry points (launch_tool alone is ~1500 lines of argument handling and I/O); only a two-line option derivation is encodable, too small to call a check of this property',
 'C12': 'every row of a debugger trace ranges over whole executions through BTreeMap<String,String> formatting and clvmr operators; not encodable within reach',
 'C13': 'relates symbol-table entries to emitted code of whole compilations; the hash agreement it relies on is decided under C07',
 'C16': 'the partial evaluator (1680 lines, HashMap environments, recursion bounded only by a depth limit) against the code generator: two whole implementations',
 'C17': 'non-interference over pairs of runs of compiled programs; needs the whole compiler and evaluator symbolically',
}
ALL = ['C%02d' % i for i in range(1, 21)]


def main():
    from checks import REGISTRY
    checks = []
    for pid in sorted(REGISTRY):
        text, ref = CLAIMS[pid]
        checks.append(dict(property_id=pid, quick_cmd='./check %s --tier quick' % pid,
                           thorough_cmd='./check %s --tier thorough' % pid,
                           evidence_file='evidence/%s.json' % pid,
                           replay_cmd_template='./check %s --replay {path}' % pid, engine='mirsym',
                           level_claimed=dict(category='model_checking', text=text, design_ref=ref),
                           level_note=TRUST, technique=TECH))
    na = []
    for pid in ALL:
        if pid in REGISTRY:
            continue
        na.append(dict(property_id=pid, reason=NA.get(pid, 'solver-based check planned in DESIGN.md but not built yet at this commit')))
    m = dict(version=1, setup_cmd='./setup.sh',
             hooks=dict(guard='chialisp_verif',
                        enable='none needed: mirsym reads private functions from the MIR dump; the replay crate uses public API only',
                        baseline_off_cmd='cd /repo && RUSTUP_TOOLCHAIN=stable-x86_64-unknown-linux-gnu cargo nextest run --workspace --no-fail-fast --tool-config-file pb:/w/lib/nextest.toml --profile pb --test-threads 8 --offline',
                        source_commits=[], add_only=True),
             engines=[dict(name='mirsym', path='mirsym/', serves_properties=sorted(REGISTRY),
                           kind_free_text='symbolic executor for rustc MIR (text dump regenerated from /repo on every run) + z3; counterexamples replayed natively through replay/')],
             checks=checks, not_applicable=na, notes='see DESIGN.md')
    json.dump(m, open(os.path.join(ROOT, 'MANIFEST.json'), 'w'), indent=1)
    import jsonschema
    jsonschema.validate(m, json.load(open('/root/.vp/MANIFEST.schema.json')))
    print('MANIFEST.json: %d checks, %d not applicable' % (len(checks), len(na)))


main()
