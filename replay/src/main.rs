// Native replay of mirsym kernels through the crate's public API.
// stdin: JSON array of {case, inputs}; stdout: JSON array of outputs.
use std::io::Read;
use std::panic;

use serde_json::{json, Value};

mod kernels;

fn main() {
    let args: Vec<String> = std::env::args().collect();
    if args.len() < 2 {
        eprintln!("usage: verif-replay <kernel>  (JSON array on stdin)");
        std::process::exit(2);
    }
    let kernel = args[1].clone();
    let mut buf = String::new();
    std::io::stdin().read_to_string(&mut buf).unwrap();
    let items: Vec<Value> = serde_json::from_str(&buf).expect("json array");
    panic::set_hook(Box::new(|_| {}));
    let mut out = Vec::new();
    for it in items.iter() {
        let k = kernel.clone();
        let itc = it.clone();
        let r = panic::catch_unwind(move || kernels::dispatch(&k, &itc["case"], &itc["inputs"]));
        match r {
            Ok(v) => out.push(v),
            Err(e) => {
                let msg = if let Some(s) = e.downcast_ref::<String>() {
                    s.clone()
                } else if let Some(s) = e.downcast_ref::<&str>() {
                    s.to_string()
                } else {
                    "panic".to_string()
                };
                out.push(json!({"panic": true, "msg": msg}));
            }
        }
    }
    println!("{}", serde_json::to_string(&out).unwrap());
}
