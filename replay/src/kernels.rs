use std::rc::Rc;

use serde_json::{json, Value};

use chialisp::classic::clvm_tools::node_path::NodePath;
use chialisp::classic::clvm_tools::stages::stage_0::DefaultProgramRunner;
use chialisp::classic::clvm_tools::stages::stage_2::optimize::optimize_sexp;
use chialisp::util::number_from_u8;
use clvmr::allocator::{Allocator, NodePtr, SExp};

pub fn bytes_of(v: &Value) -> Vec<u8> {
    v.as_array()
        .map(|a| a.iter().map(|x| x.as_u64().unwrap() as u8).collect())
        .unwrap_or_default()
}

pub fn to_json_bytes(b: &[u8]) -> Value {
    Value::Array(b.iter().map(|x| json!(*x)).collect())
}

pub fn tree_to_json(a: &Allocator, n: NodePtr) -> Value {
    match a.sexp(n) {
        SExp::Atom => to_json_bytes(a.atom(n).as_ref()),
        SExp::Pair(l, r) => json!({"p": [tree_to_json(a, l), tree_to_json(a, r)]}),
    }
}

pub fn json_to_tree(a: &mut Allocator, v: &Value) -> NodePtr {
    if let Some(items) = v.get("l") {
        // flat improper list: {"l": [e0, e1, ...], "t": tail}
        let mut tail = json_to_tree(a, &v["t"]);
        for e in items.as_array().unwrap().iter().rev() {
            let h = json_to_tree(a, e);
            tail = a.new_pair(h, tail).unwrap();
        }
        return tail;
    }
    if let Some(p) = v.get("p") {
        let l = json_to_tree(a, &p[0]);
        let r = json_to_tree(a, &p[1]);
        a.new_pair(l, r).unwrap()
    } else {
        let b = bytes_of(v);
        a.new_atom(&b).unwrap()
    }
}

// (f N) / (r N) through the public optimiser entry point, and the NodePath API.
fn nodepath(case: &Value, inputs: &Value) -> Value {
    let atom = bytes_of(&inputs["atom"]);
    let op = case["op"].as_str().unwrap_or("new");
    let np = NodePath::new(Some(number_from_u8(&atom)));
    let api = match op {
        "first" => np.add(NodePath::new(None).first()).as_path(),
        "rest" => np.add(NodePath::new(None).rest()).as_path(),
        _ => np.as_path(),
    };
    let mut res = json!({"path": to_json_bytes(api.data())});
    if op == "first" || op == "rest" {
        let mut a = Allocator::new();
        let n = a.new_atom(&atom).unwrap();
        let nil = a.nil();
        let tail = a.new_pair(n, nil).unwrap();
        let opc = a.new_atom(&[if op == "first" { 5 } else { 6 }]).unwrap();
        let prog = a.new_pair(opc, tail).unwrap();
        let runner = Rc::new(DefaultProgramRunner::new());
        match optimize_sexp(&mut a, prog, runner) {
            Ok(r) => {
                res["optimized"] = tree_to_json(&a, r);
            }
            Err(e) => {
                res["optimized"] = json!({"err": format!("{:?}", e)});
            }
        }
    }
    res
}

// optimize_sexp on (OP ATOM) through the public entry point
fn path_optimizer_k(_case: &Value, inputs: &Value) -> Value {
    let mut a = Allocator::new();
    let op = bytes_of(&inputs["op"]);
    let atom = bytes_of(&inputs["atom"]);
    let n = a.new_atom(&atom).unwrap();
    let nil = a.nil();
    let tail = a.new_pair(n, nil).unwrap();
    let opc = a.new_atom(&op).unwrap();
    let prog = a.new_pair(opc, tail).unwrap();
    let runner = Rc::new(DefaultProgramRunner::new());
    match optimize_sexp(&mut a, prog, runner) {
        Ok(r) => json!({"optimize_sexp": {"ok": tree_to_json(&a, r)}}),
        Err(e) => json!({"optimize_sexp": {"err": format!("{:?}", e)}}),
    }
}

fn int_from_bytes_k(_case: &Value, inputs: &Value) -> Value {
    use chialisp::classic::clvm::__type_compatibility__::{Bytes, BytesFromType};
    use chialisp::classic::clvm::casts::int_from_bytes;
    let b = bytes_of(&inputs["b"]);
    match int_from_bytes(Bytes::new(Some(BytesFromType::Raw(b))), None) {
        Ok(v) => json!({"ok": v}),
        Err(_) => json!({"err": true}),
    }
}

// tools decoder vs consensus decoder on the same bytes
fn decode_k(_case: &Value, inputs: &Value) -> Value {
    use chialisp::classic::clvm::__type_compatibility__::{Bytes, BytesFromType, Stream};
    use chialisp::classic::clvm::serialize::{sexp_from_stream, SimpleCreateCLVMObject};
    let b = bytes_of(&inputs["b"]);
    let mut a = Allocator::new();
    let mut stream = Stream::new(Some(Bytes::new(Some(BytesFromType::Raw(b.clone())))));
    let tools = match sexp_from_stream(&mut a, &mut stream, Box::new(SimpleCreateCLVMObject {})) {
        Ok(r) => json!({"ok": tree_to_json(&a, r.1)}),
        Err(_) => json!({"err": true}),
    };
    let mut a2 = Allocator::new();
    let cl = match clvmr::serde::node_from_bytes(&mut a2, &b) {
        Ok(n) => json!({"ok": tree_to_json(&a2, n)}),
        Err(_) => json!({"err": true}),
    };
    json!({"tools": tools, "clvmr": cl})
}

// tools encoder vs consensus encoder, and decode of the tools bytes
fn encode_k(case: &Value, inputs: &Value) -> Value {
    use chialisp::classic::clvm::__type_compatibility__::{Bytes, BytesFromType, Stream};
    use chialisp::classic::clvm::serialize::{sexp_from_stream, sexp_to_stream, SimpleCreateCLVMObject};
    fn build(a: &mut Allocator, shape: &Value, leaves: &mut std::slice::Iter<Value>) -> NodePtr {
        if shape.is_string() {
            let b = bytes_of(leaves.next().unwrap());
            a.new_atom(&b).unwrap()
        } else {
            let l = build(a, &shape[0], leaves);
            let r = build(a, &shape[1], leaves);
            a.new_pair(l, r).unwrap()
        }
    }
    let mut a = Allocator::new();
    let leaves: Vec<Value> = inputs["leaves"].as_array().unwrap().clone();
    let n = build(&mut a, &case["shape"], &mut leaves.iter());
    let mut s = Stream::new(None);
    sexp_to_stream(&mut a, n, &mut s);
    let bytes = s.get_value().data().clone();
    let cl = clvmr::serde::node_to_bytes(&a, n).unwrap();
    let mut s2 = Stream::new(Some(Bytes::new(Some(BytesFromType::Raw(bytes.clone())))));
    let back = match sexp_from_stream(&mut a, &mut s2, Box::new(SimpleCreateCLVMObject {})) {
        Ok(r) => json!({"ok": tree_to_json(&a, r.1)}),
        Err(_) => json!({"err": true}),
    };
    json!({"bytes": to_json_bytes(&bytes), "clvmr_bytes": to_json_bytes(&cl), "back": back})
}

// rich SExp from json spelling
pub fn rich_from_json(v: &Value) -> Rc<chialisp::compiler::sexp::SExp> {
    use chialisp::compiler::sexp::SExp as R;
    use chialisp::compiler::srcloc::Srcloc;
    let l = Srcloc::start("*t*");
    if v.get("nil").is_some() {
        Rc::new(R::Nil(l))
    } else if let Some(i) = v.get("int") {
        let n: num_bigint::BigInt = i.as_str().unwrap().parse().unwrap();
        Rc::new(R::Integer(l, n))
    } else if let Some(a) = v.get("atom") {
        Rc::new(R::Atom(l, bytes_of(a)))
    } else if let Some(a) = v.get("qs") {
        Rc::new(R::QuotedString(l, b'"', bytes_of(a)))
    } else {
        let c = &v["cons"];
        Rc::new(R::Cons(l, rich_from_json(&c[0]), rich_from_json(&c[1])))
    }
}

pub fn env_rich(v: &Value) -> Rc<chialisp::compiler::sexp::SExp> {
    use chialisp::compiler::sexp::SExp as R;
    use chialisp::compiler::srcloc::Srcloc;
    let l = Srcloc::start("*t*");
    if let Some(p) = v.get("p") {
        Rc::new(R::Cons(l, env_rich(&p[0]), env_rich(&p[1])))
    } else {
        let b = bytes_of(v);
        if b.is_empty() { Rc::new(R::Nil(l)) } else { Rc::new(R::Atom(l, b)) }
    }
}

// stepping evaluator vs clvmr on the same (program, env)
fn run_both_k(_case: &Value, inputs: &Value) -> Value {
    use chialisp::compiler::clvm::{convert_to_clvm_rs, run};
    use chialisp::compiler::prims::prim_map;
    use chialisp::classic::clvm_tools::stages::stage_0::TRunProgram;
    let mut a = Allocator::new();
    let prog = rich_from_json(&inputs["prog"]);
    let env = env_rich(&inputs["env"]);
    let runner = Rc::new(DefaultProgramRunner::new());
    let stepper = match run(&mut a, runner.clone(), prim_map(), prog.clone(), env.clone(), None, Some(100000)) {
        Ok(v) => match convert_to_clvm_rs(&mut a, v) {
            Ok(n) => json!({"ok": tree_to_json(&a, n)}),
            Err(_) => json!({"err": true}),
        },
        Err(_) => json!({"err": true}),
    };
    let p = convert_to_clvm_rs(&mut a, prog).unwrap();
    let e = convert_to_clvm_rs(&mut a, env).unwrap();
    let cl = match runner.run_program(&mut a, p, e, None) {
        Ok(r) => json!({"ok": tree_to_json(&a, r.1)}),
        Err(_) => json!({"err": true}),
    };
    json!({"stepper": stepper, "clvmr": cl})
}

pub fn build_shape(a: &mut Allocator, shape: &Value, leaves: &mut std::slice::Iter<Value>) -> NodePtr {
    if shape.is_string() {
        let b = bytes_of(leaves.next().unwrap());
        a.new_atom(&b).unwrap()
    } else {
        let l = build_shape(a, &shape[0], leaves);
        let r = build_shape(a, &shape[1], leaves);
        a.new_pair(l, r).unwrap()
    }
}

// convert_from_clvm_rs -> convert_to_clvm_rs, both tree hashes
fn conv_k(case: &Value, inputs: &Value) -> Value {
    use chialisp::compiler::clvm::{convert_from_clvm_rs, convert_to_clvm_rs, sha256tree, NewStyleIntConversion};
    use chialisp::compiler::srcloc::Srcloc;
    let _guard = NewStyleIntConversion::new(case["mode"].as_bool().unwrap_or(true));
    let mut a = Allocator::new();
    let leaves: Vec<Value> = inputs["leaves"].as_array().unwrap().clone();
    let n = build_shape(&mut a, &case["shape"], &mut leaves.iter());
    let rich = match convert_from_clvm_rs(&mut a, Srcloc::start("*t*"), n) {
        Ok(r) => r,
        Err(_) => return json!({"err": true}),
    };
    let back = match convert_to_clvm_rs(&mut a, rich.clone()) {
        Ok(m) => json!({"ok": tree_to_json(&a, m)}),
        Err(_) => json!({"err": true}),
    };
    let h_rich = sha256tree(rich);
    let h_classic = chialisp::classic::clvm_tools::sha256tree::sha256tree(&mut a, n);
    json!({"back": back, "h_rich": to_json_bytes(&h_rich), "h_classic": to_json_bytes(h_classic.data())})
}

// equality / hash / encoding agreement for two rich atoms
fn eqhash_k(_case: &Value, inputs: &Value) -> Value {
    use chialisp::compiler::clvm::{convert_from_clvm_rs, convert_to_clvm_rs, NewStyleIntConversion};
    use chialisp::compiler::srcloc::Srcloc;
    use std::collections::hash_map::DefaultHasher;
    use std::hash::{Hash, Hasher};
    let _guard = NewStyleIntConversion::new(true);
    let mut a = Allocator::new();
    let mut mk = |a: &mut Allocator, v: &Value| {
        if let Some(c) = v.get("conv") {
            let n = a.new_atom(&bytes_of(c)).unwrap();
            convert_from_clvm_rs(a, Srcloc::start("*t*"), n).unwrap()
        } else {
            rich_from_json(v)
        }
    };
    let x = mk(&mut a, &inputs["a"]);
    let y = mk(&mut a, &inputs["b"]);
    let ex = convert_to_clvm_rs(&mut a, x.clone()).unwrap();
    let ey = convert_to_clvm_rs(&mut a, y.clone()).unwrap();
    let enc_eq = tree_to_json(&a, ex) == tree_to_json(&a, ey);
    let mut hx = DefaultHasher::new();
    let mut hy = DefaultHasher::new();
    x.hash(&mut hx);
    y.hash(&mut hy);
    json!({"eq": x.equal_to(&y) && (*x == *y), "hash_eq": hx.finish() == hy.finish(), "enc_eq": enc_eq})
}

// does opcode `op` reach an operator implementation under the dialect used for operators_version?
fn tables_k(case: &Value, inputs: &Value) -> Value {
    use chialisp::classic::clvm::keyword_from_atom;
    use chialisp::classic::clvm_tools::stages::stage_0::{RunProgramOption, TRunProgram};
    let v = case["version"].as_u64().unwrap() as usize;
    let op = bytes_of(&inputs["op"]);
    let in_table = keyword_from_atom(v).contains_key(&op);
    let mut a = Allocator::new();
    // program (op) with no arguments in an empty environment: "unimplemented operator" iff not dispatched
    let o = a.new_atom(&op).unwrap();
    let nil = a.nil();
    let prog = a.new_pair(o, nil).unwrap();
    let runner = DefaultProgramRunner::new();
    let r = runner.run_program(&mut a, prog, nil, Some(RunProgramOption { operators_version: v, ..RunProgramOption::default() }));
    let implemented = match r {
        Ok(_) => true,
        Err(e) => {
            let d = format!("{:?}", e);
            !(d.contains("unimplemented operator") || d.starts_with("Unimplemented"))
        }
    };
    // table consistency through the public API (independent of `op`)
    use chialisp::classic::clvm::keyword_to_atom;
    use chialisp::compiler::prims::{prim_map, prims};
    use chialisp::compiler::sexp::SExp as R;
    use chialisp::util::u8_from_number;
    let mut checks = serde_json::Map::new();
    let fa = keyword_from_atom(v);
    let ta = keyword_to_atom(v);
    checks.insert("mutually_inverse".to_string(), json!(fa.iter().all(|(k, n)| ta.get(n) == Some(k)) && ta.iter().all(|(n, k)| fa.get(k) == Some(n)) && fa.len() == ta.len()));
    if v > 0 {
        let pfa = keyword_from_atom(v - 1);
        let pta = keyword_to_atom(v - 1);
        checks.insert("versions_only_add".to_string(), json!(pfa.iter().all(|(k, n)| fa.get(k) == Some(n)) && pta.iter().all(|(n, k)| ta.get(n) == Some(k))));
    }
    let ta2 = keyword_to_atom(2);
    let pl: Vec<(Vec<u8>, Vec<u8>)> = prims().iter().map(|(n, s)| (n.clone(), match s { R::Integer(_, i) => u8_from_number(i.clone()), _ => vec![] })).collect();
    let names: std::collections::HashSet<Vec<u8>> = pl.iter().map(|p| p.0.clone()).collect();
    let codes: std::collections::HashSet<Vec<u8>> = pl.iter().map(|p| p.1.clone()).collect();
    checks.insert("prims_unique".to_string(), json!(names.len() == pl.len() && codes.len() == pl.len()));
    checks.insert("prims_agree_with_classic".to_string(), json!(pl.iter().all(|(n, k)| {
        match ta2.get(&String::from_utf8_lossy(n).to_string()) { Some(kk) => kk == k, None => true }
    })));
    checks.insert("classic_names_known_to_modern".to_string(), json!(ta2.keys().all(|n| names.contains(n.as_bytes()))));
    checks.insert("modern_names_known_to_classic".to_string(), json!(names.iter().all(|n| ta2.contains_key(&String::from_utf8_lossy(n).to_string()))));
    checks.insert("prim_map_is_prims".to_string(), json!(prim_map().len() == pl.len()));
    json!({"in_table": in_table, "implemented": implemented, "checks": Value::Object(checks)})
}

// parse_sexp with locations
fn parse_k(_case: &Value, inputs: &Value) -> Value {
    use chialisp::compiler::sexp::{parse_sexp, SExp as R};
    use chialisp::compiler::srcloc::Srcloc;
    fn locj(l: &Srcloc) -> (Value, String) {
        let e = match &l.until { Some(u) => json!([u.line, u.col]), None => json!([l.line, l.col + 1]) };
        (json!([[l.line, l.col], e]), l.file.to_string())
    }
    fn tj(v: &R) -> Value {
        let (loc, file) = locj(&v.loc());
        match v {
            R::Cons(_, a, b) => json!({"loc": loc, "file": file, "cons": [tj(a), tj(b)]}),
            R::Nil(_) => json!({"loc": loc, "file": file, "leaf": "Nil"}),
            R::Integer(_, _) => json!({"loc": loc, "file": file, "leaf": "Integer"}),
            R::QuotedString(_, _, _) => json!({"loc": loc, "file": file, "leaf": "QuotedString"}),
            R::Atom(_, _) => json!({"loc": loc, "file": file, "leaf": "Atom"}),
        }
    }
    let b = bytes_of(&inputs["b"]);
    match parse_sexp(Srcloc::start("*t*"), b.iter().copied()) {
        Ok(v) => json!({"ok": v.iter().map(|x| tj(x)).collect::<Vec<Value>>()}),
        Err((l, _)) => { let (loc, file) = locj(&l); json!({"err": {"loc": loc, "file": file}}) }
    }
}

// classic disassemble -> assemble
fn classic_text_k(case: &Value, inputs: &Value) -> Value {
    use chialisp::classic::clvm_tools::binutils::{assemble, disassemble};
    let mut a = Allocator::new();
    let n = json_to_tree(&mut a, &inputs["tree"]);
    let text = disassemble(&a, n, Some(case["version"].as_u64().unwrap() as usize));
    let back = match assemble(&mut a, &text) {
        Ok(m) => json!({"ok": tree_to_json(&a, m)}),
        Err(_) => json!({"err": true}),
    };
    json!({"text": to_json_bytes(text.as_bytes()), "back": back})
}

// modern printer -> modern reader and classic assembler
fn modern_text_k(case: &Value, inputs: &Value) -> Value {
    use chialisp::classic::clvm_tools::binutils::assemble;
    use chialisp::compiler::clvm::{convert_from_clvm_rs, convert_to_clvm_rs, NewStyleIntConversion};
    use chialisp::compiler::sexp::{parse_sexp, SExp as R};
    use chialisp::compiler::srcloc::Srcloc;
    let _guard = NewStyleIntConversion::new(true);
    let mut a = Allocator::new();
    let l = Srcloc::start("*t*");
    let x = bytes_of(&inputs["x"]);
    let xv: Rc<R> = match case["sp"].as_str().unwrap() {
        "conv" => { let n = a.new_atom(&x).unwrap(); convert_from_clvm_rs(&mut a, l.clone(), n).unwrap() }
        "dq" => Rc::new(R::QuotedString(l.clone(), b'"', x.clone())),
        _ => Rc::new(R::QuotedString(l.clone(), b'\'', x.clone())),
    };
    let two = || Rc::new(R::Integer(l.clone(), 2u32.into()));
    let nil = || Rc::new(R::Nil(l.clone()));
    let val: Rc<R> = match case["pos"].as_str().unwrap() {
        "alone" => xv,
        "head" => Rc::new(R::Cons(l.clone(), xv, Rc::new(R::Cons(l.clone(), two(), nil())))),
        "second" => Rc::new(R::Cons(l.clone(), two(), Rc::new(R::Cons(l.clone(), xv, nil())))),
        _ => Rc::new(R::Cons(l.clone(), two(), xv)),
    };
    let text = val.to_string();
    let modern = match parse_sexp(l.clone(), text.bytes()) {
        Ok(v) if v.len() == 1 => match convert_to_clvm_rs(&mut a, v[0].clone()) {
            Ok(n) => json!({"ok": tree_to_json(&a, n)}),
            Err(_) => json!({"err": true}),
        },
        _ => json!({"err": true}),
    };
    let classic = match assemble(&mut a, &text) {
        Ok(n) => json!({"ok": tree_to_json(&a, n)}),
        Err(_) => json!({"err": true}),
    };
    json!({"text": to_json_bytes(text.as_bytes()), "modern": modern, "classic": classic})
}

// integer mode before / during / after compile_file and compile_program, starting from mode m0 with a
// dialect whose int_fix is `fix`.  The mode is observed through convert_to_clvm_rs(Integer 0): nil in the
// new mode, 0x00 in the legacy mode.  "During" is observed from a wrapped CompilerOpts (filename()) and a
// wrapped program runner, both of which the compiler calls while it works.
mod probe {
    use super::*;
    use chialisp::classic::clvm_tools::stages::stage_0::{RunProgramOption, TRunProgram};
    use chialisp::compiler::clvm::convert_to_clvm_rs;
    use chialisp::compiler::comptypes::{CompilerOpts, HasCompilerOptsDelegation};
    use chialisp::compiler::dialect::AcceptedDialect;
    use chialisp::compiler::sexp::SExp as R;
    use chialisp::compiler::srcloc::Srcloc;
    use clvmr::reduction::Response;
    use std::cell::RefCell;

    pub fn mode_now() -> bool {
        let mut a = Allocator::new();
        let n = convert_to_clvm_rs(&mut a, Rc::new(R::Integer(Srcloc::start("*t*"), 0u32.into()))).unwrap();
        a.atom(n).as_ref().is_empty()
    }

    thread_local! { pub static SEEN: RefCell<Vec<bool>> = RefCell::new(Vec::new()); }

    pub struct ProbeRunner {}
    impl TRunProgram for ProbeRunner {
        fn run_program(&self, allocator: &mut Allocator, program: NodePtr, args: NodePtr, option: Option<RunProgramOption>) -> Response {
            SEEN.with(|s| s.borrow_mut().push(mode_now()));
            DefaultProgramRunner::new().run_program(allocator, program, args, option)
        }
    }

    #[derive(Clone)]
    pub struct ProbeOpts { pub inner: Rc<dyn CompilerOpts>, pub fix: bool, pub armed: Rc<RefCell<bool>> }
    impl HasCompilerOptsDelegation for ProbeOpts {
        fn compiler_opts(&self) -> Rc<dyn CompilerOpts> { self.inner.clone() }
        fn update_compiler_opts<F: FnOnce(Rc<dyn CompilerOpts>) -> Rc<dyn CompilerOpts>>(&self, f: F) -> Rc<dyn CompilerOpts> {
            Rc::new(ProbeOpts { inner: f(self.inner.clone()), fix: self.fix, armed: self.armed.clone() })
        }
        fn override_dialect(&self) -> AcceptedDialect {
            *self.armed.borrow_mut() = true;
            let mut d = self.inner.dialect();
            d.int_fix = self.fix;
            d
        }
        fn override_filename(&self) -> String {
            if *self.armed.borrow() { SEEN.with(|s| s.borrow_mut().push(mode_now())); }
            self.inner.filename()
        }
    }
}

// two real threads, each: guard = new(fix_t); read the mode; drop(guard), stepped in the order the schedule gives
fn intmode_threads_k(inputs: &Value) -> Value {
    use chialisp::compiler::clvm::NewStyleIntConversion;
    use std::sync::mpsc::channel;
    let m = [inputs["m0"].as_bool().unwrap(), inputs["m1"].as_bool().unwrap_or(true)];
    let fix = [inputs["fix"].as_bool().unwrap(), inputs["fix2"].as_bool().unwrap_or(false)];
    let sched: Vec<bool> = inputs["sched"].as_array().map(|a| a.iter().map(|b| b.as_bool().unwrap_or(false)).collect()).unwrap_or_default();
    let mut cmd_tx = Vec::new();
    let mut ack_rx = Vec::new();
    let mut handles = Vec::new();
    for t in 0..2 {
        let (ctx, crx) = channel::<u8>();
        let (atx, arx) = channel::<(bool, bool)>();
        cmd_tx.push(ctx);
        ack_rx.push(arx);
        let (mt, ft) = (m[t], fix[t]);
        handles.push(std::thread::spawn(move || {
            let _outer = NewStyleIntConversion::new(mt);
            let init = probe::mode_now();
            let mut guard = None;
            let mut sees_own = false;
            atx.send((true, true)).unwrap();
            while let Ok(c) = crx.recv() {
                match c {
                    0 => { guard = Some(NewStyleIntConversion::new(ft)); }
                    1 => { sees_own = probe::mode_now() == ft; }
                    2 => { guard = None; }
                    _ => { atx.send((sees_own, probe::mode_now() == init)).unwrap(); std::mem::forget(_outer); return; }
                }
                atx.send((true, true)).unwrap();
            }
            let _ = guard;
        }));
        ack_rx[t].recv().unwrap();         // thread t has set its starting mode before thread t+1 starts
    }
    let mut pcs = [0u8, 0u8];
    let mut i = 0;
    while pcs[0] < 3 || pcs[1] < 3 {
        let t = if pcs[0] >= 3 { 1 } else if pcs[1] >= 3 { 0 } else if sched.get(i).copied().unwrap_or(false) { 1 } else { 0 };
        i += 1;
        cmd_tx[t].send(pcs[t]).unwrap();
        ack_rx[t].recv().unwrap();
        pcs[t] += 1;
    }
    let mut sees = Vec::new();
    let mut restored = Vec::new();
    for t in 0..2 {
        cmd_tx[t].send(9).unwrap();
        let (s, r) = ack_rx[t].recv().unwrap();
        sees.push(s);
        restored.push(r);
    }
    for h in handles { let _ = h.join(); }
    json!({"sees_own": sees, "restored": restored})
}

fn intmode_k(case: &Value, inputs: &Value) -> Value {
    use chialisp::compiler::clvm::NewStyleIntConversion;
    use chialisp::compiler::compiler::{compile_file, DefaultCompilerOpts};
    use chialisp::compiler::comptypes::CompilerOpts;
    use chialisp::compiler::dialect::AcceptedDialect;
    use chialisp::compiler::sexp::parse_sexp;
    use chialisp::compiler::srcloc::Srcloc;
    use std::cell::RefCell;
    use std::collections::HashMap;
    if case["fn"].as_str() == Some("threads") {
        return intmode_threads_k(inputs);
    }
    let m0 = inputs["m0"].as_bool().unwrap();
    let fix = inputs["fix"].as_bool().unwrap();
    let _outer = NewStyleIntConversion::new(m0);
    let before = probe::mode_now();
    let mut a = Allocator::new();
    let runner = Rc::new(probe::ProbeRunner {});
    probe::SEEN.with(|s| s.borrow_mut().clear());
    let mut restored = before == m0;
    let default_sources = vec!["(mod (X) (defmacro m (A) (c (q . +) (c A (c (strlen (q . 1)) ())))) (defconstant K (+ 1 2)) (+ (m X) K))".to_string(),
                               "(mod (X) (defmacro m (A) (c (q . +) (c A (c (strlen (q . 1)) ())))) (+ (m X) 1".to_string(),
                               "(mod (X) (defmacro m (A) (c (q . +) (c A (c (strlen (q . 1)) ())))) (unknown-thing (m X) 1))".to_string()];
    let sources: Vec<String> = match inputs.get("sources") {
        Some(v) if v.is_array() => v.as_array().unwrap().iter().map(|x| x.as_str().unwrap().to_string()).collect(),
        _ => default_sources,
    };
    let which = case["fn"].as_str().unwrap_or("compile_file");
    for src in sources.iter() {
        let mut syms = HashMap::new();
        if which == "compile_program" {
            let d = AcceptedDialect { stepping: Some(21), strict: false, int_fix: fix };
            let opts: Rc<dyn CompilerOpts> = Rc::new(DefaultCompilerOpts::new("*t*")).set_dialect(d);
            if let Ok(forms) = parse_sexp(Srcloc::start("*t*"), src.bytes()) {
                if !forms.is_empty() {
                    let _ = opts.compile_program(&mut a, runner.clone(), forms[0].clone(), &mut syms);
                }
            }
        } else {
            let inner: Rc<dyn CompilerOpts> = Rc::new(DefaultCompilerOpts::new("*t*"));
            let opts: Rc<dyn CompilerOpts> = Rc::new(probe::ProbeOpts { inner, fix, armed: Rc::new(RefCell::new(false)) });
            let _ = compile_file(&mut a, runner.clone(), opts, src, &mut syms);
        }
        restored = restored && probe::mode_now() == before;
    }
    let seen: Vec<bool> = probe::SEEN.with(|s| s.borrow().clone());
    let during_ok = seen.iter().all(|m| *m == fix);
    json!({"restored": restored, "during_ok": during_ok, "probes": seen.len()})
}

// the real output-writing routine on a real path (observed from outside with strace)
fn atomic_write_k(case: &Value, inputs: &Value) -> Value {
    use chialisp::util::{atomic_write_file, gentle_overwrite};
    let target = inputs["target"].as_str().unwrap();
    let data = String::from_utf8_lossy(&bytes_of(&inputs["new"])).to_string();
    let r = if case["fn"].as_str().unwrap() == "gentle_overwrite" {
        gentle_overwrite("in.clsp", target, &data)
    } else {
        atomic_write_file("in.clsp", target, &data)
    };
    json!({"result": if r.is_ok() { "Ok" } else { "Err" }})
}

// read_new_file on a real scratch tree: directories d0..dk-1, the file present where exists[i]
fn read_new_file_k(case: &Value, inputs: &Value) -> Value {
    use chialisp::compiler::compiler::DefaultCompilerOpts;
    use chialisp::compiler::comptypes::CompilerOpts;
    use chialisp::compiler::dialect::AcceptedDialect;
    let k = case["dirs"].as_u64().unwrap() as usize;
    let file = case["file"].as_str().unwrap();
    let root = std::env::temp_dir().join(format!("verif_c18_{}", std::process::id()));
    let _ = std::fs::remove_dir_all(&root);
    let mut dirs = Vec::new();
    for i in 0..k {
        let d = root.join(format!("d{}", i));
        std::fs::create_dir_all(&d).unwrap();
        if inputs["exists"][i].as_bool().unwrap_or(false) {
            std::fs::write(d.join(file), format!("content-of-d{}/{}", i, file)).unwrap();
        }
        dirs.push(d.to_str().unwrap().to_string());
    }
    let strict = inputs["strict"].as_bool().unwrap_or(false);
    let opts = Rc::new(DefaultCompilerOpts::new("from.clsp")).set_search_paths(&dirs)
        .set_dialect(AcceptedDialect { stepping: None, strict, int_fix: false });
    let r = opts.read_new_file("from.clsp".to_string(), file.to_string());
    let out = match r {
        Ok((name, content)) => {
            let rel = name.strip_prefix(&format!("{}/", root.to_str().unwrap())).unwrap_or(&name).to_string();
            let content_ok = if file.starts_with('*') { !String::from_utf8_lossy(&content).starts_with("content-of-") } else { String::from_utf8_lossy(&content) == format!("content-of-{}", rel) };
            json!({"rel": {"name": rel}, "content_ok": content_ok})
        }
        Err(_) => json!({"rel": {"err": true}}),
    };
    let _ = std::fs::remove_dir_all(&root);
    out
}

// compile a modern program and run it on an argument tree
fn compile_run_k(_case: &Value, inputs: &Value) -> Value {
    use chialisp::classic::clvm_tools::stages::stage_0::TRunProgram;
    use chialisp::compiler::clvm::convert_to_clvm_rs;
    use chialisp::compiler::compiler::{compile_file, DefaultCompilerOpts};
    use chialisp::compiler::comptypes::CompilerOpts;
    use std::collections::HashMap;
    let mut a = Allocator::new();
    let runner = Rc::new(DefaultProgramRunner::new());
    let mut opts: Rc<dyn CompilerOpts> = Rc::new(DefaultCompilerOpts::new("*t*"));
    if inputs["optimize"].as_bool().unwrap_or(false) {
        opts = opts.set_optimize(true);
    }
    let mut syms = HashMap::new();
    let src = inputs["source"].as_str().unwrap();
    let compiled = match compile_file(&mut a, runner.clone(), opts, src, &mut syms) {
        Ok(c) => c,
        Err(e) => return json!({"compile_err": e.1}),
    };
    let prog = match convert_to_clvm_rs(&mut a, Rc::new(compiled)) {
        Ok(p) => p,
        Err(_) => return json!({"compile_err": "convert"}),
    };
    let args = json_to_tree(&mut a, &inputs["args"]);
    let result = match runner.run_program(&mut a, prog, args, None) {
        Ok(r) => json!({"ok": tree_to_json(&a, r.1)}),
        Err(_) => json!({"err": true}),
    };
    json!({"compiled": tree_to_json(&a, prog), "result": result})
}

// an interactive session: every line through Repl::process_line, the results printed the way the REPL prints them
fn repl_k(_case: &Value, inputs: &Value) -> Value {
    use chialisp::compiler::compiler::DefaultCompilerOpts;
    use chialisp::compiler::comptypes::CompilerOpts;
    use chialisp::compiler::repl::Repl;
    let mut a = Allocator::new();
    let opts: Rc<dyn CompilerOpts> = Rc::new(DefaultCompilerOpts::new("*repl*"));
    let runner = Rc::new(DefaultProgramRunner::new());
    let mut repl = Repl::new(opts, runner);
    let mut outs = Vec::new();
    for l in inputs["lines"].as_array().unwrap().iter() {
        match repl.process_line(&mut a, l.as_str().unwrap().to_string()) {
            Ok(Some(bf)) => outs.push(json!(bf.to_sexp().to_string())),
            Ok(None) => outs.push(json!("Ok:None")),
            Err(e) => outs.push(json!(format!("Err:{}", e.1))),
        }
    }
    json!({"outputs": outs})
}

// the debugger's stepping loop, as `cldb` drives it, on (program, args); returns the rows and checks them against clvmr
fn cldb_trace_k(_case: &Value, inputs: &Value) -> Value {
    use chialisp::classic::clvm_tools::clvmc::compile_clvm_text_maybe_opt;
    use chialisp::classic::clvm_tools::stages::stage_0::TRunProgram;
    use chialisp::compiler::cldb::{CldbNoOverride, CldbRun, CldbRunEnv};
    use chialisp::compiler::clvm::{convert_from_clvm_rs, start_step};
    use chialisp::compiler::compiler::DefaultCompilerOpts;
    use chialisp::compiler::comptypes::CompilerOpts;
    use chialisp::compiler::prims::prim_map;
    use chialisp::compiler::srcloc::Srcloc;
    use std::collections::HashMap;
    let mut a = Allocator::new();
    let prog = if let Some(src) = inputs.get("source").and_then(|v| v.as_str()) {
        let opts: Rc<dyn CompilerOpts> = Rc::new(DefaultCompilerOpts::new("*t*"));
        let mut syms = HashMap::new();
        match compile_clvm_text_maybe_opt(&mut a, inputs["optimize"].as_bool().unwrap_or(false), opts, &mut syms, src, "*t*", true) {
            Ok(p) => p,
            Err(e) => return json!({"compile_err": format!("{:?}", e)}),
        }
    } else {
        json_to_tree(&mut a, &inputs["prog"])
    };
    let args = json_to_tree(&mut a, &inputs["args"]);
    let runner = Rc::new(DefaultProgramRunner::new());
    let consensus = match runner.run_program(&mut a, prog, args, None) {
        Ok(r) => json!({"ok": tree_to_json(&a, r.1)}),
        Err(_) => json!({"err": true}),
    };
    let rp = convert_from_clvm_rs(&mut a, Srcloc::start("*t*"), prog).unwrap();
    let ra = convert_from_clvm_rs(&mut a, Srcloc::start("*t*"), args).unwrap();
    let env = Box::new(CldbRunEnv::new(None, Rc::new(vec![]), Box::new(CldbNoOverride::new())));
    let mut run = CldbRun::new(runner.clone(), prim_map(), env, start_step(rp, ra));
    let mut rows = Vec::new();
    let mut trace: Vec<Value> = Vec::new();
    let mut n = 0;
    while !run.is_ended() && n < 5000 {
        n += 1;
        let emitted = run.step(&mut a);
        {
            use chialisp::compiler::clvm::RunStep;
            let d = match run.current_step() {
                RunStep::Done(_, x) => format!("Done {}", x),
                RunStep::OpResult(_, x, _) => format!("OpResult {}", x),
                RunStep::Op(h, _, t, Some(r), _) => format!("Op {} tail={} rest={}", h, t, r.len()),
                RunStep::Op(h, _, t, None, _) => format!("OpReady {} tail={}", h, t),
                RunStep::Step(s, _, _) => format!("Step {}", s),
            };
            trace.push(json!(format!("{}{}", if emitted.is_some() { "ROW " } else { "" }, d)));
        }
        if let Some(r) = emitted {
            let m: serde_json::Map<String, Value> = r.into_iter().map(|(k, v)| (k, json!(v))).collect();
            rows.push(Value::Object(m));
        }
    }
    let fin = run.final_result().map(|x| x.to_string());
    // re-read every row that reports an operator, its arguments and a value, and ask clvmr whether it is true
    let mut false_rows = Vec::new();
    let mut mixed_rows = Vec::new();
    for (k, r) in rows.iter().enumerate() {
        let (op, ar, va) = (r.get("Operator").and_then(|v| v.as_str()), r.get("Arguments").and_then(|v| v.as_str()), r.get("Value").and_then(|v| v.as_str()));
        if let (Some(op), Some(ar), Some(va)) = (op, ar, va) {
            if op == "2" { mixed_rows.push(k); continue; }
            let mut b = Allocator::new();
            let parsed = (chialisp::classic::clvm_tools::binutils::assemble(&mut b, op), chialisp::classic::clvm_tools::binutils::assemble(&mut b, ar), chialisp::classic::clvm_tools::binutils::assemble(&mut b, va));
            if let (Ok(o), Ok(mut al), Ok(v)) = parsed {
                let mut items = Vec::new();
                while let SExp::Pair(f, rest) = b.sexp(al) { items.push(f); al = rest; }
                let mut call = b.nil();
                let q = b.one();
                for it in items.iter().rev() { let qa = b.new_pair(q, *it).unwrap(); call = b.new_pair(qa, call).unwrap(); }
                let prog2 = b.new_pair(o, call).unwrap();
                let nil = b.nil();
                match runner.run_program(&mut b, prog2, nil, None) {
                    Ok(res) => { if tree_to_json(&b, res.1) != tree_to_json(&b, v) { false_rows.push(k); } }
                    Err(_) => false_rows.push(k),
                }
            }
        }
    }
    let final_matches = match (&consensus.get("ok"), run.final_result()) {
        (Some(c), Some(f)) => {
            let mut b = Allocator::new();
            match chialisp::compiler::clvm::convert_to_clvm_rs(&mut b, f) { Ok(n) => json!(tree_to_json(&b, n) == **c), Err(_) => json!(false) }
        }
        _ => Value::Null,
    };
    json!({"consensus": consensus, "rows": rows, "final": fin, "ended": run.is_ended(), "trace": trace, "false_rows": false_rows, "mixed_rows": mixed_rows, "final_matches": final_matches})
}

// the unused-argument check through its public entry point
fn check_unused_k(_case: &Value, inputs: &Value) -> Value {
    use chialisp::classic::clvm_tools::debug::check_unused;
    use chialisp::compiler::compiler::DefaultCompilerOpts;
    use chialisp::compiler::comptypes::CompilerOpts;
    let opts: Rc<dyn CompilerOpts> = Rc::new(DefaultCompilerOpts::new("*t*"));
    match check_unused(opts, inputs["source"].as_str().unwrap()) {
        Ok((ok, text)) => {
            let mut names: Vec<String> = text.lines().filter(|l| l.starts_with(" - ")).map(|l| l[3..].to_string()).collect();
            names.sort();
            json!({"ok": ok, "unused": names, "text": text})
        }
        Err(e) => json!({"err": e.1}),
    }
}

// the library entry point (dialect detection included), then the emitted program run by clvmr on the given arguments
fn compile_text_k(_case: &Value, inputs: &Value) -> Value {
    use chialisp::classic::clvm_tools::clvmc::compile_clvm_text_maybe_opt;
    use chialisp::classic::clvm_tools::stages::stage_0::TRunProgram;
    use chialisp::compiler::compiler::DefaultCompilerOpts;
    use chialisp::compiler::comptypes::CompilerOpts;
    use std::collections::HashMap;
    let mut a = Allocator::new();
    let opts: Rc<dyn CompilerOpts> = Rc::new(DefaultCompilerOpts::new("*t*"));
    let mut syms = HashMap::new();
    let src = inputs["source"].as_str().unwrap();
    let do_opt = inputs["optimize"].as_bool().unwrap_or(false);
    let prog = match compile_clvm_text_maybe_opt(&mut a, do_opt, opts, &mut syms, src, "*t*", true) {
        Ok(p) => p,
        Err(e) => return json!({"compile_err": format!("{:?}", e)}),
    };
    let compiled = tree_to_json(&a, prog);
    let mut symv: Vec<(String, String)> = syms.into_iter().collect();
    symv.sort();
    if let Some(fname) = inputs.get("fn").and_then(|v| v.as_str()) {
        // C13: extract the function named by a symbol-table entry from the emitted program and run it
        use chialisp::classic::clvm_tools::sha256tree::sha256tree;
        fn find(a: &mut Allocator, n: NodePtr, want: &str) -> Option<NodePtr> {
            if sha256tree(a, n).hex() == want { return Some(n); }
            if let SExp::Pair(l, r) = a.sexp(n) {
                if let Some(x) = find(a, l, want) { return Some(x); }
                return find(a, r, want);
            }
            None
        }
        let mut found = None;
        for (k, v) in symv.iter() {
            if v == fname && k.len() == 64 {
                if let Some(code) = find(&mut a, prog, k) { found = Some((k.clone(), code)); break; }
            }
        }
        let (key, code) = match found {
            Some(x) => x,
            None => return json!({"compiled": compiled, "symbols": symv, "fn_entry": false}),
        };
        let args_text = symv.iter().find(|(k, _)| *k == format!("{key}_arguments")).map(|(_, v)| v.clone());
        let args_ok = match inputs.get("fn_args_text").and_then(|v| v.as_str()) { Some(t) => json!(args_text.as_deref() == Some(t)), None => Value::Null };
        // (a (q . MAIN) (c (q . ENV) 1))
        let left = (|| {
            let r1 = match a.sexp(prog) { SExp::Pair(_, r) => r, _ => return None };
            let r2 = match a.sexp(r1) { SExp::Pair(_, r) => r, _ => return None };
            let c = match a.sexp(r2) { SExp::Pair(l, _) => l, _ => return None };
            let c1 = match a.sexp(c) { SExp::Pair(_, r) => r, _ => return None };
            let q = match a.sexp(c1) { SExp::Pair(l, _) => l, _ => return None };
            match a.sexp(q) { SExp::Pair(_, r) => Some(r), _ => None }
        })();
        let left = match left { Some(l) => l, None => return json!({"compiled": compiled, "symbols": symv, "fn_entry": true, "shape": false}) };
        let fargs = json_to_tree(&mut a, &inputs["fn_args"]);
        let env = a.new_pair(left, fargs).unwrap();
        let runner = DefaultProgramRunner::new();
        let result = match runner.run_program(&mut a, code, env, None) {
            Ok(r) => json!({"ok": tree_to_json(&a, r.1)}),
            Err(_) => json!({"err": true}),
        };
        let matches = match inputs.get("expect") {
            Some(e) if !e.is_null() => json!(result.get("ok") == Some(e)),
            _ => Value::Null,
        };
        return json!({"compiled": compiled, "symbols": symv, "fn_entry": true, "fn_args_ok": args_ok, "fn_result": result, "fn_matches_expect": matches});
    }
    if let Some(n) = inputs.get("repeat").and_then(|v| v.as_u64()) {
        // C05: rebuild the same text n times in this process (fresh hash keys per map, advancing name counter)
        let mut differs = false;
        let first_syms = json!(symv);
        for _ in 0..n {
            let mut b = inputs.clone();
            b.as_object_mut().unwrap().remove("repeat");
            b.as_object_mut().unwrap().remove("args");
            let r = compile_text_k(_case, &b);
            if r.get("compiled") != Some(&compiled) || r.get("symbols") != Some(&first_syms) { differs = true; }
        }
        return json!({"compiled": compiled, "symbols": symv, "repeat_differs": differs});
    }
    if inputs.get("args").is_none() || inputs["args"].is_null() {
        return json!({"compiled": compiled, "symbols": symv});
    }
    let args = json_to_tree(&mut a, &inputs["args"]);
    let runner = DefaultProgramRunner::new();
    let result = match runner.run_program(&mut a, prog, args, None) {
        Ok(r) => json!({"ok": tree_to_json(&a, r.1)}),
        Err(_) => json!({"err": true}),
    };
    let matches = match inputs.get("expect") {
        Some(e) if !e.is_null() => json!(result.get("ok") == Some(e)),
        _ => Value::Null,
    };
    let mut out = json!({"compiled": compiled, "symbols": symv, "result": result, "matches_expect": matches});
    if let Some(args_b) = inputs.get("args_b") {
        // C17: the same program on a second argument value; is the parameter reported unused by the tool?
        let ab = json_to_tree(&mut a, args_b);
        out["result_args_b"] = match runner.run_program(&mut a, prog, ab, None) {
            Ok(r) => json!({"ok": tree_to_json(&a, r.1)}),
            Err(_) => json!({"err": true}),
        };
        if let Some(p) = inputs.get("param").and_then(|v| v.as_str()) {
            let rep = check_unused_k(_case, inputs);
            out["param_reported_unused"] = json!(rep["unused"].as_array().map(|v| v.iter().any(|x| x.as_str() == Some(p))).unwrap_or(false));
        }
    }
    if let Some(src_b) = inputs.get("source_b").and_then(|v| v.as_str()) {
        // a second build of the same program (other dialect sigil / optimise flag) on the same arguments
        let mut b = inputs.clone();
        b["source"] = json!(src_b);
        b["optimize"] = inputs["optimize_b"].clone();
        b.as_object_mut().unwrap().remove("source_b");
        let rb = compile_text_k(_case, &b);
        out["result_b"] = rb.get("result").cloned().unwrap_or(json!({"compile_err": rb.get("compile_err")}));
        out["compiled_b"] = rb.get("compiled").cloned().unwrap_or(Value::Null);
        out["matches_expect_b"] = rb.get("matches_expect").cloned().unwrap_or(Value::Null);
    }
    out
}

// classic compiler (no dialect sigil) through the library entry point, then run
fn classic_compile_run_k(_case: &Value, inputs: &Value) -> Value {
    use chialisp::classic::clvm_tools::clvmc::compile_clvm_text;
    use chialisp::classic::clvm_tools::stages::stage_0::TRunProgram;
    use chialisp::compiler::compiler::DefaultCompilerOpts;
    use chialisp::compiler::comptypes::CompilerOpts;
    use std::collections::HashMap;
    let mut a = Allocator::new();
    let opts: Rc<dyn CompilerOpts> = Rc::new(DefaultCompilerOpts::new("*t*"));
    let mut syms = HashMap::new();
    let src = inputs["source"].as_str().unwrap();
    let prog = match compile_clvm_text(&mut a, opts, &mut syms, src, "*t*", true) {
        Ok(p) => p,
        Err(e) => return json!({"compile_err": format!("{:?}", e)}),
    };
    let args = json_to_tree(&mut a, &inputs["args"]);
    let runner = DefaultProgramRunner::new();
    let result = match runner.run_program(&mut a, prog, args, None) {
        Ok(r) => json!({"ok": tree_to_json(&a, r.1)}),
        Err(_) => json!({"err": true}),
    };
    json!({"compiled": tree_to_json(&a, prog), "result": result})
}

// stepping evaluator vs clvmr on (program tree, env tree), both given as CLVM trees
fn run_both_tree_k(_case: &Value, inputs: &Value) -> Value {
    use chialisp::compiler::clvm::{convert_from_clvm_rs, convert_to_clvm_rs, run, NewStyleIntConversion};
    use chialisp::compiler::prims::prim_map;
    use chialisp::compiler::srcloc::Srcloc;
    use chialisp::classic::clvm_tools::stages::stage_0::TRunProgram;
    let _g = NewStyleIntConversion::new(true);
    let mut a = Allocator::new();
    let p = json_to_tree(&mut a, &inputs["prog"]);
    let e = json_to_tree(&mut a, &inputs["env"]);
    let runner = Rc::new(DefaultProgramRunner::new());
    let rp = convert_from_clvm_rs(&mut a, Srcloc::start("*t*"), p).unwrap();
    let re = convert_from_clvm_rs(&mut a, Srcloc::start("*t*"), e).unwrap();
    let stepper = match run(&mut a, runner.clone(), prim_map(), rp, re, None, Some(100000)) {
        Ok(v) => match convert_to_clvm_rs(&mut a, v) {
            Ok(n) => json!({"ok": tree_to_json(&a, n)}),
            Err(_) => json!({"err": true}),
        },
        Err(_) => json!({"err": true}),
    };
    let cl = match runner.run_program(&mut a, p, e, None) {
        Ok(r) => json!({"ok": tree_to_json(&a, r.1)}),
        Err(_) => json!({"err": true}),
    };
    json!({"stepper": stepper, "clvmr": cl})
}

// modern output optimiser on a CLVM program: value before and after, judged by clvmr
fn output_optimize_k(_case: &Value, inputs: &Value) -> Value {
    use chialisp::classic::clvm_tools::stages::stage_0::TRunProgram;
    use chialisp::compiler::clvm::{convert_from_clvm_rs, convert_to_clvm_rs, NewStyleIntConversion};
    use chialisp::compiler::compiler::DefaultCompilerOpts;
    use chialisp::compiler::comptypes::CompilerOpts;
    use chialisp::compiler::dialect::AcceptedDialect;
    use chialisp::compiler::optimize::get_optimizer;
    use chialisp::compiler::srcloc::Srcloc;
    let _g = NewStyleIntConversion::new(true);
    let mut a = Allocator::new();
    let p = json_to_tree(&mut a, &inputs["prog"]);
    let e = json_to_tree(&mut a, &inputs["env"]);
    let runner = DefaultProgramRunner::new();
    let before = match runner.run_program(&mut a, p, e, None) {
        Ok(r) => json!({"ok": tree_to_json(&a, r.1)}),
        Err(_) => json!({"err": true}),
    };
    let l = Srcloc::start("*t*");
    let rp = convert_from_clvm_rs(&mut a, l.clone(), p).unwrap();
    let opts: Rc<dyn CompilerOpts> = Rc::new(DefaultCompilerOpts::new("*t*")).set_optimize(true)
        .set_dialect(AcceptedDialect { stepping: Some(23), strict: true, int_fix: true });
    let mut optimizer = match get_optimizer(&l, opts.clone()) { Ok(o) => o, Err(_) => return json!({"before": before, "optimizer": "none"}) };
    let borrowed: &chialisp::compiler::sexp::SExp = &rp;
    let out = match optimizer.post_codegen_output_optimize(opts, borrowed.clone()) {
        Ok(o) => o,
        Err(_) => return json!({"before": before, "after": {"err": true}, "rejected": true}),
    };
    let ot = convert_to_clvm_rs(&mut a, Rc::new(out)).unwrap();
    let after = match runner.run_program(&mut a, ot, e, None) {
        Ok(r) => json!({"ok": tree_to_json(&a, r.1)}),
        Err(_) => json!({"err": true}),
    };
    json!({"before": before, "optimized": tree_to_json(&a, ot), "after": after})
}

// brief_path_selection through the public function on a chain of f/r over an integer path
fn brief_chain_k(_case: &Value, inputs: &Value) -> Value {
    use chialisp::compiler::optimize::brief::brief_path_selection;
    use chialisp::compiler::sexp::SExp as R;
    use chialisp::compiler::srcloc::Srcloc;
    use num_bigint::{BigInt, Sign};
    let l = Srcloc::start("*t*");
    let x = BigInt::from_bytes_be(Sign::Plus, &bytes_of(&inputs["x"]));
    let mut body = Rc::new(R::Integer(l.clone(), x));
    for b in inputs["ops"].as_array().unwrap() {
        let op: BigInt = if b.as_bool().unwrap() { 6u32.into() } else { 5u32.into() };
        body = Rc::new(R::Cons(l.clone(), Rc::new(R::Integer(l.clone(), op)),
                               Rc::new(R::Cons(l.clone(), body, Rc::new(R::Nil(l.clone()))))));
    }
    let (_, out) = brief_path_selection(body);
    match &*out {
        R::Integer(_, i) => json!({"path": i.to_string()}),
        _ => json!({"other": true}),
    }
}

// classic optimize_sexp on a CLVM program: value before and after, judged by clvmr
fn classic_optimize_k(_case: &Value, inputs: &Value) -> Value {
    use chialisp::classic::clvm_tools::stages::stage_0::TRunProgram;
    let mut a = Allocator::new();
    let p = json_to_tree(&mut a, &inputs["prog"]);
    let e = json_to_tree(&mut a, &inputs["env"]);
    let runner = Rc::new(DefaultProgramRunner::new());
    let before = match runner.run_program(&mut a, p, e, None) {
        Ok(r) => json!({"ok": tree_to_json(&a, r.1)}),
        Err(_) => json!({"err": true}),
    };
    let ot = match optimize_sexp(&mut a, p, runner.clone()) {
        Ok(o) => o,
        Err(_) => return json!({"before": before, "after": {"err": true}, "rejected": true}),
    };
    let after = match runner.run_program(&mut a, ot, e, None) {
        Ok(r) => json!({"ok": tree_to_json(&a, r.1)}),
        Err(_) => json!({"err": true}),
    };
    json!({"before": before, "optimized": tree_to_json(&a, ot), "after": after})
}

// assemble arbitrary text
fn assemble_any_k(_case: &Value, inputs: &Value) -> Value {
    let mut a = Allocator::new();
    let t = String::from_utf8_lossy(&bytes_of(&inputs["b"])).to_string();
    match chialisp::classic::clvm_tools::binutils::assemble(&mut a, &t) {
        Ok(n) => json!({"ok": tree_to_json(&a, n)}),
        Err(_) => json!({"err": true}),
    }
}

// assemble(text) -> tree (used to evaluate constant patterns natively)
fn assemble_k(_case: &Value, inputs: &Value) -> Value {
    let mut a = Allocator::new();
    match chialisp::classic::clvm_tools::binutils::assemble(&mut a, inputs["text"].as_str().unwrap()) {
        Ok(n) => json!({"ok": tree_to_json(&a, n)}),
        Err(e) => json!({"err": format!("{:?}", e)}),
    }
}


// C18 whole listing: a scratch tree of search directories and files; the dependency listing of a program, its compilation,
// and for every file whether removing it changes what the compilation produces (then the compilation reads it)
fn deps_k(_case: &Value, inputs: &Value) -> Value {
    use chialisp::compiler::compiler::{compile_file, DefaultCompilerOpts};
    use chialisp::compiler::comptypes::CompilerOpts;
    use chialisp::compiler::preprocessor::gather_dependencies;
    use chialisp::compiler::sexp::decode_string;
    use std::collections::HashMap;
    static CTR: std::sync::atomic::AtomicUsize = std::sync::atomic::AtomicUsize::new(0);
    let root = std::env::temp_dir().join(format!("verif_c18w_{}_{}", std::process::id(), CTR.fetch_add(1, std::sync::atomic::Ordering::SeqCst)));
    let _ = std::fs::remove_dir_all(&root);
    let mut dirs = Vec::new();
    for d in inputs["dirs"].as_array().unwrap().iter() {
        let p = root.join(d.as_str().unwrap());
        std::fs::create_dir_all(&p).unwrap();
        dirs.push(p.to_str().unwrap().to_string());
    }
    let files: Vec<(String, String)> = inputs["files"].as_array().unwrap().iter()
        .map(|f| (f[0].as_str().unwrap().to_string(), f[1].as_str().unwrap().to_string())).collect();
    for (rel, content) in files.iter() {
        std::fs::write(root.join(rel), content).unwrap();
    }
    let src = inputs["source"].as_str().unwrap();
    let input_name = root.join("main.clsp").to_str().unwrap().to_string();
    let prefix = format!("{}/", root.to_str().unwrap());
    let rel = |s: &str| s.strip_prefix(&prefix).unwrap_or(s).to_string();
    let mk_opts = || -> Rc<dyn CompilerOpts> { Rc::new(DefaultCompilerOpts::new(&input_name)).set_search_paths(&dirs) };
    let compile = || -> String {
        let mut a = Allocator::new();
        let runner = Rc::new(DefaultProgramRunner::new());
        let mut syms = HashMap::new();
        match compile_file(&mut a, runner, mk_opts(), src, &mut syms) {
            Ok(c) => format!("ok {}", c),
            Err(e) => format!("err {}", e.1.replace(&prefix, "")),
        }
    };
    let listed = match gather_dependencies(mk_opts(), &input_name, src) {
        Ok(l) => json!(l.iter().map(|d| rel(&decode_string(&d.name))).collect::<Vec<String>>()),
        Err(e) => json!({"err": e.1.replace(&prefix, "")}),
    };
    let base = compile();
    let mut influences = Vec::new();
    for (r, content) in files.iter() {
        std::fs::remove_file(root.join(r)).unwrap();
        let without = compile();
        std::fs::write(root.join(r), content).unwrap();
        if without != base {
            influences.push(r.clone());
        }
    }
    let _ = std::fs::remove_dir_all(&root);
    json!({"listed": listed, "compile": base, "influences": influences})
}

pub fn dispatch(kernel: &str, case: &Value, inputs: &Value) -> Value {
    match kernel {
        "assemble" => assemble_k(case, inputs),
        "int_from_bytes" => int_from_bytes_k(case, inputs),
        "decode" => decode_k(case, inputs),
        "assemble_any" => assemble_any_k(case, inputs),
        "classic_optimize" => classic_optimize_k(case, inputs),
        "brief_chain" => brief_chain_k(case, inputs),
        "output_optimize" => output_optimize_k(case, inputs),
        "run_both_tree" => run_both_tree_k(case, inputs),
        "classic_compile_run" => classic_compile_run_k(case, inputs),
        "name_lookup" => compile_run_k(case, inputs),
        "compile_run" => compile_run_k(case, inputs),
        "compile_text" => compile_text_k(case, inputs),
        "check_unused" => check_unused_k(case, inputs),
        "repl" => repl_k(case, inputs),
        "cldb_trace" => cldb_trace_k(case, inputs),
        "read_new_file" => read_new_file_k(case, inputs),
        "deps" => deps_k(case, inputs),
        "atomic_write" => atomic_write_k(case, inputs),
        "intmode" => intmode_k(case, inputs),
        "classic_text" => classic_text_k(case, inputs),
        "modern_text" => modern_text_k(case, inputs),
        "parse" => parse_k(case, inputs),
        "tables" => tables_k(case, inputs),
        "eqhash" => eqhash_k(case, inputs),
        "conv" => conv_k(case, inputs),
        "run_both" => run_both_k(case, inputs),
        "encode" => encode_k(case, inputs),
        "path_optimizer" => path_optimizer_k(case, inputs),
        "nodepath" => nodepath(case, inputs),
        _ => json!({"error": format!("unknown kernel {}", kernel)}),
    }
}
