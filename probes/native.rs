use chialisp::classic::clvm::__type_compatibility__::{Bytes, BytesFromType, Stream};
use chialisp::classic::clvm::casts::{int_from_bytes, bigint_from_bytes};
use chialisp::classic::clvm::serialize::{sexp_from_stream, sexp_to_stream, SimpleCreateCLVMObject};
use clvmr::allocator::Allocator;

#[test]
fn ifb() {
    let r = int_from_bytes(Bytes::new(Some(BytesFromType::Raw(vec![1,2,3,4]))), None).unwrap();
    println!("int_from_bytes {:x}", r);
    let r = bigint_from_bytes(&Bytes::new(Some(BytesFromType::Raw(vec![1,2,3,4]))), None);
    println!("bigint_from_bytes {:x}", r);
    let r = bigint_from_bytes(&Bytes::new(Some(BytesFromType::Raw(vec![1,2,3,4,5]))), None);
    println!("bigint_from_bytes5 {:x}", r);
}

#[test]
fn big_atom() {
    for size in [0xfffffusize, 0x100000, 0x100001, 0x123456] {
        let mut a = Allocator::new();
        let data: Vec<u8> = (0..size).map(|i| (i % 251) as u8 | 0x80).collect();
        let n = a.new_atom(&data).unwrap();
        let mut s = Stream::new(None);
        sexp_to_stream(&mut a, n, &mut s);
        let bytes = s.get_value();
        let cons = clvmr::serde::node_to_bytes(&a, n).unwrap();
        println!("size {:x} ser-agrees-with-clvmr {}", size, bytes.data()[..] == cons[..]);
        let mut s2 = Stream::new(Some(bytes));
        let r = sexp_from_stream(&mut a, &mut s2, Box::new(SimpleCreateCLVMObject {}));
        match r {
            Ok(r) => { let got = a.atom(r.1); println!("  decoded len {:x} same {}", got.as_ref().len(), got.as_ref() == &data[..]); }
            Err(e) => println!("  err {:?}", e),
        }
    }
}
