use std::collections::HashMap;
use std::rc::Rc;
use chialisp::classic::clvm_tools::binutils::{assemble, disassemble};
use chialisp::classic::clvm_tools::stages::stage_0::DefaultProgramRunner;
use chialisp::compiler::compiler::{compile_file, DefaultCompilerOpts};
use chialisp::compiler::comptypes::CompilerOpts;
use chialisp::classic::clvm_tools::clvmc::compile_clvm_text;
use clvmr::allocator::Allocator;

fn compile_classic_or_modern(src: &str) -> String {
    let mut a = Allocator::new();
    let mut syms = HashMap::new();
    let opts: Rc<dyn CompilerOpts> = Rc::new(DefaultCompilerOpts::new("*t*"));
    match compile_clvm_text(&mut a, opts, &mut syms, src, "*t*", false) {
        Ok(n) => disassemble(&a, n, None),
        Err(e) => format!("ERR {:?}", e),
    }
}

#[test]
fn many_params() {
    for n in [30usize, 31, 32, 33, 62, 63, 64, 65, 70] {
        let params: Vec<String> = (0..n).map(|i| format!("p{}", i)).collect();
        let last = params[n - 1].clone();
        for sigil in ["", "(include *standard-cl-21*)", "(include *standard-cl-23*)"] {
            let src = format!("(mod ({}) {} {})", params.join(" "), sigil, last);
            let r = std::panic::catch_unwind(|| compile_classic_or_modern(&src));
            println!("n={} sigil={:?} => {:?}", n, sigil, r.map(|s| if s.len() > 80 { s[..80].to_string() } else { s }));
        }
    }
}

#[test]
fn backslash_roundtrip() {
    for atom in [&b"a\\b"[..], &b"ab\\"[..], &b"a'b"[..], &b"abc"[..], &[1u8,2,3,4][..], &[0x80u8,0,0,1][..]] {
        let mut a = Allocator::new();
        let n = a.new_atom(atom).unwrap();
        let text = disassemble(&a, n, None);
        let back = assemble(&mut a, &text);
        match back {
            Ok(b) => println!("{:?} -> {} -> {:?} same={}", atom, text, a.atom(b).as_ref(), a.atom(b).as_ref() == atom),
            Err(e) => println!("{:?} -> {} -> ERR {:?}", atom, text, e),
        }
    }
}
