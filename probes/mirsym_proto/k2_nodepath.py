import sys, time, json
import z3
from mirparse import parse_dump
from mirsym import *
import models

funcs = parse_dump(open('/scratch/mir.txt').read())

def sym_bytes(n, tag):
    return [Int(z3.BitVec('%s%d' % (tag, i), 8), 8, False) for i in range(n)]

def unsigned_of(items):
    if not items: return z3.BitVecVal(0, BIGW)
    e = z3.Concat(*[b.e for b in items]) if len(items) > 1 else items[0].e
    return z3.ZeroExt(BIGW - 8*len(items), e)

def vec_unsigned(vec):
    return unsigned_of(vec.items)

report = []
t0 = time.time()
for n in range(1, 9):
    eng = Engine(funcs, '/repo', loop_bound=80)
    inp = sym_bytes(n, 'a')
    def harness(e):
        cell = Cell(Vec(list(inp)))
        sl = Slice(Ref(cell), 0, n)
        num = e.call('util::number_from_u8', [sl])
        np_ = e.call('NodePath::new', [Enum('Option', 'Some', [num])])
        out = e.call('NodePath::as_path', [Ref(Cell(np_))])     # Bytes struct
        data = out.fields[0]
        ref = unsigned_of(inp)
        got = vec_unsigned(data)
        # canonical: no leading zero byte, equal value
        ok = got == ref
        if data.items:
            ok = z3.And(ok, data.items[0].e != 0)
        return [('nodepath_new_roundtrip', ok, data)]
    res = eng.explore(harness)
    viol = None
    kinds = {}
    for kind, pc, obs, dec in res:
        kinds[kind] = kinds.get(kind, 0) + 1
        if kind == 'done':
            for name, ok, data in obs:
                s = z3.Solver(); s.add(*pc); s.add(z3.Not(ok))
                if s.check() == z3.sat:
                    mdl = s.model()
                    cex = [mdl.eval(b.e, model_completion=True).as_long() for b in inp]
                    got = [mdl.eval(b.e, model_completion=True).as_long() for b in data.items]
                    viol = (cex, got)
                    break
        elif kind == 'panic':
            s = z3.Solver(); s.add(*pc)
            if s.check() == z3.sat:
                mdl = s.model()
                viol = ('panic', obs, [mdl.eval(b.e, model_completion=True).as_long() for b in inp])
        if viol: break
    print('len', n, 'paths', kinds, 'stats', eng.stats, 'violation', viol, 'encoded', len(eng.encoded))
print('wall', time.time() - t0)
