"""Parser for rustc -Zunpretty=mir text dumps (prototype).

Produces Function objects with basic blocks whose statements/terminators are
kept as lightly-parsed tuples.  Only the subset of MIR syntax that the kernels
we care about use is handled; anything else raises MirSyntax so that the
caller reports "encoder cannot handle" (inconclusive), never a verdict.
"""
import re
from dataclasses import dataclass, field


CONSTS = {}


class MirSyntax(Exception):
    pass


@dataclass
class Block:
    name: str
    cleanup: bool
    stmts: list = field(default_factory=list)   # raw strings
    term: str = ""


@dataclass
class Function:
    name: str
    params: list          # [(local, type)]
    ret: str
    locals: dict          # local -> type
    blocks: dict          # name -> Block
    line: int = 0


FN_RE = re.compile(r'^fn (.+)$')


def split_top(s, sep=','):
    """split s on sep at nesting depth 0 of ()[]{}<> and outside strings."""
    out, depth, cur, i, n = [], 0, [], 0, len(s)
    instr = False
    while i < n:
        c = s[i]
        if instr:
            cur.append(c)
            if c == '\\':
                cur.append(s[i + 1]); i += 1
            elif c == '"':
                instr = False
        elif c == '"':
            instr = True; cur.append(c)
        elif c in '([{':
            depth += 1; cur.append(c)
        elif c in ')]}':
            depth -= 1; cur.append(c)
        elif c == '<' and _is_generic_open(s, i):
            depth += 1; cur.append(c)
        elif c == '>' and depth > 0 and _is_generic_close(s, i):
            depth -= 1; cur.append(c)
        elif c == sep and depth == 0:
            out.append(''.join(cur).strip()); cur = []
        else:
            cur.append(c)
        i += 1
    last = ''.join(cur).strip()
    if last:
        out.append(last)
    return out


def _is_generic_open(s, i):
    # '<' is generic bracket unless surrounded by spaces (comparison never
    # appears textually in MIR: comparisons are Lt(..)) or part of '<<'/'<='.
    nxt = s[i + 1] if i + 1 < len(s) else ''
    return nxt not in ('=', '<', ' ')


def _is_generic_close(s, i):
    prev = s[i - 1] if i > 0 else ''
    return prev not in ('-', '=')   # '->' and '=>'


def find_matching(s, start, open_c='(', close_c=')'):
    depth = 0
    instr = False
    i = start
    while i < len(s):
        c = s[i]
        if instr:
            if c == '\\':
                i += 1
            elif c == '"':
                instr = False
        elif c == '"':
            instr = True
        elif c == open_c:
            depth += 1
        elif c == close_c:
            depth -= 1
            if depth == 0:
                return i
        i += 1
    raise MirSyntax('unbalanced: ' + s[start:start + 80])


def parse_signature(sig):
    # sig: "name(_1: T, _2: U) -> R {"
    sig = sig.rstrip()
    assert sig.endswith('{'), sig
    sig = sig[:-1].rstrip()
    # find the parameter list: the last top-level '(' that starts "(_1:" or "()"
    m = None
    for mm in re.finditer(r'\((?=_1: |\))', sig):
        m = mm
        # choose the first one whose matching paren is followed by end or ' -> '
        end = find_matching(sig, mm.start())
        rest = sig[end + 1:]
        if rest == '' or rest.startswith(' -> '):
            name = sig[:mm.start()]
            params_s = sig[mm.start() + 1:end]
            ret = rest[4:] if rest else '()'
            params = []
            for p in split_top(params_s):
                loc, ty = p.split(': ', 1)
                params.append((loc.strip(), ty.strip()))
            return name, params, ret
    raise MirSyntax('cannot parse signature: ' + sig)


def parse_dump(text):
    funcs = {}
    global CONSTS
    for m in re.finditer(r'^const ([\w:]+): (\w+) = const (.+);$', text, re.M):
        CONSTS.setdefault(m.group(1), m.group(3))
    lines = text.split('\n')
    i, n = 0, len(lines)
    while i < n:
        line = lines[i]
        m = FN_RE.match(line)
        cm = re.match(r'^(?:const|static) (.+?): (.+) = \{$', line)
        if cm:
            name, params, ret = cm.group(1), [], cm.group(2)
        elif not m or not line.rstrip().endswith('{'):
            i += 1
            continue
        else:
            try:
                name, params, ret = parse_signature(m.group(1))
            except Exception:
                i += 1
                continue
        f = Function(name, params, ret, {}, {}, i + 1)
        for loc, ty in params:
            f.locals[loc] = ty
        i += 1
        cur = None
        while i < n and lines[i] != '}':
            l = lines[i].strip()
            i += 1
            if not l or l.startswith('debug ') or l.startswith('scope ') or l == '}':
                if l == '}' and cur is not None:
                    cur = None
                continue
            mm = re.match(r'^let (mut )?(_\d+): (.+);$', l)
            if mm and cur is None:
                f.locals[mm.group(2)] = mm.group(3)
                continue
            mm = re.match(r'^(bb\d+)( \(cleanup\))?: \{$', l)
            if mm:
                cur = Block(mm.group(1), bool(mm.group(2)))
                f.blocks[cur.name] = cur
                continue
            if cur is None:
                continue
            # statements may span lines? (they don't in practice)
            if not l.endswith(';'):
                # multi-line statement: accumulate
                acc = l
                while i < n and not acc.endswith(';'):
                    acc += ' ' + lines[i].strip(); i += 1
                l = acc
            cur.stmts.append(l[:-1])
        for b in f.blocks.values():
            if b.stmts:
                b.term = b.stmts.pop()
        funcs.setdefault(name, f)      # keep runtime MIR, not the later 'MIR FOR CTFE' copy
        i += 1
    return funcs


if __name__ == '__main__':
    import sys
    fs = parse_dump(open(sys.argv[1]).read())
    print(len(fs), 'functions')
    for k in sys.argv[2:]:
        for name, f in fs.items():
            if k in name:
                print(name, f.params, '->', f.ret, len(f.blocks), 'blocks')
