"""Models of library functions for mirsym (prototype).

Every model here is part of the trusted base and is listed in evidence.
BigInt is a signed bit-vector of width BIGW; any operation whose exact result
does not fit ends the path as 'bound' (outside the stated bound), never as a
verdict.
"""
import re
import z3
from mirsym import (Int, Big, Bool, Struct, Enum, Vec, Cell, Ref, Slice, Opaque, Closure, RangeV,
                    mkint, concrete, Unsupported, PathEnd, BIGW, INT_TYPES)

MODELS = []


def model(pattern):
    def deco(fn):
        MODELS.append((re.compile(pattern), fn))
        return fn
    return deco


def bigval(n):
    return Big(z3.BitVecVal(n, BIGW))


def deref(eng, v, fr=None):
    while isinstance(v, Ref):
        v = eng._walk(v.cell.v, list(v.proj), fr)
    return v


def big_guard(eng, exact_wide, w2):
    """exact_wide: BV of width w2 >= BIGW holding the exact result; end path
    as 'bound' if it does not fit into BIGW signed."""
    res = z3.Extract(BIGW - 1, 0, exact_wide)
    fits = z3.SignExt(w2 - BIGW, res) == exact_wide
    if not eng.branch_bool(fits):
        raise PathEnd('bound', 'BigInt value exceeds %d bits' % BIGW)
    return Big(res)


# ---------------------------------------------------------------- BigInt
@model(r'^(classic::clvm::__type_compatibility__::)?bi_one$')
def _bi_one(eng, m, args, fr):
    return bigval(1)


@model(r'^(classic::clvm::__type_compatibility__::)?bi_zero$')
def _bi_zero(eng, m, args, fr):
    return bigval(0)


@model(r'^<BigInt as Clone>::clone$')
def _big_clone(eng, m, args, fr):
    return deref(eng, args[0], fr)


@model(r'^<BigInt as (PartialOrd|PartialEq)>::(lt|le|gt|ge|eq|ne)$')
def _big_cmp(eng, m, args, fr):
    a, b = deref(eng, args[0], fr).e, deref(eng, args[1], fr).e
    op = m.group(2)
    return Bool({'lt': a < b, 'le': a <= b, 'gt': a > b, 'ge': a >= b, 'eq': a == b, 'ne': a != b}[op])


def _as_big(eng, v, fr):
    v = deref(eng, v, fr)
    if isinstance(v, Big):
        return v.e
    if isinstance(v, Int):
        return (z3.SignExt if v.signed else z3.ZeroExt)(BIGW - v.w, v.e)
    raise Unsupported('not a number: %r' % (v,))


def _big_arith(eng, op, a, b):
    w2 = 2 * BIGW
    aa, bb = z3.SignExt(BIGW, a), z3.SignExt(BIGW, b)
    if op == 'add': return big_guard(eng, aa + bb, w2)
    if op == 'sub': return big_guard(eng, aa - bb, w2)
    if op == 'mul': return big_guard(eng, aa * bb, w2)
    if op == 'bitand': return Big(a & b)
    if op == 'bitor': return Big(a | b)
    if op == 'bitxor': return Big(a ^ b)
    if op in ('div', 'rem'):
        if eng.branch_bool(b == 0):
            raise PathEnd('panic', 'BigInt division by zero')
        return Big(a / b) if op == 'div' else Big(z3.SRem(a, b))   # truncating, like num-bigint
    raise Unsupported('bigint op ' + op)


@model(r'^<(&?)BigInt as (Add|Sub|Mul|Div|Rem|BitAnd|BitOr|BitXor)(<.*>)?>::(add|sub|mul|div|rem|bitand|bitor|bitxor)$')
def _big_bin(eng, m, args, fr):
    return _big_arith(eng, m.group(4), _as_big(eng, args[0], fr), _as_big(eng, args[1], fr))


@model(r'^<BigInt as (Add|Sub|Mul|Div|Rem|BitAnd|BitOr|BitXor)Assign(<.*>)?>::(add|sub|mul|div|rem|bitand|bitor|bitxor)_assign$')
def _big_bin_assign(eng, m, args, fr):
    ref = args[0]
    cur = deref(eng, ref, fr)
    res = _big_arith(eng, m.group(3), cur.e, _as_big(eng, args[1], fr))
    eng._set(ref.cell, list(ref.proj), res, fr)
    return ()


def _shift(eng, a, n, left):
    k = eng.concretize(n, 0, BIGW)
    if left:
        w2 = 2 * BIGW
        return big_guard(eng, z3.SignExt(BIGW, a) << k, w2)
    return Big(a >> k)           # arithmetic shift = floor division, like num-bigint


@model(r'^<BigInt as (Shl|Shr)<(\w+)>>::(shl|shr)$')
def _big_sh(eng, m, args, fr):
    return _shift(eng, _as_big(eng, args[0], fr), args[1], m.group(3) == 'shl')


@model(r'^<BigInt as (Shl|Shr)Assign<(\w+)>>::(shl|shr)_assign$')
def _big_sh_assign(eng, m, args, fr):
    ref = args[0]
    res = _shift(eng, deref(eng, ref, fr).e, args[1], m.group(3) == 'shl')
    eng._set(ref.cell, list(ref.proj), res, fr)
    return ()


@model(r'^<(\w+) as (Into<BigInt>|ToBigInt)>::(into|to_bigint)$')
def _to_bigint(eng, m, args, fr):
    v = deref(eng, args[0], fr)
    b = Big(_as_big(eng, v, fr))
    if m.group(3) == 'to_bigint':
        return Enum('Option', 'Some', [b])
    return b


@model(r'^<BigInt as From<(\w+)>>::from$')
def _big_from(eng, m, args, fr):
    return Big(_as_big(eng, args[0], fr))


def signed_len_options(e):
    """(n, cond) : minimal two's complement length n bytes of BigInt term e (n>=1)"""
    opts = []
    for n in range(1, BIGW // 8 + 1):
        lo, hi = -(1 << (8 * n - 1)), (1 << (8 * n - 1)) - 1
        c = z3.And(e >= z3.BitVecVal(lo, BIGW), e <= z3.BitVecVal(hi, BIGW))
        if n > 1:
            plo, phi = -(1 << (8 * (n - 1) - 1)), (1 << (8 * (n - 1) - 1)) - 1
            c = z3.And(c, z3.Or(e < z3.BitVecVal(plo, BIGW), e > z3.BitVecVal(phi, BIGW)))
        opts.append((n, c))
    return opts


@model(r'^BigInt::to_signed_bytes_be$')
def _to_signed_be(eng, m, args, fr):
    e = deref(eng, args[0], fr).e
    n = eng.choose(signed_len_options(e))      # num-bigint: 0 -> [0]
    return Vec([Int(z3.Extract(8 * (n - i) - 1, 8 * (n - i - 1), e), 8, False) for i in range(n)])


@model(r'^BigInt::to_signed_bytes_le$')
def _to_signed_le(eng, m, args, fr):
    v = _to_signed_be(eng, m, args, fr)
    return Vec(list(reversed(v.items)))


def bytes_of(eng, v, fr):
    v0 = v
    if isinstance(v, Slice):
        base = deref(eng, v.ref, fr)
        return base.items[v.start:v.start + v.length]
    v = deref(eng, v, fr)
    if isinstance(v, Vec):
        return v.items
    raise Unsupported('not bytes: %r' % (v0,))


def from_signed(items):
    n = len(items)
    if n == 0:
        return z3.BitVecVal(0, BIGW)
    if 8 * n > BIGW:
        raise PathEnd('bound', 'byte string longer than BigInt model width')
    e = z3.Concat(*[b.e for b in items]) if n > 1 else items[0].e
    return z3.SignExt(BIGW - 8 * n, e) if 8 * n < BIGW else e


@model(r'^BigInt::from_signed_bytes_be$')
def _from_signed_be(eng, m, args, fr):
    return Big(from_signed(bytes_of(eng, args[0], fr)))


@model(r'^BigInt::from_signed_bytes_le$')
def _from_signed_le(eng, m, args, fr):
    return Big(from_signed(list(reversed(bytes_of(eng, args[0], fr)))))


@model(r'^BigInt::to_bytes_be$')
def _to_bytes_be(eng, m, args, fr):
    e = deref(eng, args[0], fr).e
    neg = eng.branch_bool(e < 0)
    mag = -e if neg else e
    opts = [(0, mag == 0)]
    for n in range(1, BIGW // 8):
        opts.append((n, z3.And(z3.UGE(mag, z3.BitVecVal(1 << (8 * (n - 1)), BIGW)), z3.ULT(mag, z3.BitVecVal(1 << (8 * n), BIGW)))))
    n = eng.choose(opts)
    sign = Enum('Sign', 'Minus' if neg else ('NoSign' if n == 0 else 'Plus'), [])
    items = [Int(z3.Extract(8 * (n - i) - 1, 8 * (n - i - 1), mag), 8, False) for i in range(n)] if n else [mkint(0, 'u8')]
    return (sign, Vec(items))


# ---------------------------------------------------------------- Option / Result
@model(r'^(std::option::)?Option::<.*>::(unwrap|expect)$')
def _opt_unwrap(eng, m, args, fr):
    v = args[0]
    if v.variant == 'None':
        raise PathEnd('panic', 'unwrap on None')
    return v.fields[0]


@model(r'^(std::option::)?Option::<.*>::map::<.*>$')
def _opt_map(eng, m, args, fr):
    v, clo = args
    if v.variant == 'None':
        return Enum('Option', 'None', [])
    return Enum('Option', 'Some', [eng.call_closure(clo, [v.fields[0]])])


@model(r'^(std::option::)?Option::<.*>::unwrap_or_else::<.*>$')
def _opt_unwrap_or_else(eng, m, args, fr):
    v, clo = args
    if v.variant == 'Some':
        return v.fields[0]
    return eng.call_closure(clo, [])


# ---------------------------------------------------------------- Vec<u8> / slices
@model(r'^Vec::<u8>::len$|^core::slice::<impl \[u8\]>::len$')
def _len(eng, m, args, fr):
    return mkint(len(bytes_of(eng, args[0], fr)), 'usize')


@model(r'^core::slice::<impl \[u8\]>::is_empty$|^Vec::<u8>::is_empty$')
def _is_empty(eng, m, args, fr):
    return Bool(z3.BoolVal(len(bytes_of(eng, args[0], fr)) == 0))


@model(r'^Vec::<u8>::as_slice$|^<Vec<u8> as Deref>::deref$')
def _as_slice(eng, m, args, fr):
    r = args[0]
    while isinstance(deref_once(eng, r, fr), Ref):
        r = deref_once(eng, r, fr)
    return Slice(r, 0, len(bytes_of(eng, r, fr)))


def deref_once(eng, r, fr):
    return eng._walk(r.cell.v, list(r.proj), fr)


@model(r'^<\[u8\] as (std::ops::)?Index<(std::ops::)?RangeFrom<usize>>>::index$')
def _slice_from(eng, m, args, fr):
    s, rng = args
    k = eng.concretize(rng.start, 0, 64)
    if not isinstance(s, Slice):
        s = Slice(s, 0, len(bytes_of(eng, s, fr)))
    if k > s.length:
        raise PathEnd('panic', 'slice start out of range')
    return Slice(s.ref, s.start + k, s.length - k)


@model(r'^<Vec<u8> as (std::ops::)?Index<usize>>::index$')
def _vec_index(eng, m, args, fr):
    r, i = args
    k = eng.concretize(i, 0, 64)
    items = bytes_of(eng, r, fr)
    if k >= len(items):
        raise PathEnd('panic', 'index out of bounds')
    while isinstance(deref_once(eng, r, fr), Ref):
        r = deref_once(eng, r, fr)
    return Ref(r.cell, list(r.proj) + [('cindex', k)])


@model(r'^(std::)?slice::<impl \[u8\]>::to_vec$|^<Vec<u8> as Clone>::clone$')
def _to_vec(eng, m, args, fr):
    return Vec(list(bytes_of(eng, args[0], fr)))


@model(r'^Vec::<u8>::new$')
def _vec_new(eng, m, args, fr):
    return Vec([])


# ---------------------------------------------------------------- Range
@model(r'^<(std::ops::)?Range<usize> as IntoIterator>::into_iter$')
def _range_into_iter(eng, m, args, fr):
    return args[0]


@model(r'^<(std::ops::)?Range<usize> as Iterator>::next$')
def _range_next(eng, m, args, fr):
    r = deref(eng, args[0], fr)
    if eng.branch_bool(z3.ULT(r.start.e, r.end.e)):
        cur = r.start
        r.start = Int(cur.e + 1, 64, False)
        return Enum('Option', 'Some', [cur])
    return Enum('Option', 'None', [])


# ---------------------------------------------------------------- misc
@model(r'^<str as ToString>::to_string$|^format$|^std::fmt::format$|^alloc::fmt::format$|^core::fmt::rt::.*$')
def _string(eng, m, args, fr):
    return Opaque('string')


# ---------------------------------------------------------------- Rc / misc generic
@model(r'^<Rc<.*> as Borrow<.*>>::borrow$|^<Rc<.*> as Deref>::deref$|^<Rc<.*> as AsRef<.*>>::as_ref$')
def _rc_borrow(eng, m, args, fr):
    rc = deref(eng, args[0], fr)
    if not isinstance(rc, Cell):
        raise Unsupported('Rc borrow of %r' % (rc,))
    return Ref(rc)


@model(r'^<Rc<.*> as Clone>::clone$')
def _rc_clone(eng, m, args, fr):
    return deref(eng, args[0], fr)


@model(r'^Rc::<.*>::new$|^Rc::new$')
def _rc_new(eng, m, args, fr):
    return Cell(args[0])


@model(r'^<Srcloc as Clone>::clone$')
def _srcloc_clone(eng, m, args, fr):
    return deref(eng, args[0], fr)


@model(r'^core::fmt::rt::Argument::<.*>::new_(display|debug)::<.*>$|^Arguments::<.*>::new::<.*>$|^must_use::<.*>$|^core::fmt::.*$')
def _fmt(eng, m, args, fr):
    return Opaque('fmt')


@model(r'^panic$|^core::panicking::.*$|^std::rt::begin_panic.*$')
def _panic(eng, m, args, fr):
    raise PathEnd('panic', 'explicit panic')


# ---------------------------------------------------------------- clvmr Allocator as a store of trees
class Tree:
    def __init__(self, kind, a=None, b=None, atom=None):
        self.kind, self.a, self.b, self.atom = kind, a, b, atom


@model(r'^(allocator::)?Allocator::sexp$')
def _alloc_sexp(eng, m, args, fr):
    n = args[1]
    if n.kind == 'atom':
        return Enum('allocator::SExp', 'Atom', [])
    return Enum('allocator::SExp', 'Pair', [n.a, n.b])


@model(r'^(allocator::)?Allocator::nil$')
def _alloc_nil(eng, m, args, fr):
    return Tree('atom', atom=[])


@model(r'^Vec::<.*>::push$')
def _vec_push(eng, m, args, fr):
    v = deref(eng, args[0], fr)
    v.items.append(args[1])
    return ()


# ---------------------------------------------------------------- generic Vec<T>
@model(r'^<Vec<.*> as (std::default::)?Default>::default$|^Vec::<.*>::new$')
def _vec_default(eng, m, args, fr):
    return Vec([])


@model(r'^Vec::<.*>::len$|^core::slice::<impl \[.*\]>::len$')
def _vlen(eng, m, args, fr):
    return mkint(len(bytes_of(eng, args[0], fr)), 'usize')


@model(r'^Vec::<.*>::is_empty$|^core::slice::<impl \[.*\]>::is_empty$')
def _vempty(eng, m, args, fr):
    return Bool(z3.BoolVal(len(bytes_of(eng, args[0], fr)) == 0))


@model(r'^<Vec<.*> as Clone>::clone$|^(std|core)::slice::<impl \[.*\]>::to_vec$|^std::slice::<impl \[.*\]>::to_vec$')
def _vclone(eng, m, args, fr):
    return Vec(list(bytes_of(eng, args[0], fr)))


@model(r'^<Vec<.*> as Deref>::deref$|^Vec::<.*>::as_slice$')
def _vderef(eng, m, args, fr):
    r = args[0]
    while isinstance(deref_once(eng, r, fr), Ref):
        r = deref_once(eng, r, fr)
    return Slice(r, 0, len(bytes_of(eng, r, fr)))


@model(r'^Vec::<.*>::pop$')
def _vpop(eng, m, args, fr):
    v = deref(eng, args[0], fr)
    if not v.items:
        return Enum('Option', 'None', [])
    return Enum('Option', 'Some', [v.items.pop()])


@model(r'^<Vec<.*> as (std::ops::)?Index<usize>>::index$')
def _vindex(eng, m, args, fr):
    return _vec_index(eng, m, args, fr)


class BoxUninit:
    def __init__(self):
        self.cell = Cell(Struct('MaybeUninit', [None, Struct('ManuallyDrop', [Struct('MaybeDangling', [None])])]))


@model(r'^Box::<\[.*; \d+\]>::new_uninit$')
def _box_new_uninit(eng, m, args, fr):
    b = BoxUninit()
    # Box(Unique(NonNull(ptr)))  -> (_b.0).0 is the pointer
    return Struct('Box', [Struct('Unique', [Ref(b.cell)])])


@model(r'^std::boxed::box_assume_init_into_vec_unsafe::<.*>$')
def _box_into_vec(eng, m, args, fr):
    ptr = args[0].fields[0].fields[0]
    arr = ptr.cell.v.fields[1].fields[0].fields[0]
    return Vec(list(arr.items))


@model(r'^char::methods::<impl char>::is_whitespace$')
def _is_ws(eng, m, args, fr):
    c = args[0].e
    ws = [9, 10, 11, 12, 13, 32, 0x85, 0xA0, 0x1680, 0x2028, 0x2029, 0x202F, 0x205F, 0x3000] + list(range(0x2000, 0x200B))
    return Bool(z3.Or(*[c == z3.BitVecVal(k, 32) for k in ws]))


@model(r'^<(\w+) as (PartialEq|PartialOrd)>::(eq|ne)$')
def _prim_eq(eng, m, args, fr):
    a, b = deref(eng, args[0], fr), deref(eng, args[1], fr)
    if isinstance(a, Int) and isinstance(b, Int):
        return Bool(a.e == b.e if m.group(3) == 'eq' else a.e != b.e)
    return NotImplemented


def deep_copy(v):
    if isinstance(v, Struct):
        return Struct(v.ty, [deep_copy(x) for x in v.fields])
    if isinstance(v, Enum):
        return Enum(v.ty, v.variant, [deep_copy(x) for x in v.fields])
    if isinstance(v, Vec):
        return Vec([deep_copy(x) for x in v.items])
    if isinstance(v, tuple):
        return tuple(deep_copy(x) for x in v)
    return v        # Int/Big/Bool immutable; Cell = shared Rc; Opaque


@model(r'^<.* as Clone>::clone$')
def _generic_clone(eng, m, args, fr):
    return deep_copy(deref(eng, args[0], fr))


class IterV:
    def __init__(self, refs):
        self.refs = list(refs)
        self.pos = 0


def elem_refs(eng, v, fr):
    if isinstance(v, Slice):
        r = v.ref
        return [Ref(r.cell, list(r.proj) + [('cindex', v.start + i)]) for i in range(v.length)]
    r = v
    while isinstance(deref_once(eng, r, fr), Ref):
        r = deref_once(eng, r, fr)
    n = len(bytes_of(eng, r, fr))
    return [Ref(r.cell, list(r.proj) + [('cindex', i)]) for i in range(n)]


@model(r'^<&\[.*\] as IntoIterator>::into_iter$|^core::slice::<impl \[.*\]>::iter$|^<&Vec<.*> as IntoIterator>::into_iter$')
def _slice_iter(eng, m, args, fr):
    return IterV(elem_refs(eng, args[0], fr))


@model(r'^<std::slice::Iter<.*> as Iterator>::rev$')
def _iter_rev(eng, m, args, fr):
    it = args[0]
    return IterV(list(reversed(it.refs[it.pos:])))


@model(r'^<(Rev<)?std::slice::Iter<.*>(>)? as IntoIterator>::into_iter$')
def _iter_into_iter(eng, m, args, fr):
    return args[0]


@model(r'^<(Rev<)?std::slice::Iter<.*>(>)? as Iterator>::next$')
def _iter_next(eng, m, args, fr):
    it = deref(eng, args[0], fr)
    if it.pos >= len(it.refs):
        return Enum('Option', 'None', [])
    it.pos += 1
    return Enum('Option', 'Some', [it.refs[it.pos - 1]])


def seq_eq(eng, a, b, fr):
    xa, xb = bytes_of(eng, a, fr), bytes_of(eng, b, fr)
    if len(xa) != len(xb):
        return z3.BoolVal(False)
    if not xa:
        return z3.BoolVal(True)
    return z3.And(*[p.e == q.e for p, q in zip(xa, xb)])


@model(r'^<(\[u8\]|Vec<u8>|&\[u8\]|\[u8; \d+\]) as PartialEq<(.*)>>::(eq|ne)$|^<(Vec<u8>|\[u8\]) as PartialEq>::(eq|ne)$')
def _bytes_eq(eng, m, args, fr):
    e = seq_eq(eng, args[0], args[1], fr)
    ne = (m.group(3) or m.group(5)) == 'ne'
    return Bool(z3.Not(e) if ne else e)


@model(r'^(std::string::)?String::from_utf8_lossy$')
def _from_utf8_lossy(eng, m, args, fr):
    items = bytes_of(eng, args[0], fr)
    ascii_ok = z3.And(*[z3.ULT(b.e, 128) for b in items]) if items else z3.BoolVal(True)
    if not eng.branch_bool(ascii_ok):
        raise PathEnd('bound', 'non-ASCII through from_utf8_lossy (model covers ASCII only)')
    return Vec(list(items))          # Cow<str> as the byte list


@model(r'^<Cow<.*> as AsRef<str>>::as_ref$|^<str as ToString>::to_string$|^<(std::string::)?String as Deref>::deref$|^String::as_str$|^core::str::<impl str>::as_bytes$|^String::as_bytes$')
def _str_ident(eng, m, args, fr):
    v = args[0]
    if isinstance(v, (Ref, Slice)):
        return v
    return Vec(list(bytes_of(eng, v, fr))) if isinstance(v, Vec) else v


@model(r'^<BigInt as Num>::from_str_radix$')
def _from_str_radix(eng, m, args, fr):
    items = bytes_of(eng, args[0], fr)
    radix = concrete(args[1].e)
    if radix != 10:
        raise Unsupported('from_str_radix radix %r' % radix)
    if not items:
        return Enum('Result', 'Err', [Opaque('ParseBigIntError')])
    neg = eng.branch_bool(items[0].e == 45)
    plus = (not neg) and eng.branch_bool(items[0].e == 43)
    digs = items[1:] if (neg or plus) else items
    if not digs:
        return Enum('Result', 'Err', [Opaque('ParseBigIntError')])
    # num-bigint also accepts '_' separators (not first); model: digits only, else 'bound'
    alld = z3.And(*[z3.And(z3.UGE(b.e, 48), z3.ULE(b.e, 57)) for b in digs])
    if not eng.branch_bool(alld):
        under = z3.Or(*[b.e == 95 for b in digs])
        if eng.branch_bool(under):
            raise PathEnd('bound', "from_str_radix with '_' separator not modelled")
        return Enum('Result', 'Err', [Opaque('ParseBigIntError')])
    acc = z3.BitVecVal(0, BIGW)
    for b in digs:
        acc = acc * 10 + z3.ZeroExt(BIGW - 8, b.e - 48)
    if 10 ** len(digs) >= 1 << (BIGW - 1):
        raise PathEnd('bound', 'decimal literal too long for BigInt model')
    return Enum('Result', 'Ok', [Big(-acc if neg else acc)])


@model(r'^(std::result::)?Result::<.*>::(unwrap|expect)$')
def _res_unwrap(eng, m, args, fr):
    v = args[0]
    if v.variant == 'Err':
        raise PathEnd('panic', 'unwrap on Err')
    return v.fields[0]
