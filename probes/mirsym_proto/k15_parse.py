import sys, time, itertools
import z3
from mirparse import parse_dump
import mirsym
from mirsym import *
import models

funcs = parse_dump(open('/scratch/mir.txt').read())
N = int(sys.argv[1]) if len(sys.argv) > 1 else 2
eng = Engine(funcs, '/repo', loop_bound=80)
mirsym.VARIANTS['SExp'] = ['Nil', 'Cons', 'Integer', 'QuotedString', 'Atom']
inp = [Int(z3.BitVec('c%d' % i, 8), 8, False) for i in range(N)]
START = Struct('Srcloc', [Cell(Opaque('file')), mkint(1, 'usize'), mkint(1, 'usize'), Enum('Option', 'None', [])])

def harness(e):
    for b in inp:
        e.assume(b.e != 9)      # tab-free
    ppr = e.call('ParsePartialResult::new', [START])
    cell = Cell(ppr)
    for b in inp:
        r = e.call('ParsePartialResult::push', [Ref(cell), b])
        if r.variant == 'Err':
            return [('err', r)]
    out = e.call('ParsePartialResult::finalize', [cell.v])
    return [('fin', out)]

t0 = time.time()
try:
    res = eng.explore(harness)
except Exception as ex:
    import traceback; traceback.print_exc()
    print('stats', eng.stats); sys.exit(1)
kinds = {}
for kind, pc, obs, dec in res:
    kinds[kind] = kinds.get(kind, 0) + 1
    if kind not in ('done',):
        print(kind, str(obs)[:200])
print('N', N, 'paths', kinds, eng.stats, 'wall %.1f' % (time.time() - t0))
