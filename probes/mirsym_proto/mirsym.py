"""mirsym (prototype): forward symbolic execution of rustc MIR text with z3.

Shape-concrete / content-symbolic: container lengths, enum discriminants and
tree shapes are concrete on every path (the harness enumerates them, the
executor forks on them); bytes, machine integers and BigInt values are z3
terms.  Library functions (num-bigint, Vec<u8>, slices, Option/Result
combinators, Range) are replaced by models; functions whose MIR body is in the
dump are executed from that body.
"""
import re, sys, os
import z3
from mirparse import parse_dump, split_top, find_matching, MirSyntax

BIGW = 136          # width of the bit-vector standing in for BigInt (17 bytes)


class Unsupported(Exception):
    pass


class PathEnd(Exception):
    """path ended: kind in {'panic','bound','infeasible','unsupported'}"""
    def __init__(self, kind, msg=''):
        self.kind, self.msg = kind, msg


# ---------------------------------------------------------------- values
class Int:
    __slots__ = ('e', 'w', 'signed')
    def __init__(self, e, w, signed):
        self.e, self.w, self.signed = e, w, signed
    def __repr__(self):
        return 'Int(%s:%s%d)' % (z3.simplify(self.e), 'i' if self.signed else 'u', self.w)


class Big:
    __slots__ = ('e',)
    def __init__(self, e):
        self.e = e
    def __repr__(self):
        return 'Big(%s)' % z3.simplify(self.e)


class Bool:
    __slots__ = ('e',)
    def __init__(self, e):
        self.e = e


class Struct:
    def __init__(self, ty, fields):
        self.ty, self.fields = ty, fields
    def __repr__(self):
        return 'Struct(%s,%r)' % (self.ty, self.fields)


class Enum:
    def __init__(self, ty, variant, fields):
        self.ty, self.variant, self.fields = ty, variant, fields
    def __repr__(self):
        return 'Enum(%s::%s,%r)' % (self.ty, self.variant, self.fields)


class Vec:                       # Vec<u8>, String, [u8;N]
    def __init__(self, items):
        self.items = list(items)
    def __repr__(self):
        return 'Vec(%r)' % (self.items,)


class Cell:
    def __init__(self, v=None):
        self.v = v


class Ref:                       # pointer to (cell, projection path)
    def __init__(self, cell, proj=()):
        self.cell, self.proj = cell, tuple(proj)


class Slice:                     # &[u8] window over a Vec held in a cell/proj
    def __init__(self, ref, start, length):
        self.ref, self.start, self.length = ref, start, length


class Opaque:                    # strings for messages, ZSTs, etc.
    def __init__(self, what=''):
        self.what = what
    def __repr__(self):
        return 'Opaque(%s)' % self.what


class Closure:
    def __init__(self, key, captures):
        self.key, self.captures = key, captures


class RangeV:
    def __init__(self, start, end):
        self.start, self.end = start, end


INT_TYPES = {'u8': (8, False), 'u16': (16, False), 'u32': (32, False), 'u64': (64, False),
             'usize': (64, False), 'u128': (128, False), 'i8': (8, True), 'i16': (16, True),
             'i32': (32, True), 'i64': (64, True), 'isize': (64, True), 'i128': (128, True),
             'char': (32, False)}

VARIANTS = {   # discriminant order of enums we meet (std + repo); extended from source
    'allocator::SExp': ['Atom', 'Pair'],
    'Option': ['None', 'Some'],
    'Result': ['Ok', 'Err'],
}


def mkint(v, ty):
    w, s = INT_TYPES[ty]
    return Int(z3.BitVecVal(v, w), w, s)


def concrete(e):
    e = z3.simplify(e)
    if z3.is_bv_value(e):
        return e.as_long()
    if z3.is_true(e):
        return True
    if z3.is_false(e):
        return False
    return None


# ---------------------------------------------------------------- engine
class Engine:
    def __init__(self, funcs, srcroot, loop_bound=80):
        self.funcs = funcs
        self.srcroot = srcroot
        self.loop_bound = loop_bound
        self.alias = {}
        self.closures = {}
        self._index()
        self._scan_enums()
        self.solver = z3.Solver()
        self.stats = dict(paths=0, queries=0, panics=0, stmts=0, solver_s=0.0)
        self.encoded = set()

    # map call-site paths to definitions
    def _index(self):
        for name, f in self.funcs.items():
            m = re.match(r'^(.*)<impl at ([^:]+):(\d+):\d+: \d+:\d+>::(.+)$', name)
            if m:
                prefix, file, line, meth = m.groups()
                try:
                    src = open(os.path.join(self.srcroot, file)).read().split('\n')[int(line) - 1]
                except Exception:
                    continue
                mm = re.match(r'\s*impl(?:<[^>]*>)?\s+(?:(.+?)\s+for\s+)?([A-Za-z0-9_:<>, \'&]+?)\s*\{?\s*$', src)
                if not mm:
                    continue
                trait, ty = mm.group(1), mm.group(2).strip()
                ty_short = re.sub(r'<.*>', '', ty)
                if trait:
                    self.alias.setdefault('<%s as %s>::%s' % (ty_short, re.sub(r'<.*>', '', trait), meth), name)
                else:
                    self.alias.setdefault('%s::%s' % (ty_short, meth), name)
            if f.params and f.params[0][1].startswith('{closure@'):
                self.closures[f.params[0][1]] = name
            elif f.params and f.params[0][1].startswith('&{closure@'):
                self.closures[f.params[0][1][1:]] = name
            elif f.params and f.params[0][1].startswith('&mut {closure@'):
                self.closures[f.params[0][1][5:]] = name

    def _scan_enums(self):
        import glob
        for path in glob.glob(os.path.join(self.srcroot, 'src', '**', '*.rs'), recursive=True):
            txt = open(path).read()
            txt = re.sub(r'//[^\n]*', '', txt)
            for m in re.finditer(r'\benum\s+(\w+)\s*(<[^>{]*>)?\s*\{', txt):
                try:
                    end = find_matching(txt, m.end() - 1, '{', '}')
                except Exception:
                    continue
                body = txt[m.end():end]
                names = []
                for part in split_top(body):
                    part = re.sub(r'#\[[^\]]*\]', '', part).strip()
                    mm = re.match(r'^(\w+)', part)
                    if mm:
                        names.append(mm.group(1))
                VARIANTS.setdefault(m.group(1), names)

    def resolve(self, callee):
        c = re.sub(r'::<[^()]*?>(?=::|$)', '', callee)      # drop turbofish (approx.)
        if c in self.funcs:
            return c
        short = c.split('::')
        for k in range(len(short)):
            cand = '::'.join(short[k:])
            if cand in self.funcs:
                return cand
            if cand in self.alias:
                return self.alias[cand]
        # trait impl path "<T as Trait>::m" with module-qualified T
        m = re.match(r'^<(.+) as (.+)>::(\w+)$', c)
        if m:
            t, tr, me = m.groups()
            cand = '<%s as %s>::%s' % (t.split('::')[-1], tr.split('::')[-1], me)
            if cand in self.alias:
                return self.alias[cand]
        return None

    # ------------------------------------------------------------ path mgmt
    def explore(self, harness, max_paths=20000):
        """DFS over decision lists; harness(engine) runs one path and returns
        a list of obligations [(name, z3 bool that must hold)]."""
        results = []
        stack = [[]]
        while stack:
            prefix = stack.pop()
            self.decisions = list(prefix)
            self.dpos = 0
            self.pending = []
            self.pc = []
            self.solver.reset()
            self.loopcount = {}
            self.stats['paths'] += 1
            if self.stats['paths'] > max_paths:
                raise Unsupported('path budget exceeded')
            try:
                obs = harness(self)
                results.append(('done', list(self.pc), obs, list(self.decisions)))
            except PathEnd as p:
                results.append((p.kind, list(self.pc), p.msg, list(self.decisions)))
            for alt in self.pending:
                stack.append(alt)
        return results

    def sat(self, cond):
        import time
        t = time.time()
        self.solver.push()
        self.solver.add(cond)
        r = self.solver.check()
        self.solver.pop()
        self.stats['queries'] += 1
        self.stats['solver_s'] += time.time() - t
        if r == z3.unknown:
            raise Unsupported('solver unknown')
        return r == z3.sat

    def assume(self, cond):
        self.pc.append(cond)
        self.solver.add(cond)

    def choose(self, options):
        """options: list of (label, z3 cond).  Returns chosen label; records
        alternatives for later exploration."""
        if self.dpos < len(self.decisions):
            lab = self.decisions[self.dpos]
            self.dpos += 1
            for l, c in options:
                if l == lab:
                    self.assume(c)
                    return l
            raise Unsupported('decision replay mismatch')
        feas = [(l, c) for l, c in options if self.sat(c)]
        if not feas:
            raise PathEnd('infeasible')
        first = feas[0]
        for l, c in feas[1:]:
            self.pending.append(self.decisions[:self.dpos] + [l])
        self.decisions.append(first[0])
        self.dpos += 1
        self.assume(first[1])
        return first[0]

    def branch_bool(self, e):
        c = concrete(e)
        if c is not None:
            return bool(c)
        return self.choose([(True, e), (False, z3.Not(e))])

    def concretize(self, iv, lo=0, hi=64):
        """make an Int concrete by forking over its feasible values in [lo,hi]"""
        c = concrete(iv.e)
        if c is not None:
            return c
        opts = [(k, iv.e == z3.BitVecVal(k, iv.w)) for k in range(lo, hi + 1)]
        opts.append(('big', z3.UGT(iv.e, z3.BitVecVal(hi, iv.w))))
        k = self.choose(opts)
        if k == 'big':
            raise PathEnd('bound', 'value above concretisation bound %d' % hi)
        return k

    # ------------------------------------------------------------ calls
    def call(self, name, args):
        fn = self.resolve(name)
        if fn is None:
            raise Unsupported('no MIR body or model for ' + name)
        return self.run(self.funcs[fn], args)

    def run(self, f, args):
        self.encoded.add(f.name)
        fr = {}
        for (loc, ty), a in zip(f.params, args):
            fr[loc] = Cell(a)
        for loc in f.locals:
            if loc not in fr:
                fr[loc] = Cell(None)
        fr['_0'] = fr.get('_0', Cell(None))
        bb = 'bb0'
        while True:
            blk = f.blocks[bb]
            key = (id(fr), bb)
            self.loopcount[key] = self.loopcount.get(key, 0) + 1
            if self.loopcount[key] > self.loop_bound:
                raise PathEnd('bound', 'loop bound in %s %s' % (f.name, bb))
            for s in blk.stmts:
                self.stats['stmts'] += 1
                self.stmt(f, fr, s)
            nxt = self.term(f, fr, blk.term)
            if nxt is None:
                return fr['_0'].v
            bb = nxt

    # ------------------------------------------------------------ places
    def parse_place(self, s):
        s = s.strip()
        if re.fullmatch(r'_\d+', s):
            return (s, [])
        if s.startswith('(*') and s.endswith(')') and find_matching(s, 0) == len(s) - 1:
            base, proj = self.parse_place(s[2:-1])
            return (base, proj + [('deref',)])
        if s.startswith('(') and find_matching(s, 0) == len(s) - 1:
            inner = s[1:-1]
            # (P.N: T)  or (P as Variant)
            m = re.match(r'^(.*) as ([A-Za-z_0-9]+)$', inner)
            if m and ':' not in m.group(2):
                base, proj = self.parse_place(m.group(1))
                return (base, proj + [('downcast', m.group(2))])
            # find ".N: " at top level from the right
            idx = self._field_split(inner)
            if idx is not None:
                pl, rest = inner[:idx], inner[idx + 1:]
                fld = rest.split(':', 1)[0]
                base, proj = self.parse_place(pl)
                return (base, proj + [('field', int(fld))])
        m = re.match(r'^(.*)\[(_\d+)\]$', s)
        if m:
            base, proj = self.parse_place(m.group(1))
            return (base, proj + [('index', m.group(2))])
        m = re.match(r'^(.*)\[(\d+) of (\d+)\]$', s)
        if m:
            base, proj = self.parse_place(m.group(1))
            return (base, proj + [('cindex', int(m.group(2)))])
        raise MirSyntax('place: ' + s)

    def _field_split(self, inner):
        depth = 0
        for i in range(len(inner)):
            c = inner[i]
            if c in '([{<':
                depth += 1
            elif c in ')]}>':
                depth -= 1
            elif c == '.' and depth == 0 and re.match(r'\.\d+: ', inner[i:]):
                return i
        return None

    def load(self, fr, place):
        base, proj = place
        return self._get(fr[base], proj, fr)

    def _get(self, cell, proj, fr):
        v = cell.v
        return self._walk(v, list(proj), fr)

    def _walk(self, v, proj, fr):
        for i, p in enumerate(proj):
            if p[0] == 'deref':
                if isinstance(v, Ref):
                    v = self._walk(v.cell.v, list(v.proj), fr)
                elif isinstance(v, Slice):
                    pass            # (*slice)[i] handled at index
                elif isinstance(v, Cell):   # Box/Rc
                    v = v.v
                else:
                    raise Unsupported('deref of %r' % (v,))
            elif p[0] == 'field':
                if isinstance(v, (Struct, Enum)):
                    v = v.fields[p[1]]
                elif isinstance(v, tuple):
                    v = v[p[1]]
                elif isinstance(v, RangeV):
                    v = v.start if p[1] == 0 else v.end
                else:
                    raise Unsupported('field of %r' % (v,))
            elif p[0] == 'downcast':
                if not isinstance(v, Enum):
                    raise Unsupported('downcast of %r' % (v,))
            elif p[0] in ('index', 'cindex'):
                idx = self.concretize(fr[p[1]].v) if p[0] == 'index' else p[1]
                if isinstance(v, Slice):
                    base = self._walk(v.ref.cell.v, list(v.ref.proj), fr)
                    v = base.items[v.start + idx]
                elif isinstance(v, Vec):
                    v = v.items[idx]
                else:
                    raise Unsupported('index of %r' % (v,))
        return v

    def store(self, fr, place, val):
        base, proj = place
        cell = fr[base]
        self._set(cell, list(proj), val, fr)

    def _set(self, cell, proj, val, fr):
        if not proj:
            cell.v = val
            return
        # walk to the container of the last projection
        v = cell.v
        for i, p in enumerate(proj[:-1]):
            if p[0] == 'deref' and isinstance(v, Ref):
                return self._set(v.cell, list(v.proj) + proj[i + 1:], val, fr)
            v = self._walk(v, [p], fr)
        p = proj[-1]
        if p[0] == 'deref':
            if isinstance(v, Ref):
                return self._set(v.cell, list(v.proj), val, fr)
            raise Unsupported('store through %r' % (v,))
        if p[0] == 'field':
            if isinstance(v, (Struct, Enum)):
                v.fields[p[1]] = val
                return
            if isinstance(v, RangeV):
                if p[1] == 0:
                    v.start = val
                else:
                    v.end = val
                return
        if p[0] in ('index', 'cindex') and isinstance(v, Vec):
            idx = self.concretize(fr[p[1]].v) if p[0] == 'index' else p[1]
            v.items[idx] = val
            return
        raise Unsupported('store proj %r on %r' % (p, v))

    # ------------------------------------------------------------ operands
    def operand(self, f, fr, s):
        s = s.strip()
        if s.startswith('no_retag '):
            s = s[len('no_retag '):]
        if s.startswith('copy '):
            return self.copyval(self.load(fr, self.parse_place(s[5:])))
        if s.startswith('move '):
            return self.load(fr, self.parse_place(s[5:]))
        if s.startswith('const '):
            return self.const(s[6:])
        raise MirSyntax('operand: ' + s)

    def copyval(self, v):
        return v     # values are immutable except Struct/Vec held in cells; Copy types only

    def const(self, s):
        s = s.strip()
        if s == 'true':
            return Bool(z3.BoolVal(True))
        if s == 'false':
            return Bool(z3.BoolVal(False))
        m = re.fullmatch(r'(-?\d+)_(\w+)', s)
        if m and m.group(2) in INT_TYPES:
            return mkint(int(m.group(1)), m.group(2))
        if s.startswith('"'):
            body = s[1:s.rindex('"')]
            return Vec([mkint(b, 'u8') for b in body.encode().decode('unicode_escape').encode('latin1')])
        if s.startswith('b"'):
            body = s[2:s.rindex('"')]
            return Vec([mkint(b, 'u8') for b in body.encode().decode('unicode_escape').encode('latin1')])
        if s.startswith('ZeroSized: '):
            t = s[len('ZeroSized: '):]
            if t.startswith('{closure@'):
                return Closure(t, [])
            return Opaque(t)
        import mirparse
        for k in (s, s.split('::')[-1]):
            if k in mirparse.CONSTS:
                return self.const(mirparse.CONSTS[k])
        m = re.match(r'^(.*)::promoted\[(\d+)\]$', s)
        if m:
            fn = self.resolve(m.group(1))
            if fn and (fn + '::promoted[%s]' % m.group(2)) in self.funcs:
                return self.run(self.funcs[fn + '::promoted[%s]' % m.group(2)], [])
            raise Unsupported('promoted const ' + s)
        return Opaque('const ' + s)

    # ------------------------------------------------------------ statements
    def stmt(self, f, fr, s):
        if s.startswith(('StorageLive', 'StorageDead', 'nop', 'FakeRead', 'PlaceMention', 'Retag', 'AscribeUserType', 'Coverage', 'ConstEvalCounter')):
            return
        lhs, rhs = s.split(' = ', 1)
        place = self.parse_place(lhs)
        self.store(fr, place, self.rvalue(f, fr, rhs, f.locals.get(place[0]) if not place[1] else None))

    BINOPS = {'Eq', 'Ne', 'Lt', 'Le', 'Gt', 'Ge', 'Add', 'Sub', 'Mul', 'Div', 'Rem', 'BitAnd', 'BitOr',
              'BitXor', 'Shl', 'Shr', 'AddWithOverflow', 'SubWithOverflow', 'MulWithOverflow',
              'AddUnchecked', 'SubUnchecked', 'MulUnchecked', 'ShlUnchecked', 'ShrUnchecked'}

    def rvalue(self, f, fr, s, ty=None):
        s = s.strip()
        m = re.match(r'^([A-Za-z]+)\((.*)\)$', s)
        if m and m.group(1) in self.BINOPS:
            a, b = split_top(m.group(2))
            return self.binop(m.group(1), self.operand(f, fr, a), self.operand(f, fr, b))
        if m and m.group(1) == 'Not':
            v = self.operand(f, fr, m.group(2))
            return Bool(z3.Not(v.e)) if isinstance(v, Bool) else Int(~v.e, v.w, v.signed)
        if m and m.group(1) == 'Neg':
            v = self.operand(f, fr, m.group(2))
            return Int(-v.e, v.w, v.signed)
        if m and m.group(1) == 'PtrMetadata':
            v = self.operand(f, fr, m.group(2))
            if isinstance(v, Slice):
                return mkint(v.length, 'usize')
            if isinstance(v, Ref):
                t = self._walk(v.cell.v, list(v.proj), fr)
                if isinstance(t, Vec):
                    return mkint(len(t.items), 'usize')
            raise Unsupported('PtrMetadata of %r' % (v,))
        if s.startswith('discriminant('):
            v = self.load(fr, self.parse_place(s[len('discriminant('):-1]))
            if not isinstance(v, Enum):
                raise Unsupported('discriminant of %r' % (v,))
            return mkint(self.variant_index(v), 'isize')
        if s.startswith('&mut ') or s.startswith('&raw '):
            pl = self.parse_place(s.split(' ', 2)[-1] if s.startswith('&raw') else s[5:])
            return self.mkref(fr, pl)
        if s.startswith('&'):
            return self.mkref(fr, self.parse_place(s[1:]))
        m = re.match(r'^((?:copy|move|const) .*) as (.+) \((\w+)(\(.*\))?\)$', s)
        if m:
            v = self.operand(f, fr, m.group(1))
            return self.cast(v, m.group(2).strip(), m.group(3))
        if s.startswith(('copy ', 'move ', 'const ', 'no_retag ')):
            return self.operand(f, fr, s)
        return self.aggregate(f, fr, s, ty)

    def mkref(self, fr, pl):
        base, proj = pl
        cell = fr[base]
        # normalise through leading derefs so refs point at the owner cell
        v = cell.v
        outp = []
        for i, p in enumerate(proj):
            if p[0] == 'deref':
                tgt = self._walk(cell.v, outp, fr) if outp else cell.v
                if isinstance(tgt, Ref):
                    cell, outp = tgt.cell, list(tgt.proj)
                    continue
                if isinstance(tgt, Slice):
                    return tgt
                if isinstance(tgt, Cell):
                    cell, outp = tgt, []
                    continue
                raise Unsupported('ref through %r' % (tgt,))
            elif p[0] == 'index':
                outp.append(('cindex', self.concretize(fr[p[1]].v)))
            else:
                outp.append(p)
        return Ref(cell, outp)

    def variant_index(self, v):
        names = VARIANTS.get(v.ty) or VARIANTS.get(v.ty.split('::')[-1].split('<')[0])
        if names is None:
            raise Unsupported('unknown enum layout ' + v.ty)
        return names.index(v.variant)

    def aggregate(self, f, fr, s, ty):
        # tuple
        if s.startswith('(') and find_matching(s, 0) == len(s) - 1:
            return tuple(self.operand(f, fr, a) for a in split_top(s[1:-1]))
        if s.startswith('[') and s.endswith(']'):
            inner = s[1:-1]
            m = re.match(r'^(.*); (\d+)$', inner)
            if m:
                v = self.operand(f, fr, m.group(1))
                return Vec([v] * int(m.group(2)))
            return Vec([self.operand(f, fr, a) for a in split_top(inner)])
        # Struct { f: op, .. }
        m = re.match(r'^(.+?) \{ (.*) \}$', s)
        if m:
            name = m.group(1)
            fields = []
            for fa in split_top(m.group(2)):
                fields.append(self.operand(f, fr, fa.split(': ', 1)[1]))
            short = re.sub(r'::<.*>', '', name).split('::')[-1]
            if short in ('Range',):
                return RangeV(fields[0], fields[1])
            if short == 'RangeFrom':
                return RangeV(fields[0], None)
            return Struct(re.sub(r'::<.*>$', '', name), fields)
        # Enum::Variant(args) or Enum::Variant
        m = re.match(r'^(.+)::(\w+)(\((.*)\))?$', s)
        if m:
            ety = re.sub(r'::<.*>$', '', m.group(1))
            args = [self.operand(f, fr, a) for a in split_top(m.group(4))] if m.group(4) else []
            return Enum(ety, m.group(2), args)
        m = re.match(r'^(\w+)\((.*)\)$', s)        # variant with imported name e.g. InternalError(..)
        if m:
            return Enum('?', m.group(1), [self.operand(f, fr, a) for a in split_top(m.group(2))])
        raise MirSyntax('rvalue: ' + s)

    def cast(self, v, ty, kind):
        if kind == 'IntToInt' and isinstance(v, Int):
            w, sg = INT_TYPES[ty]
            if w == v.w:
                e = v.e
            elif w < v.w:
                e = z3.Extract(w - 1, 0, v.e)
            else:
                e = z3.SignExt(w - v.w, v.e) if v.signed else z3.ZeroExt(w - v.w, v.e)
            return Int(e, w, sg)
        if kind == 'IntToInt' and isinstance(v, Bool):
            w, sg = INT_TYPES[ty]
            return Int(z3.If(v.e, z3.BitVecVal(1, w), z3.BitVecVal(0, w)), w, sg)
        if kind == 'PointerCoercion':
            if isinstance(v, Ref):
                t = self._walk(v.cell.v, list(v.proj), None)
                if isinstance(t, Vec):
                    return Slice(v, 0, len(t.items))
            return v
        if kind in ('Transmute', 'PtrToPtr'):
            return v
        if kind == 'IntToInt' and False:
            pass
        raise Unsupported('cast %s of %r' % (kind, v))

    def binop(self, op, a, b):
        if isinstance(a, Bool) and isinstance(b, Bool):
            if op == 'Eq': return Bool(a.e == b.e)
            if op == 'Ne': return Bool(a.e != b.e)
            if op == 'BitAnd': return Bool(z3.And(a.e, b.e))
            if op == 'BitOr': return Bool(z3.Or(a.e, b.e))
            if op == 'BitXor': return Bool(z3.Xor(a.e, b.e))
        if not (isinstance(a, Int) and isinstance(b, Int)):
            raise Unsupported('binop %s on %r %r' % (op, a, b))
        w, sg = a.w, a.signed
        x, y = a.e, b.e
        if op in ('Shl', 'Shr', 'ShlUnchecked', 'ShrUnchecked'):
            if b.w < w:
                y = z3.ZeroExt(w - b.w, y)
            elif b.w > w:
                y = z3.Extract(w - 1, 0, y)
            if op.startswith('Shl'):
                return Int(x << y, w, sg)
            return Int((x >> y) if sg else z3.LShR(x, y), w, sg)
        cmpf = {'Eq': lambda: x == y, 'Ne': lambda: x != y,
                'Lt': lambda: (x < y) if sg else z3.ULT(x, y), 'Le': lambda: (x <= y) if sg else z3.ULE(x, y),
                'Gt': lambda: (x > y) if sg else z3.UGT(x, y), 'Ge': lambda: (x >= y) if sg else z3.UGE(x, y)}
        if op in cmpf:
            return Bool(cmpf[op]())
        if op in ('Add', 'AddUnchecked'): return Int(x + y, w, sg)
        if op in ('Sub', 'SubUnchecked'): return Int(x - y, w, sg)
        if op in ('Mul', 'MulUnchecked'): return Int(x * y, w, sg)
        if op == 'Div': return Int((x / y) if sg else z3.UDiv(x, y), w, sg)
        if op == 'Rem': return Int(z3.SRem(x, y) if sg else z3.URem(x, y), w, sg)
        if op == 'BitAnd': return Int(x & y, w, sg)
        if op == 'BitOr': return Int(x | y, w, sg)
        if op == 'BitXor': return Int(x ^ y, w, sg)
        if op in ('AddWithOverflow', 'SubWithOverflow', 'MulWithOverflow'):
            ext = z3.SignExt if sg else z3.ZeroExt
            xx, yy = ext(w, x), ext(w, y)
            full = {'AddWithOverflow': xx + yy, 'SubWithOverflow': xx - yy, 'MulWithOverflow': xx * yy}[op]
            res = z3.Extract(w - 1, 0, full)
            ovf = ext(w, res) != full
            return (Int(res, w, sg), Bool(ovf))
        raise Unsupported('binop ' + op)

    # ------------------------------------------------------------ terminators
    def term(self, f, fr, t):
        if t == 'return':
            return None
        if t.startswith('goto -> '):
            return t[8:]
        if t == 'unreachable':
            raise PathEnd('panic', 'unreachable reached in ' + f.name)
        if t.startswith('switchInt('):
            end = find_matching(t, len('switchInt'))
            v = self.operand(f, fr, t[len('switchInt('):end])
            targets = t[end + 1:].strip()
            assert targets.startswith('-> [') and targets.endswith(']')
            opts = []
            for tg in split_top(targets[4:-1]):
                k, bb = tg.split(': ')
                opts.append((k.strip(), bb.strip()))
            if isinstance(v, Bool):
                val = self.branch_bool(v.e)
                for k, bb in opts:
                    if k != 'otherwise' and int(k) == int(val):
                        return bb
                return dict(opts)['otherwise']
            c = concrete(v.e)
            if c is None:
                conds, others = [], []
                for k, bb in opts:
                    if k != 'otherwise':
                        conds.append((bb, v.e == z3.BitVecVal(int(k), v.w)))
                        others.append(v.e != z3.BitVecVal(int(k), v.w))
                    else:
                        conds.append((bb, z3.And(*others)))
                return self.choose(conds)
            if v.signed and c >= (1 << (v.w - 1)):
                c -= (1 << v.w)
            for k, bb in opts:
                if k != 'otherwise' and int(k) == c:
                    return bb
            return dict(opts)['otherwise']
        if t.startswith('drop('):
            m = re.search(r'\[return: (bb\d+)', t)
            return m.group(1)
        if t.startswith('assert('):
            end = find_matching(t, len('assert'))
            args = split_top(t[len('assert('):end])
            cond_s = args[0]
            neg = cond_s.startswith('!')
            v = self.operand(f, fr, cond_s[1:] if neg else cond_s)
            e = z3.Not(v.e) if neg else v.e
            m = re.search(r'\[success: (bb\d+)', t)
            ok = self.branch_bool(e)
            if not ok:
                self.stats['panics'] += 1
                raise PathEnd('panic', 'MIR assert failed in %s: %s' % (f.name, args[1] if len(args) > 1 else ''))
            return m.group(1)
        # call
        m = re.match(r'^(.+?) = (.+)$', t)
        dest = None
        body = t
        if m and re.match(r'^[_(*]', m.group(1)) and ' -> ' in t:
            dest, body = m.group(1), m.group(2)
        mm = re.search(r' -> (\[return: (bb\d+).*\]|unwind .*)$', body)
        if not mm:
            raise MirSyntax('terminator: ' + t)
        ret_bb = mm.group(2)
        callexpr = body[:mm.start()]
        # split callee and args: last top-level '(' group
        end = len(callexpr) - 1
        assert callexpr[end] == ')', callexpr
        depth = 0
        i = end
        while i >= 0:
            if callexpr[i] == ')': depth += 1
            elif callexpr[i] == '(':
                depth -= 1
                if depth == 0:
                    break
            i -= 1
        callee = callexpr[:i].strip()
        args = [self.operand(f, fr, a) for a in split_top(callexpr[i + 1:end])]
        res = self.do_call(callee, args, fr)
        if ret_bb is None:
            raise PathEnd('panic', 'diverging call ' + callee)
        if dest is not None:
            self.store(fr, self.parse_place(dest), res)
        return ret_bb

    def do_call(self, callee, args, fr):
        from models import MODELS
        for pat, fn in MODELS:
            m = pat.match(callee)
            if m:
                r = fn(self, m, args, fr)
                if r is not NotImplemented:
                    return r
        if callee.startswith(('move _', 'copy _')):
            raise Unsupported('indirect call ' + callee)
        fn = self.resolve(callee)
        if fn is None:
            raise Unsupported('no MIR body or model for ' + callee)
        return self.run(self.funcs[fn], args)

    def call_closure(self, clo, args):
        name = self.closures.get(clo.key)
        if name is None:
            raise Unsupported('closure body not found ' + clo.key)
        f = self.funcs[name]
        selfarg = clo
        return self.run(f, [selfarg] + list(args))
