"""differential: tools' path lookup (flatten_signed_int . number_from_u8 ; choose_path)
vs consensus clvmr::traverse_path executed from clvmr's MIR, same env shape, symbolic path bytes"""
import sys, time, itertools
import z3
from mirparse import parse_dump
import mirsym
from mirsym import *
import models
from models import Tree

mirsym.VARIANTS['SExp'] = ['Nil', 'Cons', 'Integer', 'QuotedString', 'Atom']   # compiler::sexp::SExp (scan may pick clvmr's first)
funcs = parse_dump(open('/scratch/mir.txt').read())
cl = parse_dump(open('/scratch/mir_clvmr.txt').read())
for k, v in cl.items():
    funcs.setdefault(k, v)

LOC = Struct('Srcloc', [Opaque('file'), mkint(1, 'usize'), mkint(1, 'usize'), Enum('Option', 'None', [])])

def shapes(n):
    """all binary tree shapes with n leaves"""
    if n == 1:
        yield 'L'; return
    for k in range(1, n):
        for l in shapes(k):
            for r in shapes(n - k):
                yield (l, r)

def build(shape, ctr):
    """returns (rich SExp value, allocator Tree, leaf id)"""
    if shape == 'L':
        i = next(ctr)
        b = [mkint(0x41 + i, 'u8')]
        return Enum('SExp', 'Atom', [LOC, Vec(b)]), Tree('atom', atom=b, a=i)
    l, r = shape
    ls, lt = build(l, ctr); rs, rt = build(r, ctr)
    return Enum('SExp', 'Cons', [LOC, Cell(ls), Cell(rs)]), Tree('pair', lt, rt)

def leaf_of_rich(v):
    v = v.v if isinstance(v, Cell) else v
    return v

t0 = time.time(); total = dict(paths=0, queries=0, viol=[])
for nleaves in (1, 2, 3):
  for shape in shapes(nleaves):
    for n in range(0, 3):
        eng = Engine(funcs, '/repo', loop_bound=80)
        eng._scan_enums(); mirsym.VARIANTS['SExp'] = ['Nil', 'Cons', 'Integer', 'QuotedString', 'Atom']
        inp = [Int(z3.BitVec('p%d' % i, 8), 8, False) for i in range(n)]
        def harness(e):
            rich, tree = build(shape, itertools.count())
            # consensus side
            cell = Cell(Vec(list(inp)))
            r_cons = e.call('traverse_path', [Ref(Cell(Opaque('alloc'))), Slice(Ref(cell), 0, n), tree])
            # tool side
            num = e.call('util::number_from_u8', [Slice(Ref(cell), 0, n)])
            flat = e.call('flatten_signed_int', [num])
            r_tool = e.call('choose_path', [LOC, flat, flat, Cell(rich), Cell(rich)])
            return [(r_cons, r_tool)]
        res = eng.explore(harness)
        for kind, pc, obs, dec in res:
            total['paths'] += 1
            if kind != 'done':
                s = z3.Solver(); s.add(*pc)
                if s.check() == z3.sat:
                    m = s.model(); total['viol'].append((kind, str(obs)[:80], shape, [m.eval(b.e, model_completion=True).as_long() for b in inp]))
                continue
            r_cons, r_tool = obs[0]
            def norm_c(r):
                if r.variant == 'Err': return ('err',)
                t = r.fields[0].fields[1]
                return ('atom', t.a) if t.kind == 'atom' and t.atom else (('nil',) if t.kind == 'atom' else ('pair', id(t)))
            def norm_t(r):
                if r.variant == 'Err': return ('err',)
                v = r.fields[0].v
                if v.variant == 'Atom': return ('atom', concrete(v.fields[1].items[0].e) - 0x41)
                if v.variant == 'Nil': return ('nil',)
                return ('pair', None)
            a, b = norm_c(r_cons), norm_t(r_tool)
            if a[0] != b[0] or (a[0] == 'atom' and a[1] != b[1]):
                s = z3.Solver(); s.add(*pc); s.check(); m = s.model()
                total['viol'].append(('diff', a, b, shape, [m.eval(x.e, model_completion=True).as_long() for x in inp]))
        total['queries'] += eng.stats['queries']
print('paths', total['paths'], 'queries', total['queries'], 'wall %.1fs' % (time.time() - t0))
seen = set()
for v in total['viol']:
    k = str(v[:3])
    if k not in seen:
        seen.add(k); print('VIOL', v)
