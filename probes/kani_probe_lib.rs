#![allow(unused)]
#[cfg(kani)]
mod proofs {
    use std::rc::Rc;
    use chialisp::classic::clvm::__type_compatibility__::{Bytes, BytesFromType, Stream, pybytes_repr};
    use chialisp::classic::clvm::casts::int_from_bytes;
    use chialisp::classic::clvm::{keyword_from_atom, keyword_to_atom};
    use chialisp::classic::clvm::serialize::{sexp_from_stream, sexp_to_stream, SimpleCreateCLVMObject};
    use chialisp::classic::clvm_tools::ir::reader::read_ir;
    use chialisp::classic::clvm_tools::ir::r#type::IRRepr;
    use chialisp::compiler::sexp::{parse_sexp, SExp};
    use chialisp::compiler::srcloc::Srcloc;
    use chialisp::util::{number_from_u8, u8_from_number, Number};
    use clvmr::allocator::Allocator;
    use num_bigint::BigInt;

    #[kani::proof]
    fn m1_srcloc_advance() {
        let f = Rc::new("*k*".to_string());
        let line: usize = kani::any();
        let col: usize = kani::any();
        kani::assume(line < 1000000 && col < 1000000 && col >= 1 && line >= 1);
        let s = Srcloc::new(f, line, col);
        let ch: u8 = kani::any();
        kani::assume(ch != b'\t');
        let t = s.advance(ch);
        if ch == b'\n' { assert!(t.line == line + 1 && t.col == 1); } else { assert!(t.line == line && t.col == col + 1); }
    }

    #[kani::proof]
    #[kani::unwind(10)]
    fn m2_int_from_bytes() {
        let len: usize = kani::any();
        kani::assume(len <= 8);
        let a: [u8; 8] = kani::any();
        let r = int_from_bytes(Bytes::new(Some(BytesFromType::Raw(a[..len].to_vec()))), None).unwrap();
        let mut expect: u64 = 0;
        for i in 0..len { expect = (expect << 8) | (a[i] as u64); }
        // known: fails for len>=4
        kani::assume(len < 4);
        assert_eq!(r, expect);
    }

    #[kani::proof]
    #[kani::unwind(8)]
    fn m3_decode3() {
        let a: [u8; 3] = kani::any();
        let mut alloc = Allocator::new();
        let mut s = Stream::new(Some(Bytes::new(Some(BytesFromType::Raw(a.to_vec())))));
        let r = sexp_from_stream(&mut alloc, &mut s, Box::new(SimpleCreateCLVMObject {}));
        std::mem::forget(r);
        std::mem::forget(alloc);
        std::mem::forget(s);
    }

    #[kani::proof]
    #[kani::unwind(4)]
    fn m4_bigint_arith() {
        let x: u32 = kani::any();
        let n = BigInt::from(x);
        let m: BigInt = n.clone() * 2 + 1;
        assert!(m > n);
        std::mem::forget(m); std::mem::forget(n);
    }

    #[kani::proof]
    #[kani::unwind(4)]
    fn m5_from_signed1() {
        let a: [u8; 1] = kani::any();
        let n = number_from_u8(&a);
        assert!(n < BigInt::from(128) );
        std::mem::forget(n);
    }

    #[kani::proof]
    #[kani::unwind(4)]
    fn m6_to_signed() {
        let x: i16 = kani::any();
        let n = BigInt::from(x);
        let b = u8_from_number(n);
        assert!(b.len() <= 2);
        std::mem::forget(b);
    }

    #[kani::proof]
    #[kani::unwind(60)]
    fn m7_kw_lookup() {
        let b: u8 = kani::any();
        let r = keyword_from_atom(2).get(&vec![b]);
        if b == 1 { assert!(r.is_some()); }
        if b == 0 { assert!(r.is_none()); }
    }

    #[kani::proof]
    #[kani::unwind(6)]
    fn m8_parse2() {
        let a: [u8; 2] = kani::any();
        kani::assume(!(a[0] >= b'0' && a[0] <= b'9') && a[0] != b'-' && a[0] != b'#');
        kani::assume(!(a[1] >= b'0' && a[1] <= b'9') && a[1] != b'-' && a[1] != b'#');
        let r = parse_sexp(Srcloc::start("*k*"), a.iter().copied());
        std::mem::forget(r);
    }

    #[kani::proof]
    #[kani::unwind(12)]
    fn m9_quotes_roundtrip() {
        let a: [u8; 2] = kani::any();
        kani::assume(a[0] >= 32 && a[0] < 127 && a[1] >= 32 && a[1] < 127);
        kani::assume(a[0] != b'\\' && a[1] != b'\\');
        let s = pybytes_repr(&a, true, false);
        let r = read_ir(&s);
        match r {
            Ok(IRRepr::Quotes(b)) => { assert!(b.data()[..] == a[..]); }
            _ => { assert!(false); }
        }
    }
}
