use std::collections::HashMap;
use std::rc::Rc;
use chialisp::classic::clvm_tools::binutils::{assemble, disassemble};
use chialisp::classic::clvm_tools::stages::stage_0::{DefaultProgramRunner, TRunProgram};
use chialisp::compiler::compiler::DefaultCompilerOpts;
use chialisp::compiler::comptypes::CompilerOpts;
use chialisp::compiler::clvm::{parse_and_run};
use chialisp::classic::clvm_tools::clvmc::{compile_clvm_text, compile_clvm_text_maybe_opt};
use clvmr::allocator::Allocator;

#[test]
fn f2_observable() {
    let n = 30;
    let params: Vec<String> = (0..n).map(|i| format!("p{}", i)).collect();
    let src = format!("(mod ({}) (include *standard-cl-21*) {})", params.join(" "), params[n - 1]);
    let args: Vec<String> = (0..n).map(|i| format!("{}", 100 + i)).collect();
    for opt in [true, false] {
        let mut a = Allocator::new();
        let mut syms = HashMap::new();
        let opts: Rc<dyn CompilerOpts> = Rc::new(DefaultCompilerOpts::new("*t*"));
        let prog = compile_clvm_text_maybe_opt(&mut a, opt, opts, &mut syms, &src, "*t*", false).unwrap();
        let env = assemble(&mut a, &format!("({})", args.join(" "))).unwrap();
        let r = DefaultProgramRunner::new().run_program(&mut a, prog, env, None);
        println!("opt={} prog={} result={:?}", opt, disassemble(&a, prog, None), r.map(|x| disassemble(&a, x.1, None)));
    }
}

#[test]
fn path_zero_byte() {
    let mut a = Allocator::new();
    for (p, e) in [("0x00", "(1 2)"), ("0x0002", "(1 2)"), ("(f 0x00)", "(1 2)")] {
        let prog = assemble(&mut a, p).unwrap();
        let env = assemble(&mut a, e).unwrap();
        let r = DefaultProgramRunner::new().run_program(&mut a, prog, env, None).map(|x| disassemble(&a, x.1, None));
        let s = parse_and_run(&mut a, Rc::new(DefaultProgramRunner::new()), "*t*", p, e, Some(1000)).map(|x| x.to_string());
        println!("{} on {}: clvmr={:?} stepper={:?}", p, e, r, s);
    }
}
