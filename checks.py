"""Registry: property id -> harness list and runner."""
from mirsym import driver


def _runner(prop, mk, time_cap=None, extra=None):
    def run(tier, seed, jobs=None, only=None):
        hs = mk()
        if only:
            names = set(only.split(','))
            hs = [h for h in hs if h.name in names]
        cap = (time_cap or {}).get(tier)
        return driver.run_check(prop, hs, tier, seed, jobs=jobs, time_cap=cap,
                                extra_evidence=extra(tier) if extra else None)
    return run


def c04():
    from harness import paths
    return [paths.PathOptimizer()]


REGISTRY = {
    'C04': dict(harnesses=c04, run=_runner('C04', c04)),
}
