"""Registry: property id -> harness list and runner."""
from mirsym import driver


def _runner(prop, mk, time_cap=None, extra=None):
    def run(tier, seed, jobs=None, only=None):
        hs = mk()
        if only:
            names = set(only.split(','))
            hs = [h for h in hs if h.name in names]
        cap = (time_cap or {}).get(tier)
        return driver.run_check(prop, hs, tier, seed, jobs=jobs, time_cap=cap,
                                extra_evidence=extra(tier) if extra else None)
    return run


def c04():
    from harness import paths, rewrites
    return [paths.PathOptimizer(), rewrites.ClassicOptimize()]


def c08():
    from harness import codec
    return [codec.IntFromBytes(), codec.Decode(), codec.EncodeRoundTrip(), codec.AtomSizeBlob()]


def c06():
    from harness import stepper
    return [stepper.PathLookup(), stepper.CoreEval()]


def c07():
    from harness import convert
    return [convert.ConvRoundTrip(), convert.EqHash()]


def c20():
    from harness import tables
    return [tables.Tables()]


def c15():
    from harness import reader
    return [reader.ReaderLocs()]


def c09():
    from harness import text
    return [text.ClassicText(), text.ModernText()]


def c05():
    from harness import intmode, pipeline
    return [intmode.GuardRestores(), pipeline.OutputIndependent()]


def c19():
    from harness import atomic
    return [atomic.AtomicWrite()]


def c18():
    from harness import includes
    return [includes.ReadNewFile(), includes.DepsListing()]


def c01():
    from harness import lookup, pipeline
    return [lookup.NameLookup(), pipeline.CompileRun()]


def c13():
    from harness import pipeline
    return [pipeline.SymbolsDescribe()]


def c17():
    from harness import pipeline
    return [pipeline.UnusedReallyUnused()]


def c10():
    from harness import pipeline
    return [pipeline.IllScopedRejected()]


def c16():
    from harness import replcheck
    return [replcheck.ReplAgrees()]


def c12():
    from harness import debugger
    return [debugger.TraceFaithful(), debugger.RawTrace()]


def c03():
    from harness import symtab, pipeline
    return [symtab.SymbolTable(), pipeline.ClassicBuilds()]


def c02():
    from harness import rewrites, pipeline
    return [rewrites.OutputOptimize(), rewrites.BriefChain(), pipeline.BuildsAgree()]


def c14():
    from harness import frontends, lookup
    return [frontends.AssembleAny(), frontends.ReaderNoPanic(), frontends.DecodeNoPanic(), frontends.DisassembleNoPanic(), lookup.NameLookup()]


REGISTRY = {
    'C14': dict(harnesses=c14, run=_runner('C14', c14)),
    'C02': dict(harnesses=c02, run=_runner('C02', c02)),
    'C03': dict(harnesses=c03, run=_runner('C03', c03)),
    'C12': dict(harnesses=c12, run=_runner('C12', c12)),
    'C16': dict(harnesses=c16, run=_runner('C16', c16)),
    'C10': dict(harnesses=c10, run=_runner('C10', c10)),
    'C17': dict(harnesses=c17, run=_runner('C17', c17)),
    'C13': dict(harnesses=c13, run=_runner('C13', c13)),
    'C01': dict(harnesses=c01, run=_runner('C01', c01)),
    'C18': dict(harnesses=c18, run=_runner('C18', c18)),
    'C19': dict(harnesses=c19, run=_runner('C19', c19)),
    'C05': dict(harnesses=c05, run=_runner('C05', c05)),
    'C09': dict(harnesses=c09, run=_runner('C09', c09)),
    'C15': dict(harnesses=c15, run=_runner('C15', c15)),
    'C20': dict(harnesses=c20, run=_runner('C20', c20)),
    'C07': dict(harnesses=c07, run=_runner('C07', c07)),
    'C06': dict(harnesses=c06, run=_runner('C06', c06)),
    'C08': dict(harnesses=c08, run=_runner('C08', c08)),
    'C04': dict(harnesses=c04, run=_runner('C04', c04)),
}
