#!/bin/sh
# Build everything the checks need from files on disk only (offline).
set -e
cd "$(dirname "$0")"
export CARGO_NET_OFFLINE=true
python3-vt - <<'PY'
import sys
sys.path.insert(0, '.')
from mirsym import cache, replaybin
print(cache.mir_dump()[0])
print(cache.clvmr_dump())
print(replaybin.build())
PY
